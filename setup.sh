#!/bin/bash
# Offline setup: make sure hypothesis is importable beside the repository's packages.
set -e
PY="${VERIF_PYTHON:-/venv/bin/python}"
if ! "$PY" -c 'import hypothesis' 2>/dev/null; then
  /venv/bin/pip install --no-index --find-links /opt/veriftools/wheels hypothesis
fi
"$PY" -c 'import hypothesis, sympy, mpmath; print("setup ok", hypothesis.__version__, sympy.__version__)'
mkdir -p "$(dirname "$0")/evidence" "$(dirname "$0")/replays/new" "$(dirname "$0")/.cache"
