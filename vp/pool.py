"""16-way task pool over forked workers with per-task hang guards.

run_tasks(fn, tasks) -> list of (status, value) in task order, status in {"ok", "error", "timeout"}.
 * "error": the worker function raised (value = traceback text) -> harness error unless the caller
   decides otherwise;
 * "timeout": the hang guard expired; the worker is killed and replaced (value = None) -> the caller
   counts the task as inconclusive, never as a violation.
Workers are forked from the parent after it imported what it needs, so imports are paid once.
With fresh=True every task gets a fresh forked process (no state shared between tasks).
"""
from __future__ import annotations

import multiprocessing as mp
import multiprocessing.connection as mpc
import os
import time
import traceback
from typing import Any, Callable, Sequence

from .boot import NPROC

_CTX = mp.get_context("fork")


def die_with_parent() -> None:
    """Linux: deliver SIGKILL to this process when its parent dies (no orphaned workers burning CPU)."""
    try:
        import ctypes
        import signal
        ctypes.CDLL("libc.so.6", use_errno=True).prctl(1, signal.SIGKILL)
    except Exception:  # pylint: disable=broad-except
        pass


def _worker(conn: Any, fn: Callable[[Any], Any], init: Callable[[], None] | None) -> None:
    die_with_parent()
    try:
        if os.environ.get("VERIF_DEBUG_HANG"):
            import faulthandler
            faulthandler.dump_traceback_later(float(os.environ["VERIF_DEBUG_HANG"]), repeat=True, exit=False)
        if init is not None:
            init()
        while True:
            msg = conn.recv()
            if msg is None:
                break
            idx, task = msg
            try:
                conn.send((idx, "ok", fn(task)))
            except BaseException:  # pylint: disable=broad-except
                conn.send((idx, "error", traceback.format_exc()))
    except (EOFError, KeyboardInterrupt):
        pass
    finally:
        conn.close()
        os._exit(0)


class _Slot:

    def __init__(self, fn: Any, init: Any) -> None:
        self.parent, child = _CTX.Pipe()
        self.proc = _CTX.Process(target=_worker, args=(child, fn, init), daemon=True)
        self.proc.start()
        child.close()
        self.idx: int | None = None
        self.started = 0.0

    def kill(self) -> None:
        try:
            self.proc.kill()
            self.proc.join(5)
        finally:
            self.parent.close()

    def stop(self) -> None:
        try:
            self.parent.send(None)
        except (BrokenPipeError, OSError):
            pass
        self.proc.join(5)
        if self.proc.is_alive():
            self.proc.kill()
        self.parent.close()


def run_tasks(fn: Callable[[Any], Any], tasks: Sequence[Any], *, procs: int | None = None,
    timeout: float | None = None, init: Callable[[], None] | None = None,
    fresh: bool = False) -> list[tuple[str, Any]]:
    n = len(tasks)
    results: list[tuple[str, Any] | None] = [None] * n
    if n == 0:
        return []
    procs = max(1, min(procs or NPROC, n))
    if procs == 1 and timeout is None and not fresh:
        if init is not None:
            init()
        out = []
        for t in tasks:
            try:
                out.append(("ok", fn(t)))
            except Exception:  # pylint: disable=broad-except
                out.append(("error", traceback.format_exc()))
        return out
    pending = list(range(n))[::-1]
    slots: list[_Slot] = []
    done = 0

    def assign(slot: _Slot) -> None:
        if pending:
            i = pending.pop()
            slot.idx = i
            slot.started = time.time()
            slot.parent.send((i, tasks[i]))
        else:
            slot.idx = None

    for _ in range(procs):
        s = _Slot(fn, init)
        slots.append(s)
        assign(s)
    try:
        while done < n:
            busy = [s for s in slots if s.idx is not None]
            if not busy:
                break
            ready = mpc.wait([s.parent for s in busy], timeout=1.0)
            now = time.time()
            for s in busy:
                if s.parent in ready:
                    try:
                        idx, status, val = s.parent.recv()
                    except (EOFError, OSError):
                        # worker died (segfault / os._exit): report as error for its task
                        results[s.idx] = ("error", "worker died")  # type: ignore[index]
                        done += 1
                        s.kill()
                        slots.remove(s)
                        ns = _Slot(fn, init)
                        slots.append(ns)
                        assign(ns)
                        continue
                    results[idx] = (status, val)
                    done += 1
                    if fresh:
                        s.stop()
                        slots.remove(s)
                        if pending:
                            ns = _Slot(fn, init)
                            slots.append(ns)
                            assign(ns)
                    else:
                        assign(s)
                elif timeout is not None and now - s.started > timeout:
                    results[s.idx] = ("timeout", None)  # type: ignore[index]
                    done += 1
                    s.kill()
                    slots.remove(s)
                    if pending:
                        ns = _Slot(fn, init)
                        slots.append(ns)
                        assign(ns)
    finally:
        for s in slots:
            if s.idx is None:
                s.stop()
            else:
                s.kill()
    return [r if r is not None else ("error", "not run") for r in results]


def shard_counts(total: int, shards: int) -> list[int]:
    base, extra = divmod(total, shards)
    return [base + (1 if i < extra else 0) for i in range(shards)]
