"""Deterministic greedy minimiser for JSON case descriptions (used instead of Hypothesis' shrinker,
whose 5-minute cap and flakiness detection do not mix with wall-clock budgets).

shrink(case, candidates, still_fails): repeatedly replaces the case by the first strictly smaller
candidate that still fails in the same bucket, until no candidate does or the budget is used up.
The result always satisfies still_fails (it is the last case for which it returned True)."""
from __future__ import annotations

import copy
import json
import time
from typing import Any, Callable, Iterable, Iterator


def size(case: Any) -> int:
    return len(json.dumps(case, sort_keys=True, default=str))


def shrink(case: Any, candidates: Callable[[Any], Iterable[Any]], still_fails: Callable[[Any], bool], *,
    budget_s: float = 30.0, max_checks: int = 4000) -> Any:
    best = case
    t0 = time.time()
    checks = 0
    progress = True
    while progress:
        progress = False
        for cand in candidates(best):
            if time.time() - t0 > budget_s or checks >= max_checks:
                return best
            if size(cand) >= size(best):
                continue
            checks += 1
            try:
                ok = bool(still_fails(cand))
            except Exception:  # pylint: disable=broad-except
                ok = False
            if ok:
                best = cand
                progress = True
                break
    return best


def paths(tree: Any, prefix: tuple[int, ...] = ()) -> Iterator[tuple[int, ...]]:
    """All node paths of a list-encoded tree ["op", child, child, ...] (children are lists)."""
    yield prefix
    if isinstance(tree, list):
        for i, c in enumerate(tree):
            if isinstance(c, list):
                yield from paths(c, prefix + (i,))


def get_at(tree: Any, path: tuple[int, ...]) -> Any:
    for i in path:
        tree = tree[i]
    return tree


def replace_at(tree: Any, path: tuple[int, ...], new: Any) -> Any:
    if not path:
        return copy.deepcopy(new)
    out = copy.deepcopy(tree)
    node = out
    for i in path[:-1]:
        node = node[i]
    node[path[-1]] = copy.deepcopy(new)
    return out
