"""P-code: Pratt parser for the plain-text ('code') rendering, driven by the expression's lexicon.

Grammar (ordinary arithmetic reading):
    rel     := sum (('='|'<'|'>'|'<='|'>='|'!=') sum)?
    sum     := term (('+'|'-') term)*                 left-assoc
    term    := unary (('*'|'/') unary)*               left-assoc
    unary   := '-' unary | power                      (so -a^b == -(a^b), -a*b == (-a)*b: same value)
    power   := postfix ('^' unary_in_exponent)?       right-assoc, binds tighter than unary minus on its left
    postfix := primary ( '(' args ')' | '[' args ']' | '.T' )*
    primary := number | lexicon token | constant | name | '(' rel (',' rel)* ')' | '[' ... ']'
Never calls SymPy's parsers or printers."""
from __future__ import annotations

import re
from typing import Any

from .lexicon import Lexicon


class ParseError(Exception):
    pass


class ForeignSymbol(ParseError):
    """An identifier used as a plain symbol that is not the display name of any atom of the expression."""


_NUM = re.compile(r"\d+(\.\d*)?([eE][+-]?\d+)?|\.\d+([eE][+-]?\d+)?")
_IDENT = re.compile(r"[A-Za-z_][A-Za-z_0-9]*")
_OPS = ["<=", ">=", "!=", "==", "+", "-", "*", "/", "^", "(", ")", "[", "]", ",", "=", "<", ">", ".T"]
_CONSTS = {"pi": "pi", "E": "E", "I": "I", "oo": "oo"}
_WORD = re.compile(r"[A-Za-z0-9_]")


def tokenize(text: str, lex: Lexicon) -> list[tuple[str, str]]:
    out: list[tuple[str, str]] = []
    i, n = 0, len(text)
    toks = lex.tokens
    while i < n:
        c = text[i]
        if c.isspace():
            i += 1
            continue
        matched = None
        for t in toks:
            if text.startswith(t, i):
                j = i + len(t)
                if _WORD.match(t[-1]) and j < n and _WORD.match(text[j]):
                    continue
                if _WORD.match(t[0]) and i > 0 and _WORD.match(text[i - 1]) and out and out[-1][0] in ("num", "ident"):
                    continue
                matched = t
                break
        if matched is not None:
            out.append(("tok", matched))
            i += len(matched)
            continue
        m = _NUM.match(text, i)
        if m and not (i > 0 and _WORD.match(text[i - 1])):
            out.append(("num", m.group(0)))
            i = m.end()
            continue
        m = _IDENT.match(text, i)
        if m:
            out.append(("ident", m.group(0)))
            i = m.end()
            continue
        for op in _OPS:
            if text.startswith(op, i):
                out.append(("op", op))
                i += len(op)
                break
        else:
            raise ParseError(f"cannot tokenise at {i}: {text[i:i + 20]!r}")
    out.append(("end", ""))
    return out


class Parser:

    def __init__(self, text: str, lex: Lexicon) -> None:
        self.lex = lex
        self.toks = tokenize(text, lex)
        self.p = 0

    def peek(self) -> tuple[str, str]:
        return self.toks[self.p]

    def take(self) -> tuple[str, str]:
        t = self.toks[self.p]
        self.p += 1
        return t

    def accept(self, val: str) -> bool:
        k, v = self.peek()
        if k == "op" and v == val:
            self.p += 1
            return True
        return False

    def expect(self, val: str) -> None:
        if not self.accept(val):
            raise ParseError(f"expected {val!r}, got {self.peek()}")

    def parse(self) -> Any:
        tree = self.rel()
        if self.peek()[0] != "end":
            raise ParseError(f"trailing input at token {self.p}: {self.peek()}")
        return tree

    def rel(self) -> Any:
        a = self.sum()
        k, v = self.peek()
        if k == "op" and v in ("=", "==", "<", ">", "<=", ">=", "!="):
            self.take()
            b = self.sum()
            return ("rel", "=" if v == "==" else v, a, b)
        return a

    def sum(self) -> Any:
        a = self.term()
        while True:
            if self.accept("+"):
                a = ("add", a, self.term())
            elif self.accept("-"):
                a = ("sub", a, self.term())
            else:
                return a

    def term(self) -> Any:
        a = self.unary()
        while True:
            if self.accept("*"):
                a = ("mul", a, self.unary())
            elif self.accept("/"):
                a = ("div", a, self.unary())
            else:
                return a

    def unary(self) -> Any:
        if self.accept("-"):
            return ("neg", self.unary())
        if self.accept("+"):
            return self.unary()
        return self.power()

    def power(self) -> Any:
        base = self.postfix()
        if self.accept("^"):
            # right-assoc; a^-b is read as a^(-b)
            exp = self.unary()
            return ("pow", base, exp)
        return base

    def args(self, close: str) -> list[Any]:
        out: list[Any] = []
        if self.accept(close):
            return out
        while True:
            out.append(self.rel())
            if self.accept(","):
                continue
            self.expect(close)
            return out

    def postfix(self) -> Any:
        node = self.primary()
        while True:
            if self.accept("("):
                args = self.args(")")
                node = self.make_call(node, args)
            elif self.accept("["):
                idx = self.args("]")
                if node[0] != "tok":
                    raise ParseError(f"indexing a non-atom: {node}")
                node = ("index", node[1], idx)
            elif self.accept(".T"):
                node = ("transpose", node)
            else:
                return node

    def make_call(self, head: Any, args: list[Any]) -> Any:
        if head[0] == "tok":
            return ("apply", head[1], args)
        if head[0] != "name":
            raise ParseError(f"call of a non-name: {head}")
        name = head[1]
        if name == "Derivative":
            body, vs = args[0], []
            for v in args[1:]:
                if v[0] == "tuple":
                    vs.append((self.var(v[1][0]), self.intlit(v[1][1])))
                else:
                    vs.append((self.var(v), 1))
            return ("deriv", body, vs)
        if name in ("Integral", "Sum", "Product"):
            kind = {"Integral": "integral", "Sum": "sum", "Product": "prod"}[name]
            lims = []
            for v in args[1:]:
                if v[0] == "tuple":
                    items = v[1]
                    var = self.var(items[0])
                    if len(items) == 3:
                        lims.append((var, items[1], items[2]))
                    elif len(items) == 2:
                        lims.append((var, None, items[1]))
                    else:
                        lims.append((var, None, None))
                else:
                    lims.append((self.var(v), None, None))
            return (kind, args[0], lims)
        return ("call", name, args)

    @staticmethod
    def var(node: Any) -> str:
        if node[0] != "tok":
            raise ParseError(f"bound variable is not an atom: {node}")
        return str(node[1])

    @staticmethod
    def intlit(node: Any) -> int:
        if node[0] != "num":
            raise ParseError(f"derivative order is not a literal: {node}")
        return int(node[1])

    def primary(self) -> Any:
        k, v = self.take()
        if k == "num":
            return ("num", v)
        if k == "tok":
            return ("tok", v)
        if k == "ident":
            if v in _CONSTS and not (self.peek() == ("op", "(")):
                return ("const", v)
            if self.peek() == ("op", "("):
                return ("name", v)
            raise ForeignSymbol(f"unknown identifier {v!r} (not a display name of any atom of the expression)")
        if k == "op" and v == "(":
            items = self.args(")")
            if len(items) == 1:
                return items[0]
            return ("tuple", items)
        if k == "op" and v == "[":
            items = self.args("]")
            if items and all(isinstance(x, tuple) and x[0] == "matrix_row" for x in items):
                return ("matrix", [x[1] for x in items])
            return ("matrix_row", items)
        raise ParseError(f"unexpected token {k}:{v!r}")


def parse_code(text: str, lex: Lexicon) -> Any:
    tree = Parser(text, lex).parse()
    return _fix_matrix(tree)


def _fix_matrix(t: Any) -> Any:
    """[a, b] -> column vector; [a, b].T -> row vector; [[..],[..]] -> matrix of rows."""
    if not isinstance(t, tuple):
        return t
    if t[0] == "transpose" and isinstance(t[1], tuple) and t[1][0] == "matrix_row":
        return ("matrix", [[_fix_matrix(x) for x in t[1][1]]])
    if t[0] == "matrix_row":
        return ("matrix", [[_fix_matrix(x)] for x in t[1]])
    if t[0] == "matrix":
        return ("matrix", [[_fix_matrix(x) for x in row] for row in t[1]])
    return tuple(_fix_matrix(x) if isinstance(x, tuple) else
        ([_fix_matrix(y) if isinstance(y, tuple) else y for y in x] if isinstance(x, list) else x) for x in t)
