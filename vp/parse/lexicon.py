"""Lexicon of an expression: the printer's own rendering of every ATOM (symbol, quantity, index,
indexed base, function head, opaque `Symbolic` wrapper).  The parsers match these strings greedily,
longest first, at token boundaries - this is the property's "symbols appear under their display names"
and keeps display names such as `t_1/2`, `90_deg`, `d T` from being mis-tokenised.
Only atoms are rendered here; every composite is left to the printer under test."""
from __future__ import annotations

import re
from typing import Any, Callable

INTERNAL_NAME = re.compile(r"\b(SYM|FUN|QTY|VEC)\d+\b")


class Lexicon:

    def __init__(self, mode: str) -> None:
        self.mode = mode
        self.by_atom: dict[Any, str] = {}
        self.atoms_of: dict[str, list[Any]] = {}
        self.kinds: dict[str, str] = {}
        self.heads: set[str] = set()
        self.bases: set[str] = set()
        self.opaque: set[str] = set()
        self._sorted: list[str] | None = None

    def add(self, atom: Any, token: str, kind: str, *, head: bool = False, base: bool = False,
        opaque: bool = False) -> None:
        token = token.strip()
        if atom in self.by_atom:
            return
        self.by_atom[atom] = token
        self.atoms_of.setdefault(token, []).append(atom)
        self.kinds.setdefault(token, kind)
        if head:
            self.heads.add(token)
        if base:
            self.bases.add(token)
        if opaque:
            self.opaque.add(token)
        self._sorted = None

    def token_of(self, atom: Any) -> str:
        try:
            return self.by_atom[atom]
        except KeyError as exc:
            from ..model.interp import Uninterpretable
            raise Uninterpretable(f"atom without lexicon entry: {atom!r}") from exc

    @property
    def tokens(self) -> list[str]:
        if self._sorted is None:
            self._sorted = sorted((t for t in self.atoms_of if t), key=lambda t: (-len(t), t))
        return self._sorted

    def ambiguous(self) -> list[str]:
        """Tokens shared by two or more *different* atoms of the expression."""
        out = []
        for t, atoms in self.atoms_of.items():
            plain = [a for a in atoms if not self._is_head_or_base(a)]
            if len(plain) > 1:
                out.append(t)
        return sorted(out)

    @staticmethod
    def _is_head_or_base(atom: Any) -> bool:
        import sympy
        return isinstance(atom, (sympy.IndexedBase, sympy.FunctionClass))


def _kind(atom: Any) -> str:
    if getattr(atom, "is_positive", None):
        return "positive"
    if getattr(atom, "is_negative", None):
        return "negative"
    if getattr(atom, "is_integer", None):
        return "integer"
    return "real"


def _printer(mode: str) -> Any:
    if mode == "code":
        from symplyphysics.docs.printer_code import SymbolCodePrinter
        return SymbolCodePrinter({})
    from symplyphysics.docs.printer_latex import SymbolLatexPrinter
    return SymbolLatexPrinter({})


def build_lexicon(expr: Any, mode: str) -> Lexicon:
    # pylint: disable=too-many-branches
    import sympy
    from sympy.core.function import AppliedUndef
    from sympy.physics.units import Quantity as SymQuantity
    from symplyphysics.core.operations.symbolic import Symbolic
    from symplyphysics.core.symbols.symbols import DimensionSymbol
    lex = Lexicon(mode)
    pr = _printer(mode)
    render: Callable[[Any], str] = lambda a: str(pr.doprint(a))

    def head_token(func: Any) -> str:
        name = func.display_name if isinstance(func, DimensionSymbol) else func.__name__
        if mode == "code":
            return str(name)
        name = func.display_latex if isinstance(func, DimensionSymbol) else func.__name__
        return str(pr._hprint_Function(name))  # pylint: disable=protected-access

    def walk(e: Any) -> None:
        if isinstance(e, (list, tuple)):
            for x in e:
                walk(x)
            return
        if isinstance(e, sympy.MatrixBase):
            for x in e:
                walk(x)
            return
        if isinstance(e, Symbolic):
            lex.add(e, render(e), _kind(e), opaque=True)
            return
        if isinstance(e, (sympy.Symbol, SymQuantity)):
            lex.add(e, render(e), _kind(e))
            return
        if isinstance(e, sympy.Idx):
            lex.add(e, render(e), "index")
            return
        if isinstance(e, sympy.Indexed):
            lex.add(e.base, render(e.base), "real", base=True)
            for i in e.indices:
                walk(i)
            return
        if isinstance(e, sympy.IndexedBase):
            lex.add(e, render(e), "real", base=True)
            return
        if isinstance(e, AppliedUndef):
            lex.add(e.func, head_token(e.func), "real", head=True)
            for a in e.args:
                walk(a)
            return
        if isinstance(e, sympy.Basic):
            for a in e.args:
                walk(a)

    walk(expr)
    return lex
