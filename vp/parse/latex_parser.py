"""P-latex: reader for the LaTeX subset emitted by the library's printer, driven by the lexicon.

Reading rules ("read as mathematics"):
  * `a b`, `a \\cdot b`, adjacency of groups = product; `- x y` negates the following product;
  * `\\frac{a}{b}` quotient, `\\sqrt[n]{x}` root, `x^{a}` power (grouping by braces only);
  * `f{\\left(x, y \\right)}` / `f^{k}{\\left(x \\right)}` application (and its k-th power) for lexicon function
    heads, `\\sin`-like commands and `\\operatorname{name}`; `\\log_{b} \\left( x \\right)`; `\\exp{...}`;
  * prefix operators `\\frac{d^{n}}{d x^{n}}`, `\\frac{\\partial^{n}}{\\partial x ...}`, `\\sum_{i}`, `\\prod_{i}`,
    `\\sum_{i=a}^{b}`, `\\int\\limits_{a}^{b} ... \\, dx` apply to the REST OF THE PRODUCT they stand in
    (the conventional reading of a prefix operator followed by juxtaposed factors);
  * `\\left| x \\right|` absolute value, `x!` factorial, `pmatrix` matrices, `{base}_{i}` indexed atoms.
Well-formedness (balanced braces, matched \\left/\\right and \\begin/\\end) is a separate scan."""
from __future__ import annotations

import re
from typing import Any

from .lexicon import Lexicon


class ParseError(Exception):
    pass


class ForeignSymbol(ParseError):
    """A plain letter (not a function head, not a differential) that is not the display name of any atom of the expression."""


_CMD = re.compile(r"\\[A-Za-z]+")
_NUM = re.compile(r"\d+(\.\d+)?")
_ALNUM = re.compile(r"[A-Za-z0-9]")
_SPACING = {"\\;", "\\!", "\\ ", "\\quad", "\\qquad", "\\displaystyle", "\\limits", "\\,"}
FUNCS = {"sin", "cos", "tan", "cot", "sec", "csc", "sinh", "cosh", "tanh", "coth", "arcsin", "arccos", "arctan",
    "arccot", "exp", "ln", "arg", "min", "max", "det", "asin", "acos", "atan", "acot", "asec", "acsc", "asinh", "acosh",
    "atanh", "acoth", "asech", "acsch", "sech", "csch", "sign", "erf", "erfc", "floor", "ceiling", "re", "im",
    "gamma"}
_GREEK_FUNCS = {"\\Gamma": "gamma"}
_RELS = {"=": "=", "<": "<", ">": ">", "\\leq": "<=", "\\geq": ">=", "\\neq": "!=", "\\le": "<=", "\\ge": ">="}
_STOP = {"}", ")", "]", "+", "-", "=", "<", ">", ",", "&", "\\\\", "\\right", "\\end", "|", "\\leq", "\\geq", "\\neq",
    "\\le", "\\ge", "\\rangle", "END"}


def wellformed(text: str) -> str | None:
    """None if braces are balanced (never negative), \\left/\\right matched and properly nested with
    braces, every \\begin closed by the matching \\end, and no empty ^{} / _{}; else a description."""
    stack: list[str] = []
    i, n = 0, len(text)
    while i < n:
        c = text[i]
        if c == "\\":
            m = _CMD.match(text, i)
            if m:
                cmd = m.group(0)
                i = m.end()
                if cmd == "\\left":
                    stack.append("left")
                    i = _skip_delim(text, i)
                elif cmd == "\\right":
                    if not stack or stack[-1] != "left":
                        return f"\\right without matching \\left at {i}"
                    stack.pop()
                    i = _skip_delim(text, i)
                elif cmd in ("\\begin", "\\end"):
                    m2 = re.compile(r"\{([A-Za-z*]+)\}").match(text, i)
                    if not m2:
                        return f"{cmd} without environment name at {i}"
                    i = m2.end()
                    if cmd == "\\begin":
                        stack.append("env:" + m2.group(1))
                    else:
                        if not stack or stack[-1] != "env:" + m2.group(1):
                            return f"\\end{{{m2.group(1)}}} does not match at {i}"
                        stack.pop()
                continue
            i += 2
            continue
        if c == "{":
            stack.append("{")
        elif c == "}":
            if not stack or stack[-1] != "{":
                return f"unbalanced '}}' at {i}"
            stack.pop()
        i += 1
    if stack:
        return f"unclosed {stack[-1]}"
    if re.search(r"[\^_]\{\s*\}", text):
        return "empty ^{} or _{}"
    return None


def _skip_delim(text: str, i: int) -> int:
    while i < len(text) and text[i] == " ":
        i += 1
    if i < len(text):
        if text[i] == "\\":
            m = _CMD.match(text, i)
            return m.end() if m else i + 2
        return i + 1
    return i


def tokenize(text: str, lex: Lexicon) -> list[tuple[str, str]]:
    out: list[tuple[str, str]] = []
    i, n = 0, len(text)
    toks = lex.tokens
    after_d = False
    while i < n:
        c = text[i]
        if c.isspace():
            i += 1
            continue
        if c == "d" and out and out[-1][0] == "thin" and i + 1 < n and not text[i + 1].isspace():
            # differential of an integral written without a space: "\\, dx"
            if any(text.startswith(t, i + 1) for t in toks) and not any(text.startswith(t, i) and len(t) > 1 for t in toks):
                out.append(("letter", "d"))
                i += 1
                after_d = True
                continue
        matched = None
        for t in toks:
            if text.startswith(t, i):
                j = i + len(t)
                if _ALNUM.match(t[-1]) and j < n and _ALNUM.match(text[j]):
                    # SymPy joins the differentials of a mixed derivative without a space: "d kd z^{2}"
                    if not (text[j] == "d" and j + 1 < n and text[j + 1] in " \\"):
                        continue
                if _ALNUM.match(t[0]) and i > 0 and _ALNUM.match(text[i - 1]) and not after_d:
                    continue
                matched = t
                break
        after_d = False
        if matched is not None:
            out.append(("tok", matched))
            i += len(matched)
            continue
        if c == "\\":
            if text.startswith("\\\\", i):
                out.append(("sym", "\\\\"))
                i += 2
                continue
            m = _CMD.match(text, i)
            if m:
                cmd = m.group(0)
                i = m.end()
                if cmd in _SPACING:
                    if cmd == "\\,":
                        out.append(("thin", cmd))
                    continue
                out.append(("cmd", cmd))
                continue
            two = text[i:i + 2]
            i += 2
            if two in _SPACING:
                if two == "\\,":
                    out.append(("thin", two))
                continue
            out.append(("sym", two))
            continue
        m = _NUM.match(text, i)
        if m:
            out.append(("num", m.group(0)))
            i = m.end()
            continue
        if c.isalpha():
            out.append(("letter", c))
            i += 1
            continue
        out.append(("sym", c))
        i += 1
    out.append(("END", "END"))
    return out


class Parser:
    # pylint: disable=too-many-public-methods

    def __init__(self, text: str, lex: Lexicon) -> None:
        self.lex = lex
        self.toks = tokenize(text, lex)
        self.p = 0
        self.in_integral = 0

    # -- token helpers --
    def peek(self, k: int = 0) -> tuple[str, str]:
        j = min(self.p + k, len(self.toks) - 1)
        return self.toks[j]

    def take(self) -> tuple[str, str]:
        t = self.toks[self.p]
        self.p += 1
        return t

    def at(self, val: str) -> bool:
        return self.peek()[1] == val and self.peek()[0] in ("sym", "cmd", "END", "thin")

    def accept(self, val: str) -> bool:
        if self.at(val):
            self.p += 1
            return True
        return False

    def expect(self, val: str) -> None:
        if not self.accept(val):
            raise ParseError(f"expected {val!r}, got {self.peek()} at token {self.p}")

    def skip_thin(self) -> None:
        while self.peek()[0] == "thin" and not self.in_integral:
            self.p += 1

    # -- grammar --
    def parse(self) -> Any:
        t = self.rel()
        self.skip_thin()
        if self.peek()[0] != "END":
            raise ParseError(f"trailing input at token {self.p}: {self.peek()}")
        return t

    def rel(self) -> Any:
        a = self.sum()
        k, v = self.peek()
        if k in ("sym", "cmd") and v in _RELS:
            self.take()
            b = self.sum()
            return ("rel", _RELS[v], a, b)
        return a

    def sum(self) -> Any:
        self.skip_thin()
        if self.accept("-"):
            a: Any = ("neg", self.product())
        elif self.accept("+"):
            a = self.product()
        else:
            a = self.product()
        while True:
            self.skip_thin()
            if self.accept("+"):
                a = ("add", a, self.product())
            elif self.accept("-"):
                a = ("sub", a, self.product())
            else:
                return a

    def starts_factor(self) -> bool:
        k, v = self.peek()
        if k == "thin":
            return False
        if k in ("num", "tok", "letter"):
            return True
        if k == "END":
            return False
        if v in _STOP:
            return False
        if k == "cmd" and v in ("\\cdot", "\\times"):
            return False
        return True

    def product(self) -> Any:
        self.skip_thin()
        acc: Any = None
        while True:
            self.skip_thin()
            if self.accept("\\cdot") or self.accept("\\times"):
                pass
            elif not self.starts_factor():
                break
            f = self.factor()
            if isinstance(f, tuple) and f and f[0] == "prefix":
                # prefix operator: applies to the rest of this product
                rest = self.product_rest()
                node = self.apply_prefix(f, rest)
                acc = node if acc is None else ("mul", acc, node)
                break
            acc = f if acc is None else ("mul", acc, f)
        if acc is None:
            raise ParseError(f"empty product at token {self.p}: {self.peek()}")
        return acc

    def product_rest(self) -> Any:
        self.skip_thin()
        if self.accept("-"):
            # operand written with a leading sign, e.g. \frac{d}{dx} \left(- f\right) is bracketed; bare '-' is not expected
            return ("neg", self.product())
        return self.product()

    def apply_prefix(self, pre: Any, body: Any) -> Any:
        kind = pre[1]
        if kind == "deriv":
            return ("deriv", body, pre[2])
        if kind in ("sum", "prod"):
            return (kind, body, pre[2])
        if kind == "integral":
            # body was parsed up to the thin space; now read the differentials  \, d x
            lims = pre[2]
            out = []
            n = 0
            while self.peek()[0] == "thin":
                self.take()
                if not (self.peek() == ("letter", "d")):
                    raise ParseError(f"expected differential after thin space, got {self.peek()}")
                self.take()
                var = self.atom_token()
                lo, hi = lims[n] if n < len(lims) else (None, None)
                out.append((var, lo, hi))
                n += 1
            self.in_integral -= 1
            if not out:
                raise ParseError("integral without differential")
            # SymPy prints the outermost integral sign first and its differential last
            k = len(out)
            fixed = []
            for j, (var, _lo, _hi) in enumerate(out):
                lo, hi = lims[k - 1 - j] if k - 1 - j < len(lims) else (None, None)
                fixed.append((var, lo, hi))
            return ("integral", body, fixed)
        raise ParseError(f"unknown prefix {kind}")

    def atom_token(self) -> str:
        k, v = self.take()
        if k == "tok":
            return v
        if k == "sym" and v == "{":
            k2, v2 = self.take()
            self.expect("}")
            if k2 == "tok":
                return v2
        raise ParseError(f"expected an atom, got {k}:{v}")

    def group(self) -> Any:
        """{ expr }"""
        self.expect("{")
        if self.accept("}"):
            raise ParseError("empty group")
        e = self.rel()
        self.expect("}")
        return e

    def script_arg(self) -> Any:
        """argument of ^ or _: a group or a single token"""
        if self.at("{"):
            return self.group()
        k, v = self.take()
        if k == "num":
            return ("num", v)
        if k == "tok":
            return ("tok", v)
        if k == "letter":
            return self.letter(v)
        raise ParseError(f"bad script argument {k}:{v}")

    def letter(self, v: str) -> Any:
        if v == "e":
            return ("const", "E")
        if v == "i":
            return ("const", "I")
        if v == "d" or self._head_ahead():
            # differential sign of a pattern the reader does not know / head of a special function it does not know
            raise ParseError(f"unknown letter {v!r} (not a display name of any atom of the expression)")
        raise ForeignSymbol(f"unknown letter {v!r} (not a display name of any atom of the expression)")

    def _head_ahead(self) -> bool:
        """Is the letter just taken followed (after optional sub/superscripts) by an opening call bracket?"""
        j = self.p
        n = len(self.toks)
        while j < n and self.toks[j][1] in ("_", "^"):
            j += 1
            if j < n and self.toks[j] == ("sym", "{"):
                depth = 0
                while j < n:
                    if self.toks[j] == ("sym", "{"):
                        depth += 1
                    elif self.toks[j] == ("sym", "}"):
                        depth -= 1
                        if depth == 0:
                            break
                    j += 1
            j += 1
        if j < n and self.toks[j] == ("sym", "{"):
            j += 1
        return j < n and self.toks[j][1] in ("\\left", "(", "\\left(")

    def factor(self) -> Any:
        base = self.base()
        if isinstance(base, tuple) and base and base[0] == "prefix":
            return base
        while True:
            if self.accept("^"):
                e = self.script_arg()
                base = ("pow", base, e)
            elif self.accept("!"):
                base = ("fact", base)
            elif self.at("_") and isinstance(base, tuple) and base[0] == "basegroup":
                self.take()
                idx = self.index_list()
                base = ("index", base[1], idx)
            else:
                break
        if isinstance(base, tuple) and base[0] == "basegroup":
            base = ("tok", base[1])
        return base

    def index_list(self) -> list[Any]:
        if self.at("{"):
            self.expect("{")
            out = [self.rel()]
            while self.accept(","):
                out.append(self.rel())
            self.expect("}")
            return out
        return [self.script_arg()]

    def paren_args(self) -> list[Any]:
        """\\left( a, b \\right)"""
        self.expect("\\left")
        self.expect("(")
        out = [self.rel()]
        while self.accept(","):
            out.append(self.rel())
        self.expect("\\right")
        self.expect(")")
        return out

    def call_args(self) -> list[Any]:
        """{\\left(args\\right)}  |  \\left(args\\right)  |  {x} (folded brackets)"""
        if self.at("{"):
            if self.peek(1) == ("cmd", "\\left") and self.peek(2) == ("sym", "("):
                self.expect("{")
                args = self.paren_args()
                self.expect("}")
                return args
            return [self.group()]
        if self.at("\\left"):
            return self.paren_args()
        raise ParseError(f"function without argument list at token {self.p}: {self.peek()}")

    def has_call_args(self) -> bool:
        if self.at("{") and self.peek(1) == ("cmd", "\\left") and self.peek(2) == ("sym", "("):
            return True
        return False

    def function(self, make: Any, allow_bare_paren: bool = False, fold: bool = False) -> Any:
        exp = None
        if self.accept("^"):
            exp = self.script_arg()
        if self.has_call_args() or (allow_bare_paren and self.at("\\left")) or (fold and self.at("{")):
            args = self.call_args()
        else:
            raise ParseError(f"function without argument list at token {self.p}: {self.peek()}")
        node = make(args)
        if exp is not None:
            if exp == ("neg", ("num", "1")) or exp == ("num", "-1"):
                pass
            node = ("pow", node, exp)
        return node

    def base(self) -> Any:
        # pylint: disable=too-many-return-statements,too-many-branches,too-many-statements
        k, v = self.take()
        if k == "num":
            return ("num", v)
        if k == "tok":
            if v in self.lex.heads and (self.has_call_args() or (self.at("^") and self._call_after_script())):
                return self.function(lambda args, v=v: ("apply", v, args))
            return ("tok", v)
        if k == "letter":
            return self.letter(v)
        if k == "sym":
            if v == "{":
                # a group: {base}_{i} for indexed atoms, otherwise plain grouping
                if self.peek()[0] == "tok" and self.peek(1) == ("sym", "}") and self.peek()[1] in self.lex.bases \
                        and self.peek(2) == ("sym", "_"):
                    tok = self.take()[1]
                    self.expect("}")
                    return ("basegroup", tok)
                e = self.rel()
                self.expect("}")
                return e
            if v == "(":
                e = self.rel()
                self.expect(")")
                return e
            raise ParseError(f"unexpected symbol {v!r} at token {self.p - 1}")
        if k != "cmd":
            raise ParseError(f"unexpected token {k}:{v!r}")
        name = v[1:]
        if v == "\\frac":
            pre = self.try_derivative_operator()
            if pre is not None:
                return pre
            a = self.group()
            b = self.group()
            return ("div", a, b)
        if v == "\\sqrt":
            if self.accept("["):
                n = self.rel()
                self.expect("]")
                x = self.group()
                return ("pow", x, ("div", ("num", "1"), n))
            return ("call", "sqrt", [self.group()])
        if v == "\\left":
            d = self.take()
            if d[1] == "(":
                e = self.rel()
                self.expect("\\right")
                self.expect(")")
                return e
            if d[1] == "[":
                e = self.rel()
                self.expect("\\right")
                self.expect("]")
                return e
            if d[1] == "|":
                e = self.rel()
                self.expect("\\right")
                self.expect("|")
                return ("call", "Abs", [e])
            if d[1] in ("\\lfloor", "\\lceil"):
                e = self.rel()
                self.expect("\\right")
                self.take()
                return ("call", "floor" if d[1] == "\\lfloor" else "ceiling", [e])
            raise ParseError(f"unknown delimiter after \\left: {d}")
        if v == "\\log":
            if self.accept("_"):
                b = self.script_arg()
                return self.function(lambda args, b=b: ("call", "log", [args[0], b]), allow_bare_paren=True)
            return self.function(lambda args: ("call", "log", args), allow_bare_paren=True)
        if v == "\\exp":
            return self.function(lambda args: ("call", "exp", args), allow_bare_paren=True, fold=True)
        if name in FUNCS:
            return self.function(lambda args, name=name: ("call", name, args), allow_bare_paren=True)
        if v in _GREEK_FUNCS and (self.has_call_args() or self.at("^")):
            return self.function(lambda args, v=v: ("call", _GREEK_FUNCS[v], args))
        if v == "\\operatorname":
            self.expect("{")
            nm = ""
            while not self.at("}"):
                nm += self.take()[1]
            self.expect("}")
            return self.function(lambda args, nm=nm: ("call", nm, args))
        if v == "\\pi":
            return ("const", "pi")
        if v == "\\infty":
            return ("const", "oo")
        if v == "\\overline":
            return ("call", "conjugate", [self.group()])
        if v in ("\\sum", "\\prod"):
            return self.sum_operator("sum" if v == "\\sum" else "prod")
        if v == "\\int":
            return self.int_operator()
        if v == "\\begin":
            return self.matrix()
        if v in ("\\mathrm", "\\text") and self.at("{"):
            raise ParseError(f"free text {v}")
        raise ParseError(f"unknown command {v}")

    def _call_after_script(self) -> bool:
        """f^{k}{\\left(...\\right)}: look past the script argument."""
        j = self.p + 1
        if self.toks[j][1] == "{":
            depth = 0
            while j < len(self.toks):
                if self.toks[j] == ("sym", "{"):
                    depth += 1
                elif self.toks[j] == ("sym", "}"):
                    depth -= 1
                    if depth == 0:
                        break
                j += 1
            j += 1
        else:
            j += 1
        return j + 2 < len(self.toks) and self.toks[j] == ("sym", "{") and self.toks[j + 1] == ("cmd", "\\left") \
            and self.toks[j + 2] == ("sym", "(")

    # -- prefix operators --
    def try_derivative_operator(self) -> Any:
        """\\frac{d}{d x}, \\frac{d^{2}}{d x^{2}}, \\frac{\\partial^{3}}{\\partial y\\partial x^{2}}"""
        save = self.p
        try:
            self.expect("{")
            if not self._dsym():
                raise ParseError("no d")
            total = 1
            if self.accept("^"):
                total = self._int(self.script_arg())
            self.expect("}")
            self.expect("{")
            vs: list[tuple[str, int]] = []
            while not self.at("}"):
                if self.peek()[0] == "tok" and self.peek()[1].startswith("d ") and self.peek()[1][2:] in self.lex.atoms_of:
                    # "d Q" is also the rendering of the differential atom dQ: inside a derivative denominator it is d + Q
                    var = self.take()[1][2:]
                    n = 1
                    if self.accept("^"):
                        n = self._int(self.script_arg())
                    vs.append((var, n))
                    continue
                if not self._dsym():
                    raise ParseError("no d in denominator")
                var = self.atom_token()
                n = 1
                if self.accept("^"):
                    n = self._int(self.script_arg())
                vs.append((var, n))
            self.expect("}")
            if not vs or sum(n for _, n in vs) != total:
                raise ParseError("derivative orders inconsistent")
            # SymPy writes the variables in reverse order
            return ("prefix", "deriv", vs[::-1])
        except ParseError:
            self.p = save
            return None

    def _dsym(self) -> bool:
        if self.peek() == ("letter", "d"):
            self.take()
            return True
        if self.peek() == ("cmd", "\\partial"):
            self.take()
            return True
        return False

    @staticmethod
    def _int(node: Any) -> int:
        if node[0] != "num" or "." in node[1]:
            raise ParseError("order is not an integer literal")
        return int(node[1])

    def sum_operator(self, kind: str) -> Any:
        lims = []
        self.expect("_")
        if self.at("{"):
            self.expect("{")
            var = self.atom_token()
            lo = None
            if self.accept("="):
                lo = self.sum()
            self.expect("}")
        else:
            var = self.atom_token()
            lo = None
        hi = None
        if self.accept("^"):
            hi = self.script_arg()
        lims.append((var, lo, hi))
        return ("prefix", kind, lims)

    def int_operator(self) -> Any:
        lims = []
        while True:
            lo = hi = None
            if self.accept("_"):
                lo = self.script_arg()
            if self.accept("^"):
                hi = self.script_arg()
            lims.append((lo, hi))
            if self.accept("\\int"):
                continue
            break
        self.in_integral += 1
        return ("prefix", "integral", lims)

    def matrix(self) -> Any:
        self.expect("{")
        env = ""
        while not self.at("}"):
            env += self.take()[1]
        self.expect("}")
        rows = [[self.rel()]]
        while True:
            if self.accept("&"):
                rows[-1].append(self.rel())
            elif self.accept("\\\\"):
                rows.append([self.rel()])
            else:
                break
        self.expect("\\end")
        self.expect("{")
        while not self.at("}"):
            self.take()
        self.expect("}")
        return ("matrix", rows)


def parse_latex(text: str, lex: Lexicon) -> Any:
    return Parser(text, lex).parse()
