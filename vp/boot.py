"""Shared runtime of all checks: recorder, evidence writer, known-findings protocol, exit codes.

A check module exposes
    PID            - property id
    RULE           - text: how cases are generated and what makes one non-trivial
    run(ctx)       - explore; record everything on ctx (a Recorder)
    replay(case)   - re-execute one saved case description WITHOUT Hypothesis; returns a list of
                     (key, what) violations (empty list == the case holds)
Violations carry a *key* naming the specific failing thing (call site, or input class); the key is
what known_findings.json refers to.
"""
from __future__ import annotations

import collections
import hashlib
import json
import os
import pathlib
import re
import sys
import time
from typing import Any, Iterable

VERIF = pathlib.Path(__file__).resolve().parent.parent
REPO = pathlib.Path(os.environ.get("VERIF_REPO", "/repo"))
# evidence/ and replays/new/ are written below OUT: /verif itself, except when a seeded change in a scratch worktree is
# being judged (tools/process_seed3.sh), whose verdicts must not overwrite the evidence of the real tree
OUT = pathlib.Path(os.environ.get("VERIF_OUT", "") or VERIF)
SEED = int(os.environ.get("VERIF_SEED", "1") or "1")
NPROC = int(os.environ.get("VERIF_NPROC", "0") or "0") or min(16, os.cpu_count() or 1)
MAX_SAMPLES = 12


def jhash(obj: Any) -> str:
    return hashlib.sha1(json.dumps(obj, sort_keys=True, default=str).encode()).hexdigest()[:16]


def slug(text: str) -> str:
    return re.sub(r"[^A-Za-z0-9_.-]+", "_", text)[:90].strip("_") or "x"


class Recorder:
    """Picklable accumulator; worker shards return one, the parent merges them."""

    def __init__(self) -> None:
        self.evaluations = 0
        self.nontrivial: set[str] = set()
        self.counters: collections.Counter[str] = collections.Counter()
        self.samples: list[Any] = []
        self.violations: list[dict[str, Any]] = []
        self.notes: dict[str, Any] = {}
        self.inconclusive = 0

    # -- recording -------------------------------------------------------------------------
    def case(self, desc: Any = None, *, nontrivial: bool = False, labels: Iterable[str] = (),
        sample: Any = None) -> None:
        """Count one generated/enumerated case. `desc` identifies it (distinctness)."""
        self.evaluations += 1
        if nontrivial:
            self.nontrivial.add(jhash(desc))
        for lab in labels:
            self.counters[lab] += 1
        if sample is not None or (desc is not None and len(self.samples) < MAX_SAMPLES and nontrivial):
            self.add_sample(sample if sample is not None else desc)

    def add_sample(self, sample: Any) -> None:
        if len(self.samples) < MAX_SAMPLES:
            self.samples.append(sample)

    def count(self, label: str, n: int = 1) -> None:
        self.counters[label] += n

    def violation(self, key: str, what: str, case: Any) -> None:
        self.violations.append({"key": key, "what": what, "case": case})

    def merge(self, other: "Recorder") -> None:
        self.evaluations += other.evaluations
        self.nontrivial |= other.nontrivial
        self.counters.update(other.counters)
        for s in other.samples:
            self.add_sample(s)
        self.violations.extend(other.violations)
        self.inconclusive += other.inconclusive
        for k, v in other.notes.items():
            if k in self.notes and isinstance(v, list) and isinstance(self.notes[k], list):
                self.notes[k].extend(v)
            elif k in self.notes and isinstance(v, (int, float)) and isinstance(self.notes[k], (int, float)):
                self.notes[k] += v
            else:
                self.notes[k] = v


class Ctx(Recorder):

    def __init__(self, pid: str, tier: str, seed: int, rule: str, level: str = "exploration") -> None:
        super().__init__()
        self.pid = pid
        self.tier = tier
        self.seed = seed
        self.rule = rule
        self.level = level
        self.t0 = time.time()
        self.assumptions: list[str] = []
        self.exhaustive = False
        self.known = load_known(pid)

    @property
    def thorough(self) -> bool:
        return self.tier == "thorough"

    def pick(self, quick: Any, thorough: Any) -> Any:
        return thorough if self.thorough else quick

    # -- finishing ---------------------------------------------------------------------------
    def finish(self) -> int:
        by_key: dict[str, list[dict[str, Any]]] = collections.OrderedDict()
        for v in self.violations:
            by_key.setdefault(v["key"], []).append(v)
        open_known = {k["key"]: k for k in self.known if k.get("status") == "open"}
        new_dir = OUT / "replays" / "new"
        unlisted = 0
        known_hit = 0
        lines: list[str] = []
        for key, items in by_key.items():
            items.sort(key=lambda v: len(json.dumps(v["case"], default=str)))
            best = items[0]
            if key in open_known:
                known_hit += 1
                lines.append(f"KNOWN-FINDING: property={self.pid} {open_known[key]['what']} [key={key}; "
                    f"{len(items)} case(s) this run]")
                continue
            unlisted += 1
            new_dir.mkdir(parents=True, exist_ok=True)
            path = new_dir / f"{self.pid}-{slug(key)}-{jhash(best['case'])[:8]}.json"
            path.write_text(json.dumps({
                "property": self.pid,
                "key": key,
                "what": best["what"],
                "case": best["case"],
                "seed": self.seed,
                "tier": self.tier,
                "count_this_run": len(items),
            }, indent=1, default=str))
            lines.append(f"VIOLATION property={self.pid} replay={path} key={key} :: {best['what'][:300]}")
        self.write_evidence(unlisted, known_hit)
        for ln in lines:
            print(ln)
        dn = len(self.nontrivial)
        print(f"[{self.pid}] tier={self.tier} seed={self.seed} evaluations={self.evaluations} "
            f"distinct_nontrivial={dn} violations={unlisted} known_findings={known_hit} "
            f"inconclusive={self.inconclusive} wall={time.time() - self.t0:.1f}s")
        return 1 if unlisted else 0

    def write_evidence(self, unlisted: int, known_hit: int) -> None:
        cov: dict[str, Any] = {
            "evaluations": int(self.evaluations),
            "distinct_nontrivial": len(self.nontrivial),
            "rule": self.rule,
            "samples": self.samples[:MAX_SAMPLES] or ["(no sample recorded)"],
            "classes": dict(sorted(self.counters.items())),
            "inconclusive": self.inconclusive,
            "known_findings_reproduced": known_hit,
            "exhaustive": bool(self.exhaustive),
        }
        cov.update(self.notes)
        ev = {
            "property_id": self.pid,
            "tier": self.tier,
            "seed": int(self.seed),
            "level": self.level,
            "coverage": cov,
            "assumptions": self.assumptions,
            "wall_s": round(time.time() - self.t0, 2),
            "violations": int(unlisted),
        }
        out = OUT / "evidence"
        out.mkdir(parents=True, exist_ok=True)
        (out / f"{self.pid}.json").write_text(json.dumps(ev, indent=1, default=str) + "\n")


def load_known(pid: str) -> list[dict[str, Any]]:
    path = VERIF / "known_findings.json"
    if not path.exists():
        return []
    data = json.loads(path.read_text())
    return [k for k in data.get("findings", []) if k.get("property") == pid]


def committed_replays(pid: str) -> list[pathlib.Path]:
    return sorted((VERIF / "replays").glob(f"{pid}-*.json"))


def log(*a: Any) -> None:
    print(*a, file=sys.stderr, flush=True)
