"""Access to the library's id counters that does not depend on how id_generator stores them.

The harness reads the counters and moves them upwards (the library's own monotonicity precondition).  When the module
keeps the documented private dict `_ids` it is used directly; otherwise the public functions are used: last_id(prefix) to
read and repeated next_id(prefix) to advance (the counters of the calling thread, if they are per thread)."""
from __future__ import annotations

from typing import Any, Iterator

PREFIXES = ("SYM", "FUN", "QTY", "SYS", "C", "VEC", "")
MAX_STEPS = 200000  # the public-function fallback advances one id at a time


class CountersUnavailable(Exception):
    """The counters cannot be moved that far without the private dict (the history is then run without the bump)."""


class Counters:

    def __init__(self, idgen: Any) -> None:
        self.idgen = idgen

    def _raw(self) -> dict[str, int] | None:
        d = getattr(self.idgen, "_ids", None)
        return d if isinstance(d, dict) else None

    def get(self, prefix: str, default: int = 0) -> int:
        raw = self._raw()
        if raw is not None:
            return int(raw.get(prefix, default))
        try:
            return int(self.idgen.last_id(prefix))
        except KeyError:
            return default

    def __getitem__(self, prefix: str) -> int:
        return self.get(prefix, 0)

    def __setitem__(self, prefix: str, value: int) -> None:
        raw = self._raw()
        if raw is not None:
            raw[prefix] = int(value)
            return
        cur = self.get(prefix, 0)
        if cur > value:
            raise ValueError("id counters can only be moved upwards through the public functions")
        if value - cur > MAX_STEPS:
            raise CountersUnavailable(f"{prefix}: {cur} -> {value}")
        for _ in range(value - cur):
            self.idgen.next_id(prefix)

    def keys(self) -> Iterator[str]:
        raw = self._raw()
        return iter(list(raw.keys()) if raw is not None else [p for p in PREFIXES if self.get(p, 0)])

    def items(self) -> Iterator[tuple[str, int]]:
        return iter([(k, self.get(k, 0)) for k in self.keys()])

    def __iter__(self) -> Iterator[str]:
        return self.keys()

    def snapshot(self) -> dict[str, int]:
        return dict(self.items())
