"""Per-case hang guard on SIGALRM that survives being delivered inside a context that swallows exceptions.

A plain `signal.alarm(n)` whose handler raises is lost when the signal happens to be handled while Python runs a
gc callback (Hypothesis installs one), a `__del__` or a weakref callback: the exception is printed as
"Exception ignored" and the guarded code continues without any guard.  Here the handler looks at the interrupted stack:
inside such a frame it re-arms a short timer and returns; elsewhere it calls the check's own handler (which raises).
The timer also repeats every BACKSTOP_S seconds, so a raise swallowed by a broad `except` in library code is retried.
`signal.alarm(0)` (or `disarm()`) cancels everything: alarm() and ITIMER_REAL share one timer on Linux.
"""
from __future__ import annotations

import signal
from typing import Any, Callable

BACKSTOP_S = 5.0
_SWALLOWING = frozenset({"gc_callback", "__del__"})


def install(handler: Callable[[int, Any], None]) -> Any:
    def _h(signum: int, frame: Any) -> None:
        f = frame
        while f is not None:
            if f.f_code.co_name in _SWALLOWING:
                signal.setitimer(signal.ITIMER_REAL, 0.05, BACKSTOP_S)
                return
            f = f.f_back
        handler(signum, frame)

    return signal.signal(signal.SIGALRM, _h)


def arm(seconds: float) -> None:
    signal.setitimer(signal.ITIMER_REAL, float(seconds), BACKSTOP_S)


def disarm() -> None:
    signal.setitimer(signal.ITIMER_REAL, 0)
