"""Dispatcher: python -m vp.run <PID> <quick|thorough>  |  python -m vp.run <PID> replay <file>."""
from __future__ import annotations

import importlib
import json
import sys
import traceback


def main(argv: list[str]) -> int:
    if len(argv) < 2:
        print("usage: run_check.sh <PID> <quick|thorough|replay> [file]", file=sys.stderr)
        return 2
    pid, tier = argv[0].upper(), argv[1]
    try:
        from . import boot
        sys.setrecursionlimit(10000)
        mod = importlib.import_module(f"vp.checks.{pid.lower()}")
        if tier == "replay":
            data = json.loads(open(argv[2]).read())
            viols = mod.replay(data["case"])
            for key, what in viols:
                print(f"VIOLATION property={pid} replay={argv[2]} key={key} :: {what[:300]}")
            if not viols:
                print(f"[{pid}] replay {argv[2]}: holds")
            return 1 if viols else 0
        if tier not in ("quick", "thorough"):
            print(f"unknown tier {tier}", file=sys.stderr)
            return 2
        ctx = boot.Ctx(pid, tier, boot.SEED, mod.RULE, getattr(mod, "LEVEL", "exploration"))
        # regression tier: committed minimal reproductions are replayed first, without Hypothesis
        for path in boot.committed_replays(pid):
            data = json.loads(path.read_text())
            ctx.count("replayed_regressions")
            for key, what in mod.replay(data["case"]):
                ctx.violation(key, what, data["case"])
        mod.run(ctx)
        return ctx.finish()
    except SystemExit:
        raise
    except BaseException:  # pylint: disable=broad-except
        traceback.print_exc()
        print(f"HARNESS-ERROR property={pid} (exit 2; not a verdict)", file=sys.stderr)
        return 2


if __name__ == "__main__":
    sys.exit(main(sys.argv[1:]))
