"""Hypothesis glue: seeded collect-mode runs, bounded shrinking of a failure bucket."""
from __future__ import annotations

import time
from typing import Any, Callable

import hypothesis
from hypothesis import HealthCheck, Phase, given, settings
from hypothesis import strategies as st
from hypothesis.errors import NoSuchExample, Unsatisfiable


def hyp_run(strategy: st.SearchStrategy[Any], body: Callable[[Any], None], n: int, seed: int) -> None:
    """Run `body` on `n` generated examples. `body` must record violations itself and return
    normally (collect mode), so one run enumerates every failure bucket. An exception escaping
    `body` is a harness error and propagates."""

    @settings(max_examples=n, database=None, deadline=None, derandomize=False,
        report_multiple_bugs=False, suppress_health_check=list(HealthCheck), phases=[Phase.generate])
    @hypothesis.seed(seed)
    @given(strategy)
    def _t(d: Any) -> None:
        body(d)

    _t()


def hyp_shrink(strategy: st.SearchStrategy[Any], predicate: Callable[[Any], bool], seed: int, *,
    max_examples: int = 3000, budget_s: float = 60.0) -> Any | None:
    """Smallest example satisfying `predicate` (True == 'still fails in the same bucket'), or None.
    Bounded by examples and by wall clock (after the budget the predicate answers False, which ends
    the shrink at the best example found so far)."""
    t0 = time.time()

    def pred(d: Any) -> bool:
        if time.time() - t0 > budget_s:
            return False
        try:
            return bool(predicate(d))
        except Exception:  # pylint: disable=broad-except
            return False

    try:
        return _find_seeded(strategy, pred, seed, max_examples)
    except (NoSuchExample, Unsatisfiable):
        return None


def _find_seeded(strategy: Any, pred: Callable[[Any], bool], seed: int, max_examples: int) -> Any:
    import random
    return hypothesis.find(strategy, pred, random=random.Random(seed),
        settings=settings(max_examples=max_examples, database=None, deadline=None,
        suppress_health_check=list(HealthCheck), phases=[Phase.generate, Phase.shrink]))
