"""C12 - gradient, divergence and curl are the true operators in Cartesian, cylindrical, spherical systems.

Two populations of cases (plain JSON descriptions):

 * generic (exhaustive): undefined SymPy functions f / P, Q, R of the three coordinates, every system x
   {scalar, 0..4 vector components} x every way of building a field (lambda over the point, from_expression /
   from_vector, stored value).  An identity that `simplify` reduces to literal 0 for an undefined function
   holds for every smooth field.
 * concrete (Hypothesis): sums of rational-coefficient monomials x {1, sin, cos, exp}(linear form), each
   component restricted *by construction* to a generated subset of the coordinates (fields independent of
   one or two coordinates are the blind spot of the repository's tests), 0..3 components.

Oracle (harness-owned, shares no code with symplyphysics.core.fields.operators):
 (a) curl(grad f) = 0, div(curl F) = 0;
 (b) Cartesian truth: with the harness map X(q) (typed here with the library's ordering conventions:
     cylindrical (r, theta, z), legacy spherical (r, theta = azimuth, phi = polar)), the local orthonormal
     frame e_i = (dX/dq_i)/h_i, the Cartesian field F_c = sum F_i e_i, plain d/dx, d/dy, d/dz and
     projection back on e_i.  Generic cases: chain rule through the inverse Jacobian, compared symbolically.
     Concrete cases: chain rule through the *explicit* inverse map (sqrt / atan2 / acos) differentiated with
     sympy.diff in x, y, z and compared numerically (mpmath, 60 digits) at 5 regular points per case;
 (c) fewer than 3 components == padded with zeros; more than 3 components -> ValueError in curl.
"""
from __future__ import annotations

import functools
import traceback
from typing import Any

from hypothesis import strategies as st

from ..boot import Ctx, Recorder
from ..hyp import hyp_run
from ..pool import run_tasks, shard_counts
from ..shrink import shrink

PID = "C12"
RULE = ("(1) exhaustive generic shapes: 3 systems x {scalar, vector with 0..3 undefined-function components, 4 components} "
    "x 3 field-construction modes, judged symbolically (simplify to literal 0) against the harness' Jacobian-based "
    "Cartesian truth, the identities curl grad = 0 / div curl = 0 and zero padding; (2) Hypothesis-generated concrete "
    "fields (1-3 terms per component: rational coefficient x monomial (r may have negative powers) x optional "
    "sin/cos/exp of a linear form; every component restricted by construction to a generated subset of the "
    "coordinates; 0..3 components; 3 systems; 4 construction modes) judged numerically at 5 generated regular "
    "points (mpmath 60 digits, tolerance 1e-25 x (1 + |lib| + |truth|), re-evaluated at 90 digits; unstable -> "
    "discarded and counted) against the harness' explicit-inverse-map Cartesian truth projected on the local "
    "orthonormal frame. Non-trivial = the case touches at least one formula entry (a derivative dF_i/dq_j or "
    "metric term F_i/h that actually occurs in the operator for a non-zero, coordinate-dependent component); "
    "entries touched are labelled entry:<system>:<op>:<slot>; distinct by hash of system+shape+mode+components.")

SYSTEMS = ("cartesian", "cylindrical", "spherical")
SHORT = {"cartesian": ("x", "y", "z"), "cylindrical": ("r", "theta", "z"), "spherical": ("r", "theta", "phi")}
LONG = {
    "cartesian": ("x", "y", "z"),
    "cylindrical": ("radius", "azimuthal_angle", "height"),
    "spherical": ("radius", "azimuthal_angle", "polar_angle"),
}
MODES_GENERIC = ("lambda", "expr", "static")
TOL = "1e-25"
DPS = (60, 90)

# ------------------------------------------------------------------------------------------------
# harness geometry (typed from the textbook; NOT imported from the library)


@functools.lru_cache(maxsize=None)
def _q() -> tuple[Any, Any, Any]:
    import sympy
    return sympy.symbols("q1 q2 q3", real=True)  # type: ignore[return-value]


@functools.lru_cache(maxsize=None)
def _xyz() -> tuple[Any, Any, Any]:
    import sympy
    return sympy.symbols("X Y Z", real=True)  # type: ignore[return-value]


def h_map(sysname: str, q: Any) -> tuple[list[Any], list[Any]]:
    """Cartesian position X(q) and the scale factors h_i = |dX/dq_i| (valid for r > 0, 0 < phi < pi)."""
    from sympy import cos, sin, S
    a, b, c = q
    if sysname == "cartesian":
        return [a, b, c], [S.One, S.One, S.One]
    if sysname == "cylindrical":
        return [a * cos(b), a * sin(b), c], [S.One, a, S.One]
    if sysname == "spherical":  # legacy convention: q2 = azimuth, q3 = polar angle
        return [a * cos(b) * sin(c), a * sin(b) * sin(c), a * cos(c)], [S.One, a * sin(c), a]
    raise ValueError(sysname)


def h_inverse(sysname: str, xyz: Any) -> list[Any]:
    """q(X), typed by hand (principal branches; generated points keep |azimuth| < pi)."""
    from sympy import acos, atan2, sqrt
    x, y, z = xyz
    if sysname == "cartesian":
        return [x, y, z]
    if sysname == "cylindrical":
        return [sqrt(x**2 + y**2), atan2(y, x), z]
    if sysname == "spherical":
        rho = sqrt(x**2 + y**2 + z**2)
        return [rho, atan2(y, x), acos(z / rho)]
    raise ValueError(sysname)


@functools.lru_cache(maxsize=None)
def h_frame(sysname: str) -> tuple[Any, ...]:
    """((e_i[k] as expressions of q) for i), self-checked: h_i^2 == |dX/dq_i|^2."""
    import sympy
    q = _q()
    X, h = h_map(sysname, q)
    frame = []
    for i in range(3):
        col = [sympy.diff(X[k], q[i]) for k in range(3)]
        if sympy.simplify(sum(c**2 for c in col) - h[i]**2) != 0:
            raise RuntimeError(f"harness self-check failed: scale factor h_{i} of {sysname}")
        frame.append(tuple(c / h[i] for c in col))
    # orthonormality of the frame (self-check of the typed map)
    for i in range(3):
        for j in range(3):
            d = sympy.simplify(sum(frame[i][k] * frame[j][k] for k in range(3)))
            if d != (1 if i == j else 0):
                raise RuntimeError(f"harness self-check failed: frame of {sysname} not orthonormal")
    return tuple(frame)


@functools.lru_cache(maxsize=None)
def _jinv(sysname: str) -> Any:
    import sympy
    q = _q()
    X, _ = h_map(sysname, q)
    J = sympy.Matrix(X).jacobian(list(q))
    return J.inv().applyfunc(sympy.simplify)


def truth_symbolic(sysname: str, f: Any = None, F: Any = None) -> dict[str, Any]:
    """Cartesian grad/div/curl through the inverse Jacobian (d/dx_k = sum_i dq_i/dx_k d/dq_i), projected
    on the local frame; f and the F_i are expressions of q (possibly undefined functions)."""
    import sympy
    q = _q()
    e = h_frame(sysname)
    jinv = _jinv(sysname)

    def dx(g: Any, k: int) -> Any:
        return sum(jinv[i, k] * sympy.diff(g, q[i]) for i in range(3))

    out: dict[str, Any] = {}
    if f is not None:
        G = [dx(f, k) for k in range(3)]
        out["grad"] = [sum(G[k] * e[i][k] for k in range(3)) for i in range(3)]
    if F is not None:
        F = list(F) + [sympy.S.Zero] * (3 - len(F))
        Fc = [sum(F[i] * e[i][k] for i in range(3)) for k in range(3)]
        D = [[dx(Fc[k], l) for l in range(3)] for k in range(3)]
        out["div"] = D[0][0] + D[1][1] + D[2][2]
        cc = [D[2][1] - D[1][2], D[0][2] - D[2][0], D[1][0] - D[0][1]]
        out["curl"] = [sum(cc[k] * e[i][k] for k in range(3)) for i in range(3)]
    return out


def truth_cartesian(sysname: str, f: Any = None, F: Any = None) -> dict[str, Any]:
    """Cartesian components (expressions of X, Y, Z) of grad f / curl F and div F, by substituting the
    explicit inverse map and differentiating in X, Y, Z."""
    import sympy
    q = _q()
    xyz = _xyz()
    sub = dict(zip(q, h_inverse(sysname, xyz)))
    out: dict[str, Any] = {}
    if f is not None:
        fc = sympy.sympify(f).subs(sub, simultaneous=True)
        out["grad"] = [sympy.diff(fc, v) for v in xyz]
    if F is not None:
        e = h_frame(sysname)
        F = list(F) + [sympy.S.Zero] * (3 - len(F))
        Fq = [sum(F[i] * e[i][k] for i in range(3)) for k in range(3)]
        Fc = [sympy.sympify(c).subs(sub, simultaneous=True) for c in Fq]
        D = [[sympy.diff(Fc[k], xyz[l]) for l in range(3)] for k in range(3)]
        out["div"] = D[0][0] + D[1][1] + D[2][2]
        out["curl"] = [D[2][1] - D[1][2], D[0][2] - D[2][0], D[1][0] - D[0][1]]
    return out


# ------------------------------------------------------------------------------------------------
# building library objects from a description


def _lib() -> Any:
    import types
    from symplyphysics.core.coordinate_systems.coordinate_systems import CoordinateSystem
    from symplyphysics.core.fields.operators import curl_operator, divergence_operator, gradient_operator
    from symplyphysics.core.fields.scalar_field import ScalarField
    from symplyphysics.core.fields.vector_field import VectorField
    from symplyphysics.core.vectors.vectors import Vector
    return types.SimpleNamespace(CoordinateSystem=CoordinateSystem, curl=curl_operator, div=divergence_operator,
        grad=gradient_operator, ScalarField=ScalarField, VectorField=VectorField, Vector=Vector)


def _system(L: Any, sysname: str) -> Any:
    S = L.CoordinateSystem.System
    return L.CoordinateSystem({"cartesian": S.CARTESIAN, "cylindrical": S.CYLINDRICAL, "spherical": S.SPHERICAL}[sysname])


def _rat(text: str) -> Any:
    import sympy
    return sympy.Rational(text)


def comp_expr(comp: Any, v: Any) -> Any:
    """SymPy expression of one component description over the three variables v."""
    import sympy
    if isinstance(comp, dict) and "generic" in comp:
        return sympy.Function(comp["generic"])(*v)
    total = sympy.S.Zero
    for term in comp:
        e = _rat(term["c"])
        for i, p in enumerate(term["p"]):
            if p:
                e = e * v[i]**p
        fn = term.get("f")
        if fn:
            arg = _rat(fn[2])
            for i, l in enumerate(fn[1]):
                arg = arg + _rat(l) * v[i]
            e = e * {"sin": sympy.sin, "cos": sympy.cos, "exp": sympy.exp,
                # an even root of a perfect square: |arg|, which is NOT arg where the coordinate expression is negative
                "sqrtsq": lambda u: sympy.sqrt(u**2)}[fn[0]](arg)
        total = total + e
    return total


def build_scalar(L: Any, C: Any, sysname: str, comp: Any, mode: str) -> Any:
    bs = C.coord_system.base_scalars()
    if mode in ("lambda", "lambda_long"):
        names = SHORT[sysname] if mode == "lambda" else LONG[sysname]
        return L.ScalarField(lambda p: comp_expr(comp, [getattr(p, n) for n in names]), C)
    if mode == "expr":
        return L.ScalarField.from_expression(comp_expr(comp, bs), C)
    if mode == "static":
        return L.ScalarField(comp_expr(comp, bs), C)
    raise ValueError(mode)


def build_vector(L: Any, C: Any, sysname: str, comps: Any, mode: str) -> Any:
    bs = C.coord_system.base_scalars()
    if mode in ("lambda", "lambda_long"):
        names = SHORT[sysname] if mode == "lambda" else LONG[sysname]
        return L.VectorField(lambda p: [comp_expr(c, [getattr(p, n) for n in names]) for c in comps], C)
    if mode == "expr":
        return L.VectorField.from_vector(L.Vector([comp_expr(c, bs) for c in comps], C))
    if mode == "static":
        return L.VectorField([comp_expr(c, bs) for c in comps], C)
    raise ValueError(mode)


def _exc_key(sysname: str, op: str, exc: BaseException) -> tuple[str, str]:
    tb = traceback.extract_tb(exc.__traceback__)
    frame = "?"
    for fr in tb:
        if "symplyphysics" in fr.filename:
            frame = f"{fr.filename.split('symplyphysics/')[-1]}:{fr.name}"
    return (f"exception:{sysname}:{op}:{type(exc).__name__}", f"{type(exc).__name__}: {exc} at {frame}")


class LibResults:
    """Everything the library computes for one field description (expressions over the harness q symbols)."""

    def __init__(self, case: dict[str, Any]) -> None:
        L = _lib()
        sysname = case["sys"]
        C = _system(L, sysname)
        rep = dict(zip(C.coord_system.base_scalars(), _q()))
        self.errors: list[tuple[str, str]] = []
        self.values: dict[str, Any] = {}

        def conv(e: Any) -> Any:
            import sympy
            return sympy.sympify(e).xreplace(rep)

        def guarded(op: str, fn: Any) -> Any:
            try:
                return fn()
            except Exception as exc:  # pylint: disable=broad-except
                self.errors.append(_exc_key(sysname, op, exc))
                return None

        comps = case["comps"]
        mode = case["mode"]
        if case["shape"] == "scalar":
            fld = build_scalar(L, C, sysname, comps[0], mode)
            g = guarded("grad", lambda: L.grad(fld))
            if g is not None:
                self.values["grad"] = [conv(c) for c in g.components]
                cg = guarded("curlgrad", lambda: L.curl(L.VectorField.from_vector(g)).apply_to_basis())
                if cg is not None:
                    self.values["curlgrad"] = [conv(c) for c in cg.components]
            return
        fld = build_vector(L, C, sysname, comps, mode)
        k = len(comps)
        if k > 3:
            try:
                L.curl(fld)
                self.errors.append((f"refusal:{sysname}:curl:{k}components",
                    f"curl_operator accepted a field with {k} components instead of raising ValueError"))
            except ValueError:
                pass
            except Exception as exc:  # pylint: disable=broad-except
                self.errors.append((f"refusal:{sysname}:curl:{k}components",
                    f"curl_operator raised {type(exc).__name__} instead of ValueError for {k} components"))
            return
        d = guarded("div", lambda: L.div(fld))
        if d is not None:
            self.values["div"] = conv(d)
        cf = guarded("curl", lambda: L.curl(fld))
        if cf is not None:
            cv = guarded("curl", cf.apply_to_basis)
            if cv is not None:
                self.values["curl"] = [conv(c) for c in cv.components]
            dc = guarded("divcurl", lambda: L.div(cf))
            if dc is not None:
                self.values["divcurl"] = conv(dc)
        if k < 3:
            zero: Any = []
            padded = build_vector(L, C, sysname, list(comps) + [zero] * (3 - k), mode)
            d2 = guarded("div", lambda: L.div(padded))
            if d2 is not None:
                self.values["div_padded"] = conv(d2)
            c2 = guarded("curl", lambda: L.curl(padded).apply_to_basis())
            if c2 is not None:
                self.values["curl_padded"] = [conv(c) for c in c2.components]


def _shape_errors(sysname: str, vals: dict[str, Any]) -> list[tuple[str, str]]:
    out = []
    for name in ("grad", "curl", "curlgrad", "curl_padded"):
        if name in vals and len(vals[name]) != 3:
            out.append((f"shape:{sysname}:{name}", f"{name} returned {len(vals[name])} components, expected 3"))
    return out


# ------------------------------------------------------------------------------------------------
# generic (symbolic) judgement

_GENERIC_NAMES = ("P", "Q", "R", "T")


def generic_case(sysname: str, shape: Any, mode: str) -> dict[str, Any]:
    if shape == "scalar":
        return {"kind": "generic", "sys": sysname, "shape": "scalar", "mode": mode, "comps": [{"generic": "f"}]}
    return {"kind": "generic", "sys": sysname, "shape": "vector", "mode": mode,
        "comps": [{"generic": _GENERIC_NAMES[i]} for i in range(int(shape))]}


def _instantiate(expr: Any) -> Any:
    """Replace the undefined functions by fixed smooth functions with no vanishing derivative (whatever
    arguments the library applied them to)."""
    import sympy
    R = sympy.Rational
    table = {
        "f": lambda a, b, c: sympy.exp(a / 3) * sympy.sin(b + 2 * c + R(1, 2)) + a**2 * b * c,
        "P": lambda a, b, c: sympy.exp(a / 4) * sympy.cos(2 * b - c + R(1, 3)) + a * b**2 * c,
        "Q": lambda a, b, c: sympy.sin(a + b / 2 + c + R(1, 5)) * a + a**2 * b * c**2,
        "R": lambda a, b, c: sympy.exp(-a / 5) * sympy.sin(b - 3 * c / 2 + R(2, 3)) + a**3 * b * c,
    }
    expr = sympy.sympify(expr)
    for name, fn in table.items():
        expr = expr.replace(sympy.Function(name), lambda *a, fn=fn: fn(*(list(a) + [0, 0, 0])[:3]))
    return expr.doit()


_GENERIC_POINTS = (("5/4", "3/8", "7/8"), ("7/3", "-9/8", "13/8"), ("2/5", "17/8", "5/2"))


def _is_zero_generic(expr: Any) -> tuple[str, str]:
    """('zero'|'nonzero'|'unproved', detail): symbolic proof first, numeric instantiation to decide failures."""
    import mpmath
    import sympy
    s = sympy.simplify(expr)
    if s == 0:
        return "zero", ""
    worst = mpmath.mpf(0)
    with mpmath.workdps(60):
        try:
            fn = sympy.lambdify(_q(), _instantiate(s), modules="mpmath")
            for pt in _GENERIC_POINTS:
                val = fn(*[mpmath.mpf(sympy.Rational(x).p) / sympy.Rational(x).q for x in pt])
                worst = max(worst, abs(val))
        except Exception as exc:  # pylint: disable=broad-except
            return "unproved", f"{type(exc).__name__} while instantiating {str(s)[:120]}"
        if worst > mpmath.mpf("1e-40"):
            return "nonzero", f"residual {mpmath.nstr(worst, 8)} for a concrete instantiation; symbolic residual {str(s)[:160]}"
    return "unproved", str(s)[:160]


def judge_generic(case: dict[str, Any]) -> list[tuple[str, str]]:
    import sympy
    sysname = case["sys"]
    out: list[tuple[str, str]] = []
    res = LibResults(case)
    out += res.errors
    vals = res.values
    out += _shape_errors(sysname, vals)
    if out:
        return out
    q = _q()
    unproved = 0

    def check(key: str, expr: Any, what: str) -> None:
        nonlocal unproved
        verdict, detail = _is_zero_generic(expr)
        if verdict == "nonzero":
            out.append((key, f"{what}: {detail}"))
        elif verdict == "unproved":
            unproved += 1

    if case["shape"] == "scalar":
        tr = truth_symbolic(sysname, f=comp_expr(case["comps"][0], q))
        for i in range(3):
            check(f"truth:{sysname}:grad:{i}", vals["grad"][i] - tr["grad"][i],
                f"gradient component {i} differs from the Cartesian gradient projected on e_{i} (generic f)")
        if "curlgrad" in vals:
            for i in range(3):
                check(f"identity:{sysname}:curlgrad:{i}", vals["curlgrad"][i], f"curl(grad f)[{i}] != 0 (generic f)")
    elif len(case["comps"]) <= 3:
        k = len(case["comps"])
        tr = truth_symbolic(sysname, F=[comp_expr(c, q) for c in case["comps"]])
        if "div" in vals:
            check(f"truth:{sysname}:div", vals["div"] - tr["div"],
                f"divergence differs from the Cartesian divergence (generic field, {k} components)")
        if "curl" in vals:
            for i in range(3):
                check(f"truth:{sysname}:curl:{i}", vals["curl"][i] - tr["curl"][i],
                    f"curl component {i} differs from the Cartesian curl projected on e_{i} (generic field, {k} components)")
        if "divcurl" in vals:
            check(f"identity:{sysname}:divcurl", vals["divcurl"], f"div(curl F) != 0 (generic field, {k} components)")
        if "div_padded" in vals and "div" in vals:
            check(f"padding:{sysname}:div:k{k}", vals["div"] - vals["div_padded"],
                f"divergence of {k} components differs from the zero-padded field")
        if "curl_padded" in vals and "curl" in vals:
            for i in range(3):
                check(f"padding:{sysname}:curl:k{k}", vals["curl"][i] - vals["curl_padded"][i],
                    f"curl[{i}] of {k} components differs from the zero-padded field")
    if unproved:
        out.append(("__unproved__", str(unproved)))
    _ = sympy
    return out


# ------------------------------------------------------------------------------------------------
# concrete (numeric) judgement


def _mp_rat(text: str) -> Any:
    import mpmath
    from fractions import Fraction
    fr = Fraction(text)
    return mpmath.mpf(fr.numerator) / mpmath.mpf(fr.denominator)


def _terms(expr: Any) -> list[Any]:
    import sympy
    return list(sympy.Add.make_args(sympy.sympify(expr)))


def judge_concrete(case: dict[str, Any]) -> list[tuple[str, str]]:
    # pylint: disable=too-many-locals,too-many-branches,too-many-statements
    import mpmath
    import sympy
    sysname = case["sys"]
    out: list[tuple[str, str]] = []
    res = LibResults(case)
    out += res.errors
    vals = res.values
    out += _shape_errors(sysname, vals)
    if out:
        return out
    q = _q()
    xyz = _xyz()
    X, _h = h_map(sysname, q)
    e = h_frame(sysname)
    geo = sympy.lambdify(q, list(X) + [e[i][k] for i in range(3) for k in range(3)], modules="mpmath")
    scalar = case["shape"] == "scalar"
    if scalar:
        tr = truth_cartesian(sysname, f=comp_expr(case["comps"][0], q))
        tvec = list(tr["grad"])
    else:
        tr = truth_cartesian(sysname, F=[comp_expr(c, q) for c in case["comps"]])
        tvec = list(tr["curl"]) + [tr["div"]]
    ftruth = sympy.lambdify(xyz, tvec, modules="mpmath")
    # library expressions, flattened: name -> (index range)
    flat: list[Any] = []
    index: dict[str, list[int]] = {}
    for name, v in vals.items():
        items = v if isinstance(v, list) else [v]
        index[name] = list(range(len(flat), len(flat) + len(items)))
        flat += items
    # the results may only mention the system's own coordinates: anything else (e.g. base scalars of ANOTHER coordinate
    # system object leaking in through shared state) makes the result meaningless as a field of this system
    qset = set(q)
    for name, idxs in index.items():
        for j in idxs:
            foreign = [str(a) for a in sympy.sympify(flat[j]).free_symbols if a not in qset]
            foreign += [str(a) for a in sympy.sympify(flat[j]).atoms(sympy.vector.scalar.BaseScalar)]
            if foreign:
                out.append((f"foreign-symbols:{sysname}:{name}", f"{sysname} {name} of {case['comps']} contains symbols that are not "
                    f"coordinates of the field's own system: {sorted(set(foreign))[:4]} in {str(flat[j])[:200]}"))
    for name, idxs in index.items():
        for j in idxs:
            if sympy.sympify(flat[j]).atoms(sympy.Derivative, sympy.Integral):
                # an operator must return the differentiated expression: a leftover Derivative node cannot be evaluated
                out.append((f"unevaluated:{sysname}:{name}", f"{sysname} {name} of {case['comps']} still contains an unevaluated "
                    f"derivative: {str(flat[j])[:200]}"))
    if out:
        return out
    # identity residuals are judged relative to the sum of |top-level terms|
    ident_terms: dict[int, Any] = {}
    for name in ("curlgrad", "divcurl"):
        for j in index.get(name, []):
            ident_terms[j] = sympy.lambdify(q, _terms(flat[j]), modules="mpmath")
    flib = sympy.lambdify(q, flat, modules="mpmath")
    tol = mpmath.mpf(TOL)

    def at(pt: Any, dps: int) -> tuple[list[Any], list[Any], dict[int, Any]]:
        with mpmath.workdps(dps):
            qv = [_mp_rat(x) for x in pt]
            g = geo(*qv)
            xv, ev = g[:3], [g[3 + 3 * i:6 + 3 * i] for i in range(3)]
            tv = ftruth(*xv)
            if scalar:
                want = [sum(tv[k] * ev[i][k] for k in range(3)) for i in range(3)]
            else:
                want = [sum(tv[k] * ev[i][k] for k in range(3)) for i in range(3)] + [tv[3]]
            got = [mpmath.mpmathify(v) for v in flib(*qv)]
            scales = {j: sum(abs(mpmath.mpmathify(t)) for t in fn(*qv)) for j, fn in ident_terms.items()}
            return [mpmath.mpmathify(w) for w in want], got, scales

    seen: set[str] = set()

    def report(key: str, what: str) -> None:
        if key not in seen:
            seen.add(key)
            out.append((key, what))

    for pt in case["pts"]:
        try:
            want, got, scales = at(pt, DPS[0])
            want2, got2, _ = at(pt, DPS[1])
        except (ZeroDivisionError, ValueError, OverflowError) as exc:
            out.append(("__discard__", f"evaluation failed at {pt}: {type(exc).__name__}"))
            continue
        stable = mpmath.mpf("1e-40")
        if any(abs(a - b) > stable * (1 + abs(a) + abs(b)) for a, b in zip(want + got, want2 + got2)):
            out.append(("__discard__", f"ill-conditioned at {pt}"))
            continue
        if any(not mpmath.isfinite(v) for v in want + got) or any(mpmath.im(v) != 0 for v in want + got):
            out.append(("__discard__", f"non-finite or complex value at {pt}"))
            continue

        def differs(a: Any, b: Any, extra: Any = 0) -> bool:
            return abs(a - b) > tol * (1 + abs(a) + abs(b) + extra)

        def show(v: Any) -> str:
            return mpmath.nstr(v, 12)

        if scalar:
            for i, j in enumerate(index.get("grad", [])):
                if differs(got[j], want[i]):
                    report(f"truth:{sysname}:grad:{i}",
                        f"gradient[{i}] at q={pt}: library {show(got[j])} vs Cartesian truth {show(want[i])}")
            for i, j in enumerate(index.get("curlgrad", [])):
                if differs(got[j], 0, scales[j]):
                    report(f"identity:{sysname}:curlgrad:{i}",
                        f"curl(grad f)[{i}] at q={pt} = {show(got[j])} (sum of |terms| {show(scales[j])})")
        else:
            k = len(case["comps"])
            for i, j in enumerate(index.get("curl", [])):
                if differs(got[j], want[i]):
                    report(f"truth:{sysname}:curl:{i}",
                        f"curl[{i}] at q={pt}: library {show(got[j])} vs Cartesian truth {show(want[i])}")
            for j in index.get("div", []):
                if differs(got[j], want[3]):
                    report(f"truth:{sysname}:div",
                        f"divergence at q={pt}: library {show(got[j])} vs Cartesian truth {show(want[3])}")
            for j in index.get("divcurl", []):
                if differs(got[j], 0, scales[j]):
                    report(f"identity:{sysname}:divcurl",
                        f"div(curl F) at q={pt} = {show(got[j])} (sum of |terms| {show(scales[j])})")
            if "div_padded" in index and "div" in index:
                a, b = got[index["div"][0]], got[index["div_padded"][0]]
                if differs(a, b):
                    report(f"padding:{sysname}:div:k{k}",
                        f"divergence of {k} components {show(a)} vs zero-padded {show(b)} at q={pt}")
            if "curl_padded" in index and "curl" in index:
                for i in range(3):
                    a, b = got[index["curl"][i]], got[index["curl_padded"][i]]
                    if differs(a, b):
                        report(f"padding:{sysname}:curl:k{k}",
                            f"curl[{i}] of {k} components {show(a)} vs zero-padded {show(b)} at q={pt}")
    return out


def judge(case: dict[str, Any]) -> list[tuple[str, str]]:
    if case.get("kind") == "generic":
        return judge_generic(case)
    return judge_concrete(case)


# ------------------------------------------------------------------------------------------------
# coverage labels


def _metric_entries() -> dict[str, dict[str, tuple[int, ...]]]:
    # components whose *undifferentiated* value enters the operator (terms F_i / h)
    return {
        "cartesian": {"div": (), "curl": ()},
        "cylindrical": {"div": (0,), "curl": (1,)},
        "spherical": {"div": (0, 2), "curl": (1, 2)},
    }


def all_entries() -> list[str]:
    out = []
    for s in SYSTEMS:
        out += [f"entry:{s}:grad:d{i}" for i in range(3)]
        out += [f"entry:{s}:div:d{i}" for i in range(3)]
        out += [f"entry:{s}:curl:d{i}{j}" for i in range(3) for j in range(3) if i != j]
        out += [f"entry:{s}:div:m{i}" for i in _metric_entries()[s]["div"]]
        out += [f"entry:{s}:curl:m{i}" for i in _metric_entries()[s]["curl"]]
    return out


def entries_of(case: dict[str, Any]) -> list[str]:
    q = _q()
    s = case["sys"]
    exprs = [comp_expr(c, q) for c in case["comps"]]
    out = []
    if case["shape"] == "scalar":
        out += [f"entry:{s}:grad:d{i}" for i in range(3) if q[i] in exprs[0].free_symbols]
        return out
    if len(exprs) > 3:
        return out
    for i, ex in enumerate(exprs):
        if ex == 0:
            continue
        fs = ex.free_symbols
        if q[i] in fs:
            out.append(f"entry:{s}:div:d{i}")
        out += [f"entry:{s}:curl:d{i}{j}" for j in range(3) if j != i and q[j] in fs]
        if i in _metric_entries()[s]["div"]:
            out.append(f"entry:{s}:div:m{i}")
        if i in _metric_entries()[s]["curl"]:
            out.append(f"entry:{s}:curl:m{i}")
    return out


def labels_of(case: dict[str, Any]) -> list[str]:
    q = _q()
    labels = [case.get("kind", "concrete"), f"sys:{case['sys']}", f"mode:{case['mode']}"]
    if case["shape"] == "scalar":
        labels.append("shape:scalar")
    else:
        labels.append(f"shape:vector{len(case['comps'])}")
    if case.get("kind") != "generic":
        deps: set[Any] = set()
        fns: set[str] = set()
        for c in case["comps"]:
            deps |= comp_expr(c, q).free_symbols & set(q)
            for t in c:
                if t.get("f"):
                    fns.add(t["f"][0])
                if any(p < 0 for p in t["p"]):
                    fns.add("negpow")
        labels.append(f"depends_on:{len(deps)}coords")
        labels += [f"uses:{f}" for f in sorted(fns)]
    return labels


def desc_of(case: dict[str, Any]) -> dict[str, Any]:
    return {k: case[k] for k in ("sys", "shape", "mode", "comps")} | {"kind": case.get("kind", "concrete")}


# ------------------------------------------------------------------------------------------------
# generator of concrete cases


def _coef() -> st.SearchStrategy[str]:
    return st.builds(lambda n, d, s: f"{s * n}/{d}", st.integers(1, 5), st.integers(1, 3), st.sampled_from([1, -1]))


@st.composite
def _component(draw: Any, sysname: str, allow_zero: bool) -> Any:
    if allow_zero and draw(st.integers(0, 9)) == 0:
        return []
    mask = draw(st.sampled_from([(1, 1, 1), (1, 1, 1), (1, 1, 0), (1, 0, 1), (0, 1, 1), (1, 0, 0), (0, 1, 0), (0, 0, 1),
        (0, 1, 0), (0, 0, 1), (0, 0, 0)]))
    nterms = draw(st.integers(1, 3))
    terms = []
    for _ in range(nterms):
        powers = []
        for i in range(3):
            if not mask[i]:
                powers.append(0)
            elif i == 0 and sysname != "cartesian":
                powers.append(draw(st.sampled_from([-2, -1, 0, 1, 1, 2, 3])))
            else:
                powers.append(draw(st.sampled_from([0, 1, 1, 2, 3])))
        term: dict[str, Any] = {"c": draw(_coef()), "p": powers}
        if any(mask) and draw(st.integers(0, 2)) > 0:
            name = draw(st.sampled_from(["sin", "cos", "exp", "sin", "cos", "exp", "sqrtsq"]))
            lin = []
            for i in range(3):
                lin.append(draw(st.sampled_from(["1/1", "2/1", "-1/1", "1/2", "-3/2", "0/1"])) if mask[i] else "0/1")
            if name == "exp":  # keep exp moderate
                lin = [x if x not in ("2/1", "-3/2") else "1/2" for x in lin]
            term["f"] = [name, lin, draw(st.sampled_from(["0/1", "1/3", "-1/2"]))]
        terms.append(term)
    return terms


@st.composite
def _point(draw: Any, sysname: str) -> list[str]:
    def signed(lo: int, hi: int, den: int) -> str:
        n = draw(st.integers(lo, hi))
        s = draw(st.sampled_from([1, -1]))
        return f"{s * n}/{den}"

    if sysname == "cartesian":
        return [signed(1, 12, 4), signed(1, 12, 4), signed(1, 12, 4)]
    r = f"{draw(st.integers(2, 12))}/4"
    az = signed(1, 22, 8)
    if sysname == "cylindrical":
        return [r, az, signed(1, 12, 4)]
    return [r, az, f"{draw(st.integers(2, 23))}/8"]


@st.composite
def concrete_strategy(draw: Any) -> dict[str, Any]:
    sysname = draw(st.sampled_from(["cartesian", "cylindrical", "cylindrical", "spherical", "spherical"]))
    shape = draw(st.sampled_from(["scalar", "vector", "vector"]))
    mode = draw(st.sampled_from(["lambda", "lambda", "lambda_long", "expr", "expr", "static"]))
    if shape == "scalar":
        comps = [draw(_component(sysname, False))]
    else:
        k = draw(st.sampled_from([0, 1, 1, 2, 2, 3, 3, 3, 3]))
        comps = [draw(_component(sysname, True)) for _ in range(k)]
        if k >= 2 and draw(st.integers(0, 4)) == 0:
            # ties: two structurally equal components (an operator must go by POSITION, never by value)
            i, j = draw(st.sampled_from([(0, 1), (1, 0)] + ([(0, 2), (2, 1), (1, 2)] if k == 3 else [])))
            comps[j] = comps[i]
    pts = [draw(_point(sysname)) for _ in range(5)]
    return {"kind": "concrete", "sys": sysname, "shape": shape, "mode": mode, "comps": comps, "pts": pts}


# ------------------------------------------------------------------------------------------------
# driver


def _record(rec: Recorder, case: dict[str, Any]) -> None:
    res = judge(case)
    labels = labels_of(case)
    ents = entries_of(case)
    labels += ents
    for key, what in res:
        if key == "__discard__":
            rec.count("discarded_points")
        elif key == "__unproved__":
            rec.inconclusive += int(what)
            labels.append("generic_not_reduced_by_simplify")
        else:
            rec.violation(key, what, case)
    rec.case(desc_of(case), nontrivial=bool(ents), labels=labels)


def _task(task: dict[str, Any]) -> Recorder:
    rec = Recorder()
    if task["kind"] == "generic":
        _record(rec, task["case"])
        return rec
    hyp_run(concrete_strategy(), lambda case: _record(rec, case), task["n"], task["seed"])
    return rec


def _self_check() -> None:
    """Conventions: the harness map must agree with the library's documented ordering of coordinates."""
    import sympy
    L = _lib()
    for s in SYSTEMS:
        h_frame(s)
        C = _system(L, s)
        lib_map = C.transformation_to_system(L.CoordinateSystem.System.CARTESIAN)
        rep = dict(zip(C.coord_system.base_scalars(), _q()))
        X, _ = h_map(s, _q())
        for a, b in zip(lib_map, X):
            if sympy.simplify(sympy.sympify(a).xreplace(rep) - b) != 0:
                raise RuntimeError(f"coordinate convention of the harness differs from the library for {s}: {a} vs {b}")
        # explicit inverse map is the inverse of the map (numeric spot check)
        xyz = _xyz()
        back = [sympy.sympify(c).subs(dict(zip(xyz, X)), simultaneous=True) for c in h_inverse(s, xyz)]
        pt = {_q()[0]: sympy.Rational(7, 4), _q()[1]: sympy.Rational(-9, 8), _q()[2]: sympy.Rational(11, 8)}
        for qi, bi in zip(_q(), back):
            if abs(sympy.N(bi.subs(pt) - qi.subs(pt), 30)) > 1e-25:
                raise RuntimeError(f"harness inverse map of {s} is not the inverse of the map")


def run(ctx: Ctx) -> None:
    _self_check()
    tasks: list[dict[str, Any]] = []
    for s in SYSTEMS:
        for shape in ("scalar", 0, 1, 2, 3, 4):
            for mode in MODES_GENERIC:
                tasks.append({"kind": "generic", "case": generic_case(s, shape, mode)})
    n_generic = len(tasks)
    # heavy generic tasks first (spherical), then the concrete shards
    tasks.sort(key=lambda t: -SYSTEMS.index(t["case"]["sys"]))
    n_conc = ctx.pick(240, 4000)
    shards = 16 if not ctx.thorough else 64
    for i, n in enumerate(shard_counts(n_conc, shards)):
        tasks.append({"kind": "concrete", "n": n, "seed": ctx.seed * 1000 + i})
    results = list(zip(run_tasks(_task, tasks, timeout=ctx.pick(600, 3000)), tasks))
    # merge concrete shards first and keep one sample per recorder so the evidence samples show both populations
    results.sort(key=lambda r: r[1]["kind"] != "concrete")
    for (status, val), task in results:
        if status == "timeout":
            ctx.inconclusive += 1
            ctx.count("task_timeout")
            continue
        if status != "ok":
            raise RuntimeError(f"C12 task {task.get('kind')} failed: {status}: {val}")
        val.samples = val.samples[:1]
        ctx.merge(val)
    ctx.notes["generic_shapes_enumerated"] = n_generic
    ctx.notes["generic_shapes_exhaustive"] = True
    missing = [e for e in all_entries() if not ctx.counters.get(e)]
    ctx.notes["formula_entries_total"] = len(all_entries())
    ctx.notes["formula_entries_untouched"] = missing
    ctx.assumptions += [
        "coordinate conventions: cylindrical (r, theta, z), legacy spherical (r, theta = azimuth, phi = polar); "
        "asserted against CoordinateSystem.transformation_to_system at start-up (mismatch = harness error)",
        "fields are smooth at the generated points: r > 0, |azimuth| <= 2.75 < pi, 0.25 <= polar <= 2.875",
        "an identity that simplify() reduces to literal 0 for undefined functions holds for every smooth field; "
        "residuals simplify() cannot reduce are decided numerically on a fixed concrete instantiation "
        "(non-zero -> violation, zero -> counted inconclusive)",
        "SymPy diff/simplify/lambdify and mpmath are trusted; symplyphysics.core.fields.operators is not used by the oracle",
    ]
    # minimise one case per new key
    known = {k["key"] for k in ctx.known}
    seen: set[str] = set()
    for v in list(ctx.violations):
        key = v["key"]
        if key in seen or key in known or v["case"].get("kind") == "generic":
            continue
        seen.add(key)
        small = shrink(v["case"], _candidates, lambda c, key=key: any(k == key for k, _ in judge(c)),
            budget_s=ctx.pick(15, 60))
        res = [w for k, w in judge(small) if k == key]
        if res:
            ctx.violation(key, res[0], small)


def _candidates(case: dict[str, Any]) -> Any:
    comps = case["comps"]
    if len(case["pts"]) > 1:
        for p in case["pts"]:
            yield {**case, "pts": [p]}
    for i, comp in enumerate(comps):
        for j in range(len(comp)):
            if len(comp) > 1 or case["shape"] != "scalar":
                yield {**case, "comps": comps[:i] + [comp[:j] + comp[j + 1:]] + comps[i + 1:]}
        for j, term in enumerate(comp):
            alts = []
            if term.get("f"):
                alts.append({k: v for k, v in term.items() if k != "f"})
            for a, p in enumerate(term["p"]):
                if p:
                    alts.append({**term, "p": term["p"][:a] + [0] + term["p"][a + 1:]})
            if term["c"] != "1/1":
                alts.append({**term, "c": "1/1"})
            for alt in alts:
                yield {**case, "comps": comps[:i] + [comp[:j] + [alt] + comp[j + 1:]] + comps[i + 1:]}
    if case["mode"] != "expr":
        yield {**case, "mode": "expr"}


def replay(case: dict[str, Any]) -> list[tuple[str, str]]:
    return [(k, w) for k, w in judge(case) if not k.startswith("__")]
