"""Shared machinery of C17 (code rendering) and C18 (LaTeX rendering): generated canonical trees,
catalogue equations in documented source form, round trip render -> parse -> random interpretation."""
from __future__ import annotations

from vp import guard as _guard

import functools
import traceback
from typing import Any, Callable

from hypothesis import strategies as st

from ..boot import Recorder, jhash
from ..model import interp
from ..parse.lexicon import INTERNAL_NAME, Lexicon, build_lexicon

NSYM = 6
NFUN = 2
SALTS = (11, 23, 47)
EXTRA_SALTS = (101, 103, 107, 109)

CODE_NAMES = ["a", "b", "c", "k", "m", "n", "x", "y", "z", "t", "v", "F", "T", "R", "V", "U", "Q", "m_1", "m_2", "x_0",
    "E_kin", "E_p", "v_x", "omega", "alpha", "beta", "theta", "rho", "lambda", "mu_0", "epsilon_0", "k_B", "N_A",
    "Delta_x", "dt", "f_max", "q1", "r12", "phi_e"]
LATEX_NAMES = ["a", "b", "c", "k", "m", "n", "x", "y", "z", "t", "v", "F", "T", "R", "V", "U", "Q", "m_1", "m_{12}",
    "x_0", "E_\\text{kin}", "E_\\text{p}", "v_x", "\\omega", "\\alpha", "\\beta", "\\theta", "\\rho", "\\lambda",
    "\\mu_0", "\\varepsilon_0", "k_\\text{B}", "N_\\text{A}", "\\mathbf{F}", "T_\\text{std}", "\\dot{x}", "f_\\text{max}",
    "\\vec{r}", "\\phi_e"]
FUN_NAMES = ["f", "g", "h", "psi", "u"]
FUN_LATEX = ["f", "g", "h", "\\psi", "u"]
UNARY = ["exp", "log", "sin", "cos", "tan", "sinh", "cosh", "tanh", "Abs", "asin", "atan", "cot"]
WRAPS = ["Average", "FiniteDifference", "ExactDifferential", "InexactDifferential"]

# ------------------------------------------------------------------------------------------------
# generator of tree descriptions


def _small_int() -> st.SearchStrategy[int]:
    return st.sampled_from([-3, -2, -1, 2, 3, 4, 5, 10])


@functools.lru_cache(maxsize=None)
def _leaf() -> st.SearchStrategy[Any]:
    return st.one_of(
        st.builds(lambda i: ["sym", i], st.integers(0, NSYM - 1)),
        st.builds(lambda i: ["sym", i], st.integers(0, NSYM - 1)),
        st.builds(lambda i: ["sym", i], st.integers(0, 2)),
        st.builds(lambda n: ["int", n], _small_int()),
        st.builds(lambda p, q: ["rat", f"{p}/{q}"], st.sampled_from([-5, -3, -1, 1, 2, 3, 7]), st.sampled_from([2, 3, 4, 5])),
        st.sampled_from([["flt", "0.5"], ["flt", "2.5"], ["flt", "1e-10"], ["flt", "-3.25"], ["flt", "6.02e23"],
        ["flt", "0.001"]]),
        st.sampled_from([["const", "pi"], ["const", "E"], ["const", "pi"]]),
        st.builds(lambda i: ["idx", i], st.integers(0, 1)),
        st.builds(lambda i: ["qty", i], st.integers(0, 1)),
    )


@functools.lru_cache(maxsize=None)
def _expr(depth: int) -> st.SearchStrategy[Any]:
    leaf = _leaf()
    if depth <= 0:
        return leaf
    sub = _expr(depth - 1)
    sym = st.builds(lambda i: ["sym", i], st.integers(0, NSYM - 1))
    expo = st.one_of(st.builds(lambda n: ["int", n], st.sampled_from([-3, -2, -1, 2, 3])),
        st.sampled_from([["rat", "1/2"], ["rat", "-1/2"], ["rat", "1/3"], ["rat", "-3/2"], ["rat", "2/3"]]), sym, sub)
    return st.one_of(
        leaf,
        st.builds(lambda a, b: ["add", a, b], sub, sub),
        st.builds(lambda a, b, c: ["add", a, b, c], sub, sub, sub),
        st.builds(lambda a, b: ["mul", a, b], sub, sub),
        st.builds(lambda a, b, c: ["mul", a, b, c], sub, sub, sub),
        st.builds(lambda a, b: ["div", a, b], sub, sub),
        st.builds(lambda a, b: ["div", a, b], sub, sub),
        st.builds(lambda a: ["neg", a], sub),
        st.builds(lambda a, b: ["pow", a, b], sub, expo),
        st.builds(lambda a, b: ["pow", a, b], sub, expo),
        st.builds(lambda a: ["sqrt", a], sub),
        st.builds(lambda f, a: ["fn", f, a], st.sampled_from(UNARY), sub),
        st.builds(lambda a, b: ["logb", a, b], sub, st.sampled_from([["int", 2], ["int", 10], ["sym", 0]])),
        st.builds(lambda i, a: ["app", i, a], st.integers(0, NFUN - 1), sub),
        st.builds(lambda i, a, b: ["app2", i, a, b], st.integers(0, NFUN - 1), sub, sub),
        st.builds(lambda k, a, w: ["wrap", k, a, w], st.sampled_from(WRAPS), st.one_of(sym, sub), st.booleans()),
        st.builds(lambda a, v, n: ["deriv", a, v, n], sub, st.integers(0, 2), st.integers(1, 2)),
        # coefficient x derivative x function: a derivative in the middle of a canonical product
        st.builds(lambda c, i, v, j, n, t: ["dprod", c, i, v, j, n, t], st.one_of(leaf, sub), st.integers(0, NFUN - 1),
            st.integers(0, 2), st.integers(0, NFUN - 1), st.integers(1, 2), st.booleans()),
    )


@st.composite
def case_strategy(draw: Any, mode: str) -> Any:
    depth = draw(st.integers(2, 4))
    names = CODE_NAMES if mode == "code" else LATEX_NAMES
    # distinct display names for the pool (both code and latex names are set so one case serves both modes)
    idxs = draw(st.lists(st.integers(0, len(CODE_NAMES) - 1), min_size=NSYM + 2, max_size=NSYM + 2, unique=True))
    assum = [draw(st.sampled_from(["none", "positive", "real", "positive", "integer"])) for _ in range(NSYM)]
    shape = draw(st.integers(0, 10))
    if shape == 10:
        # a bare symplyphysics Function with declared arguments / a bare IndexedSymbol, as the documentation's symbol
        # tables render them (code_str/latex_str apply the function to its arguments, the indexed symbol to its index)
        if draw(st.booleans()):
            nargs = draw(st.integers(1, 3))
            expr = ["funcsym", draw(st.integers(0, NFUN - 1)), draw(st.lists(st.integers(0, NSYM - 1), min_size=nargs, max_size=nargs, unique=True))]
        else:
            expr = ["idxsym", draw(st.integers(0, 1))]
    elif shape == 0:
        rows = draw(st.integers(1, 2))
        cols = draw(st.integers(1, 2)) if rows == 2 else draw(st.integers(1, 3))
        if rows == 1 and cols == 1:
            cols = 2
        expr: Any = ["mat", [[draw(_expr(depth - 1)) for _ in range(cols)] for _ in range(rows)]]
    elif shape <= 3:
        expr = ["eq", draw(_expr(depth - 1)), draw(_expr(depth))]
    else:
        expr = draw(_expr(depth))
    _ = names
    fidx = draw(st.lists(st.integers(0, len(FUN_NAMES) - 1), min_size=NFUN, max_size=NFUN, unique=True))
    return {"names": idxs, "assum": assum, "funs": fidx, "expr": expr}


# ------------------------------------------------------------------------------------------------
# building SymPy objects from a description (evaluation ON -> canonical trees)


class Pool:

    def __init__(self, case: dict[str, Any]) -> None:
        import sympy
        from sympy.physics import units
        from symplyphysics import Function, IndexedSymbol, Quantity, Symbol
        self.sympy = sympy
        amap = {"none": {}, "positive": {"positive": True}, "real": {"real": True}, "integer": {"integer": True,
            "positive": True}}
        self.syms = []
        for i in range(NSYM):
            k = case["names"][i]
            self.syms.append(Symbol(CODE_NAMES[k], display_latex=LATEX_NAMES[k], **amap[case["assum"][i]]))
        self.idx = []
        for j in range(2):
            k = case["names"][NSYM + j]
            self.idx.append(IndexedSymbol(CODE_NAMES[k], display_latex=LATEX_NAMES[k]))
        self.qty = [Quantity(3 * units.meter, display_symbol="L_0", display_latex="L_0"),
            Quantity(units.boltzmann_constant, display_symbol="k_B0", display_latex="k_\\text{B0}")]
        # odd-numbered pool functions are declared with an argument list (as clone_as_function(sym, [t]) does in the
        # catalogue) and are then applied to whatever the tree says, e.g. m(t_1) for a function declared as m(t)
        self.funs = [Function(FUN_NAMES[k], [self.syms[j % NSYM]] if j % 2 else None, display_latex=FUN_LATEX[k])
            for j, k in enumerate(case["funs"])]
        self.render_object: Any = None  # set when the object handed to the printer differs from the expression it denotes

    def build(self, d: Any) -> Any:
        # pylint: disable=too-many-return-statements,too-many-branches
        sp = self.sympy
        from symplyphysics.core.operations import symbolic
        op = d[0]
        b = self.build
        if op == "sym":
            return self.syms[d[1]]
        if op == "qty":
            return self.qty[d[1]]
        if op == "idx":
            s = self.idx[d[1]]
            return s[s.index]
        if op == "int":
            return sp.Integer(d[1])
        if op == "rat":
            return sp.Rational(d[1])
        if op == "flt":
            return sp.Float(d[1])
        if op == "const":
            return {"pi": sp.pi, "E": sp.E}[d[1]]
        if op == "add":
            return sp.Add(*[b(x) for x in d[1:]])
        if op == "mul":
            return sp.Mul(*[b(x) for x in d[1:]])
        if op == "div":
            return b(d[1]) / b(d[2])
        if op == "neg":
            return -b(d[1])
        if op == "pow":
            return sp.Pow(b(d[1]), b(d[2]))
        if op == "sqrt":
            return sp.sqrt(b(d[1]))
        if op == "fn":
            return getattr(sp, d[1])(b(d[2]))
        if op == "logb":
            return sp.log(b(d[1]), b(d[2]))
        if op == "app":
            return self.funs[d[1]](b(d[2]))
        if op == "app2":
            return self.funs[d[1] - d[1] % 2](b(d[2]), b(d[3]))
        if op == "dprod":
            v = self.syms[d[3]]
            tail = self.funs[d[4] - d[4] % 2](v) if d[6] else sp.sin(v)
            return sp.Mul(b(d[1]), sp.Derivative(self.funs[d[2]](v), (v, d[5])), tail)
        if op == "wrap":
            cls = getattr(symbolic, d[1])
            inner = b(d[2])
            # Symbolic wrappers are SymPy Symbols named after str(inner): SymPy's symbol cache hands back the SAME object
            # for the same inner text, and a later construction overwrites its wrap flags.  Derive the flags from the
            # inner text so that one object never changes flags during a run (otherwise results depend on run history).
            flag = sum(map(ord, str(inner))) % 2 == 0
            _ = d[3]
            return cls(inner, wrap_code=flag, wrap_latex=flag)
        if op == "deriv":
            v = self.syms[d[2]]
            f = self.funs[0](v) * b(d[1]) if not b(d[1]).has(v) else b(d[1])
            return sp.Derivative(f, (v, d[3]))
        if op == "funcsym":
            from symplyphysics import Function
            k = d[1]
            args = [self.syms[i] for i in d[2]]
            f = Function(self.funs[k].display_name, args, display_latex=self.funs[k].display_latex)
            self.render_object = f
            return f(*args)
        if op == "idxsym":
            s = self.idx[d[1]]
            self.render_object = s
            return s[s.index]
        if op == "eq":
            return sp.Eq(b(d[1]), b(d[2]), evaluate=False)
        if op == "mat":
            from symplyphysics import Matrix
            return Matrix([[b(x) for x in row] for row in d[1]])
        raise ValueError(op)


# ------------------------------------------------------------------------------------------------
# round trip of one SymPy object


class RT:
    """Outcome of one round trip."""

    def __init__(self) -> None:
        self.status = "ok"  # ok | mismatch | unparsed | malformed | internal-name | ambiguous | uninterpretable | ill | crash
        self.detail = ""
        self.text = ""
        self.tree: Any = None
        self.lex: Lexicon | None = None


def has_float(e: Any) -> bool:
    import sympy
    try:
        return bool(e.has(sympy.Float))
    except Exception:  # pylint: disable=broad-except
        return any(isinstance(a, sympy.Float) for a in sympy.preorder_traversal(e))


def round_trip(expr: Any, mode: str, render: Callable[[Any], str], parse: Callable[[str, Lexicon], Any],
    wellformed: Callable[[str], str | None] | None = None) -> RT:
    # pylint: disable=too-many-return-statements,too-many-branches
    rt = RT()
    try:
        rt.text = render(expr)
    except Exception as exc:  # pylint: disable=broad-except
        if isinstance(exc, ValueError) and "integer string conversion" in str(exc):
            raise  # CPython's 4300-digit limit on printing integers, not the printer: the case is discarded by the caller
        rt.status, rt.detail = "crash", f"{type(exc).__name__}: {exc}"
        return rt
    try:
        lex = build_lexicon(expr, mode)
    except Exception as exc:  # pylint: disable=broad-except
        rt.status, rt.detail = "uninterpretable", f"lexicon: {type(exc).__name__}: {exc}"
        return rt
    rt.lex = lex
    import sympy as _sp
    if mode == "latex" and "i" in lex.atoms_of and hasattr(expr, "has") and expr.has(_sp.I):
        # the imaginary unit and an index/symbol named i are both written `i`: not decidable by reading
        rt.status, rt.detail = "ill", "imaginary unit collides with an atom named i"
        return rt
    if wellformed is not None:
        bad = wellformed(rt.text)
        if bad:
            rt.status, rt.detail = "malformed", bad
            return rt
    m = INTERNAL_NAME.search(rt.text)
    if m and not any(m.group(0) in t for t in lex.atoms_of):
        rt.status, rt.detail = "internal-name", m.group(0)
        return rt
    try:
        tree = parse(rt.text, lex)
    except RecursionError:
        rt.status, rt.detail = "unparsed", "recursion"
        return rt
    except Exception as exc:  # pylint: disable=broad-except
        # a plain symbol in the rendering that is not the display name of any atom of the expression cannot denote the
        # same expression; every other reading failure is a limit of the harness grammar
        rt.status = "foreign-symbol" if type(exc).__name__ == "ForeignSymbol" else "unparsed"
        rt.detail = f"{type(exc).__name__}: {exc}"
        return rt
    rt.tree = tree
    sym = interp.SymEval(lex.token_of)
    tol = interp.mpf(10)**-11 if has_float(expr) else None
    agree = 0
    for salt in SALTS + EXTRA_SALTS:
        env = interp.Env(salt, lex.kinds)
        try:
            v1 = sym(expr, env)
        except interp.IllConditioned:
            continue
        except interp.Uninterpretable as exc:
            rt.status, rt.detail = "uninterpretable", str(exc)
            return rt
        try:
            v2 = interp.eval_tree(tree, env)
        except interp.IllConditioned as exc:
            if "overflow" in str(exc) or "magnitude" in str(exc):
                continue
            rt.status = "mismatch"
            rt.detail = f"original evaluates to {interp.show(v1)} but the rendering is undefined there ({exc}) [salt {salt}]"
            return rt
        except interp.Uninterpretable as exc:
            rt.status, rt.detail = "unparsed", f"tree: {exc}"
            return rt
        try:
            ok = interp.values_close(v1, v2, tol)
        except interp.IllConditioned:
            continue
        if not ok:
            rt.status = "mismatch"
            rt.detail = f"value of original {interp.show(v1)} != value of rendering {interp.show(v2)} [salt {salt}]"
            return rt
        agree += 1
        if agree >= 3:
            break
    if agree == 0:
        rt.status, rt.detail = "ill", "no environment with a finite value"
    return rt


def skeleton(e: Any, depth: int = 2) -> str:
    import sympy
    if not isinstance(e, sympy.Basic) or not e.args or isinstance(e, (sympy.Symbol,)):
        if isinstance(e, sympy.Number):
            return "neg" if e.is_negative else ("Q" if not e.is_Integer else "n")
        return type(e).__name__ if not isinstance(e, sympy.Symbol) else "s"
    from sympy.core.function import AppliedUndef
    name = "F" if isinstance(e, AppliedUndef) else type(e).__name__
    if depth == 0:
        return name
    return name + "(" + ",".join(skeleton(a, depth - 1) for a in e.args[:4]) + ")"


def blame(expr: Any, mode: str, render: Any, parse: Any, wellformed: Any, status: str) -> str:
    """Skeleton of a smallest sub-expression whose own rendering already fails the same way."""
    import sympy
    best = [expr]

    def walk(e: Any) -> bool:
        bad_below = False
        if isinstance(e, sympy.Basic) and not isinstance(e, sympy.Symbol):
            for a in e.args:
                if isinstance(a, sympy.Basic) and a.args and walk(a):
                    bad_below = True
        if bad_below:
            return True
        try:
            r = round_trip(e, mode, render, parse, wellformed)
        except Exception:  # pylint: disable=broad-except
            return False
        if r.status == status:
            best[0] = e
            return True
        return False

    try:
        for a in expr.args if isinstance(expr, sympy.Basic) else []:
            if isinstance(a, sympy.Basic) and a.args and walk(a):
                break
    except Exception:  # pylint: disable=broad-except
        pass
    return skeleton(best[0], 2)


def tree_depth(e: Any) -> int:
    import sympy
    if not isinstance(e, sympy.Basic) or not e.args:
        return 0
    return 1 + max((tree_depth(a) for a in e.args), default=0)


def nontrivial_expr(e: Any) -> bool:
    """depth >= 3 and a power with composite base/exponent (covers composite denominators), or a product
    with a negative factor that is not its numeric coefficient."""
    import sympy
    if tree_depth(e) < 3:
        return False
    for n in sympy.preorder_traversal(e):
        if isinstance(n, sympy.Pow) and (n.base.args or (n.exp.args and not n.exp.is_Number)):
            if not isinstance(n.base, sympy.Symbol) or n.exp.args:
                return True
        if isinstance(n, sympy.Mul) and any(isinstance(a, sympy.Mul) or (a.is_Number and a.is_negative) for a in n.args[1:]):
            return True
    return False


def exc_frame(exc: BaseException) -> str:
    tb = traceback.extract_tb(exc.__traceback__)
    frame = "?"
    for fr in tb:
        if "symplyphysics" in fr.filename:
            frame = f"{fr.filename.split('symplyphysics/')[-1]}:{fr.name}"
    return f"{type(exc).__name__}@{frame}"


# ------------------------------------------------------------------------------------------------
# one generated case / one catalogue member


class _Hang(BaseException):
    pass


def _alarm(_s: int, _f: Any) -> None:
    raise _Hang()


def judge_generated(case: dict[str, Any], mode: str, render: Any, parse: Any, wellformed: Any) -> tuple[list[tuple[str, str]], dict[str, Any]]:
    """Hang guard around one generated case: SymPy evaluates e.g. cos(6.02e23**5) numerically at construction, which
    needs pi to ~1e120 digits. Expiry == discarded (counted), never a verdict."""
    import signal
    old = _guard.install(_alarm)
    _guard.arm(6)
    try:
        return _judge_generated(case, mode, render, parse, wellformed)
    except _Hang:
        return [], {"discard": "hang-guard"}
    except ValueError as exc:
        # CPython refuses to print integers of more than 4300 digits (a power tower in the generated tree): no rendering to judge
        if "integer string conversion" not in str(exc):
            raise
        return [], {"discard": "huge-integer"}
    finally:
        signal.alarm(0)
        signal.signal(signal.SIGALRM, old)


def _judge_generated(case: dict[str, Any], mode: str, render: Any, parse: Any, wellformed: Any) -> tuple[list[tuple[str, str]], dict[str, Any]]:
    info: dict[str, Any] = {}
    pool = Pool(case)
    try:
        expr = pool.build(case["expr"])
    except (ZeroDivisionError, ValueError, TypeError, AttributeError, OverflowError, MemoryError, RecursionError) as exc:
        info["discard"] = f"build: {type(exc).__name__}"
        return [], info
    import sympy
    if expr in (sympy.S.NaN, sympy.S.ComplexInfinity, sympy.S.true, sympy.S.false) or (
            hasattr(expr, "has") and expr.has(sympy.S.NaN, sympy.S.ComplexInfinity, sympy.oo, -sympy.oo)):
        info["discard"] = "degenerate"
        return [], info
    info["nontrivial"] = nontrivial_expr(expr)
    info["depth"] = tree_depth(expr)
    if pool.render_object is not None:
        obj = pool.render_object
        rt = round_trip(expr, mode, lambda _e: render(obj), parse, wellformed)
        info["nontrivial"] = True
    else:
        rt = round_trip(expr, mode, render, parse, wellformed)
    info["status"] = rt.status
    info["text"] = rt.text
    if rt.status in ("ok", "ill", "uninterpretable"):
        return [], info
    if rt.status == "crash":
        return [(f"crash:{rt.detail.split(':')[0]}", f"printer raised {rt.detail} on {sympy.srepr(expr)[:300]}")], info
    sig = blame(expr, mode, render, parse, wellformed, rt.status)
    return [(f"{rt.status}:{sig}", f"{mode} rendering {rt.text!r} of {sympy.srepr(expr)[:400]}: {rt.detail}")], info


def record_generated(rec: Recorder, case: dict[str, Any], res: list[tuple[str, str]], info: dict[str, Any]) -> None:
    labels = ["generated"]
    if "discard" in info:
        labels.append("discard:" + info["discard"])
        if info["discard"] == "hang-guard":
            rec.inconclusive += 1
    if "status" in info:
        labels.append("status:" + info["status"])
    nt = bool(info.get("nontrivial")) and info.get("status") == "ok"
    for key, what in res:
        rec.violation(key, what, {"kind": "generated", **case})
    rec.case({"g": jhash(case["expr"]), "t": info.get("text", "")}, nontrivial=nt, labels=labels,
        sample={"expr": case["expr"], "rendering": info.get("text")} if nt and len(rec.samples) < 4 else None)
