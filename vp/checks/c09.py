"""C09 - distinct symbols never alias; clones keep dimension and assumptions; printing shows display names.

Histories (not single calls) are the input: a Hypothesis RuleBasedStateMachine drives a plain-Python
`World` through creations / clones / counter bumps / garbage / drops. Every step is a JSON item
`[rule, args]`; the World can re-execute a step list without Hypothesis (`replay`). The oracle is a
model kept next to the library objects (expected display names, LaTeX names, dimension vector,
assumption set, coefficient of every object in a linear test expression); nothing in it calls the
code under test. Collect mode: invariants record violations on a Recorder and return normally.
"""
from __future__ import annotations

import gc
import os
import re
import time
import traceback
from typing import Any, Iterable

from ..boot import Ctx, Recorder
from ..model import dims as mdims
from ..model import units as munits
from ..pool import run_tasks, shard_counts
from ..shrink import shrink

PID = "C09"
RULE = ("Hypothesis RuleBasedStateMachine histories (quick 40 / thorough 60 steps) over the rules symbol, indexed, "
    "function, quantity, coordsys, transform, rotate, vsymbol, vfunction, clone_symbol, clone_function, "
    "clone_indexed, bump (id counter to just below the next power of ten), garbage (create+drop objects, clear the "
    "SymPy cache, gc), drop, solve; display names from the pool {m, T, r, m_1, None} so collisions are the norm, "
    "generated dimensions, assumption sets, LaTeX overrides, subscripts. After every step: all live objects (and "
    "applied functions, indexed elements, base scalars) pairwise != and usable as dict keys; in E = sum p_i*s_i + k "
    "(p_i distinct primes) coeff/subs/diff w.r.t. each s_j see exactly p_j, solve(E, s_j) returns the model solution; "
    "print_expression/code_str/latex_str of E (in chunks of 3 terms), of a product/quotient equation and of "
    "Sum(b[i], (i, 1, 2)).doit() for a new indexed symbol contain the display names and no SYM/FUN/QTY<n> that is not "
    "a display name; every function declared with arguments (symbols, or an earlier Function of the history and a symbol) "
    "printed UNAPPLIED by code_str/latex_str shows no foreign SYM/FUN/QTY<n> and (code) the display name of the function it "
    "is declared over; clone postconditions in the clone rules. One evaluation = one history. Non-trivial = the history holds "
    ">= 2 objects of the same kind with the same given display name and >= 1 clone with a subscript; distinct by "
    "hash of the executed step list.")

NAMES = ["m", "T", "r", "m_1"]
LATEXES = ["\\mu", "T_\\text{x}", "r"]
SUBSCRIPTS = ["1", "x", "max"]
DIMKEYS = ["one", "length", "mass", "time", "temperature", "speed", "force"]
ASSUMS: list[dict[str, bool]] = [{}, {}, {"positive": True}, {"real": True}, {"integer": True}, {"nonnegative": True},
    {"integer": True, "positive": True},
    # False-valued facts (not re-derivable from True-valued ones): a clone must keep them too
    {"zero": False}, {"real": False}, {"rational": False, "real": True}]
FACTS = ("positive", "real", "integer", "nonnegative")
QUNITS = ["meter", "kilometer", "kilogram", "second", "kelvin", "newton", "joule"]
QVALUES = ["1", "3/2", "-2", "1000", "1/7"]
ID_PREFIXES = ["SYM", "FUN", "QTY", "SYS", "VEC", "C"]
SYSTEMS = ["cartesian", "cylindrical", "spherical"]
PRIMES = [2, 3, 5, 7, 11, 13, 17, 19, 23, 29, 31, 37, 41, 43, 47, 53]
MAX_TERMS = 10
MAX_LIVE = 22
CREATORS = ("symbol", "indexed", "function", "quantity", "coordsys", "transform", "rotate", "vsymbol", "vfunction",
    "clone_symbol", "clone_function", "clone_indexed")
SCALAR_KINDS = ("symbol", "indexed", "function", "quantity", "coordsys")
VECTOR_KINDS = ("vsymbol", "vfunction")
CLONE_SYMBOL_SOURCES = ("symbol", "indexed", "vsymbol")
CLONE_SOURCES = ("symbol", "indexed")

INTERNAL = re.compile(r"(?:SYM|FUN|QTY)\d+")
_UNNAMED = {"symbol": r"SYM\d+", "indexed": r"SYM\d+", "function": r"FUN\d+", "quantity": r"QTY\d+",
    "vsymbol": r"VEC\d+", "vfunction": r"FUN\d+"}

Viol = tuple[str, str]


_TEX_ID = re.compile(r"(SYM|FUN|QTY)\}?_\{(\d+)\}")


def _tex_norm(s: str) -> str:
    """LaTeX output modulo grouping: SymPy turns a name `SYM12` into `SYM_{12}` (`\\operatorname{FUN}_{12}` for
    function heads) and `m_1` into `m_{1}`; undo the first, drop the braces."""
    return _TEX_ID.sub(r"\1\2", s).replace("{", "").replace("}", "")


def _lib() -> Any:
    """Late import of everything the World touches (workers fork after the parent imported it)."""
    # pylint: disable=import-outside-toplevel
    import types
    import sympy
    from sympy.physics import units as U
    from symplyphysics import Symbol, Function, IndexedSymbol, Quantity, clone_as_symbol, clone_as_function
    from symplyphysics import print_expression
    from symplyphysics.core.symbols.symbols import clone_as_indexed
    from symplyphysics.core.symbols import id_generator
    from symplyphysics.core.coordinate_systems.coordinate_systems import (CoordinateSystem, coordinates_transform,
        coordinates_rotate)
    from symplyphysics.core.experimental.vectors import VectorSymbol, VectorFunction
    from symplyphysics.docs.printer_code import code_str
    from symplyphysics.docs.printer_latex import latex_str
    ns = types.SimpleNamespace(**{k: v for k, v in locals().items() if k != "types"})
    ns.libdim = {
        "one": U.Dimension(1),
        "length": U.length,
        "mass": U.mass,
        "time": U.time,
        "temperature": U.temperature,
        "speed": U.length / U.time,
        "force": U.force,
    }
    ns.moddim = {
        "one": munits.ONE,
        "length": munits.L,
        "mass": munits.M,
        "time": munits.T,
        "temperature": munits.K,
        "speed": munits.L / munits.T,
        "force": munits.FORCE,
    }
    ns.systems = {
        "cartesian": CoordinateSystem.System.CARTESIAN,
        "cylindrical": CoordinateSystem.System.CYLINDRICAL,
        "spherical": CoordinateSystem.System.SPHERICAL,
    }
    return ns


class Entry:
    # pylint: disable=too-many-instance-attributes
    def __init__(self, kind: str, obj: Any, *, named: bool, display: str, latex: str, dim: Any, assum: Any,
        nargs: int = 1, sub: bool = False, clone: str = "") -> None:
        self.kind = kind
        self.obj = obj
        self.named = named
        self.display = display  # expected code display name
        self.latex = latex  # expected LaTeX display name
        self.dim = dim  # model DimVec or None
        self.assum = assum  # dict of passed assumptions, or None when not applicable
        self.nargs = nargs
        self.sub = sub
        self.clone = clone


class World:
    """Library objects + model, driven by JSON steps. `apply(step)` and `check()` return violations."""

    # pylint: disable=too-many-public-methods

    def __init__(self) -> None:
        self.L = _lib()
        sp = self.L.sympy
        self.X = (sp.Symbol("x"), sp.Symbol("y"))
        self.K = sp.Symbol("k")
        self.live: dict[int, Entry] = {}
        self.all: dict[int, Entry] = {}
        self.steps: list[Any] = []
        self.next_label = 0
        self.solve_target: int | None = None
        self.flags: set[str] = set()

    # ---- helpers -----------------------------------------------------------------------------
    def ids(self) -> Any:
        from ..idcounters import Counters  # pylint: disable=import-outside-toplevel
        return Counters(self.L.id_generator)

    def labels_of(self, kinds: Iterable[str]) -> list[int]:
        ks = set(kinds)
        return [i for i, e in self.live.items() if e.kind in ks]

    def term(self, e: Entry) -> Any:
        """The scalar (or vector) expression that stands for the object in test expressions."""
        if e.kind in ("symbol", "quantity", "vsymbol"):
            return e.obj
        if e.kind == "indexed":
            return e.obj[e.obj.index]
        if e.kind in ("function", "vfunction"):
            return e.obj(*self.X[:e.nargs])
        if e.kind == "coordsys":
            return e.obj.coord_system.base_scalars()[0]
        raise ValueError(e.kind)

    def _internal_name(self, e: Entry) -> str:
        if e.kind == "coordsys":
            return str(e.obj.coord_system)
        return str(getattr(e.obj, "name"))

    # ---- steps -------------------------------------------------------------------------------
    def apply(self, step: Any) -> list[Viol]:
        rule, args = step[0], step[1]
        self.steps.append(step)
        self.solve_target = None
        try:
            out = getattr(self, "do_" + rule)(**args)
        except Exception as exc:  # pylint: disable=broad-except
            tb = traceback.extract_tb(exc.__traceback__)
            inner = [f for f in tb if "symplyphysics" in f.filename]
            if not inner:
                raise  # harness bug, not a verdict
            fr = inner[-1]
            where = f"{fr.filename.split('symplyphysics/')[-1]}:{fr.name}"
            return [(f"exception:{rule}:{type(exc).__name__}@{where}", f"{rule}({args}) raised {type(exc).__name__}: {exc}")]
        return list(out or [])

    def _add(self, label: int, e: Entry) -> None:
        self.live[label] = e
        self.all[label] = e
        if e.kind in SCALAR_KINDS:
            self.solve_target = label
        for p in ID_PREFIXES:
            v = self.ids().get(p, 0)
            if v >= 10 and str(v)[0] == "1" and set(str(v)[1:]) <= {"0"} and f"bumped:{p}" in self.flags:
                self.flags.add("bump_crossing")

    def _creation_checks(self, e: Entry, want_latex: str | None, libdim: Any) -> list[Viol]:
        out: list[Viol] = []
        o = e.obj
        k = e.kind
        if e.named:
            if o.display_name != e.display:
                out.append((f"create:{k}:display-name", f"display_name {o.display_name!r} != given {e.display!r}"))
        else:
            if not re.fullmatch(_UNNAMED[k], str(o.display_name)):
                out.append((f"create:{k}:display-name",
                    f"object created without a display name shows {o.display_name!r}"))
            e.display = str(o.display_name)
        if want_latex is not None:
            e.latex = want_latex
        elif k in VECTOR_KINDS:
            if e.named:
                e.latex = f"\\mathbf{{{e.display}}}"
            else:
                n = re.sub(r"\D", "", e.display)
                e.latex = f"\\mathbf{{{'v' if k == 'vsymbol' else 'f'}}}_{{{n}}}"
        else:
            e.latex = e.display
        if o.display_latex != e.latex:
            out.append((f"create:{k}:display-latex", f"display_latex {o.display_latex!r} != expected {e.latex!r}"))
        if libdim is not None:
            if not mdims.from_lib(o.dimension).same(e.dim):
                out.append((f"create:{k}:dimension", f"dimension {o.dimension} != model {e.dim.text()}"))
        if e.assum is not None and k in ("symbol", "indexed"):
            want = self.L.sympy.Symbol("ref", **e.assum).assumptions0
            if dict(o.assumptions0) != dict(want):
                out.append((f"create:{k}:assumptions", f"assumptions0 {dict(o.assumptions0)} != sympy's {dict(want)}"))
        if e.assum and k == "function":
            t = self.term(e)
            for f, v in e.assum.items():
                if getattr(t, "is_" + f) is not v:
                    out.append((f"create:{k}:assumptions", f"applied function is_{f} = {getattr(t, 'is_' + f)}, passed {v}"))
        return out

    def do_start(self, ids: dict[str, int]) -> None:
        from ..idcounters import CountersUnavailable  # pylint: disable=import-outside-toplevel
        cur = self.ids()
        for p, v in ids.items():
            if cur.get(p, 0) < v:
                try:
                    cur[p] = v
                except CountersUnavailable:
                    self.flags.add("bump_unavailable")

    def do_symbol(self, label: int, name: Any, latex: Any, dim: str, assum: dict[str, bool]) -> list[Viol]:
        o = self.L.Symbol(name, self.L.libdim[dim], display_latex=latex, **assum)
        e = Entry("symbol", o, named=name is not None, display=name or "", latex="", dim=self.L.moddim[dim], assum=assum)
        out = self._creation_checks(e, latex, True)
        self._add(label, e)
        return out

    def do_indexed(self, label: int, name: Any, latex: Any, dim: str, assum: dict[str, bool]) -> list[Viol]:
        o = self.L.IndexedSymbol(name, None, self.L.libdim[dim], display_latex=latex, **assum)
        e = Entry("indexed", o, named=name is not None, display=name or "", latex="", dim=self.L.moddim[dim],
            assum=assum)
        out = self._creation_checks(e, latex, True)
        self._add(label, e)
        return out

    def _fargs(self, nargs: Any) -> Any:
        return None if nargs is None else list(self.X[:nargs])

    def do_function(self, label: int, name: Any, latex: Any, dim: str, assum: dict[str, bool], nargs: Any) -> list[Viol]:
        decl: list[Entry] = []
        fargs = self._fargs(1 if nargs == "F" else nargs)
        if nargs == "F":
            # declared over an earlier function of the world (a function CLASS among the declared arguments) and a symbol
            prior = [x for x in self.live.values() if x.kind == "function"]
            nargs = 1
            if prior:
                decl, fargs, nargs = [prior[-1]], [prior[-1].obj, self.X[0]], 2
                self.flags.add("function_declared_over_function")
        o = self.L.Function(name, fargs, self.L.libdim[dim], display_latex=latex, **assum)
        e = Entry("function", o, named=name is not None, display=name or "", latex="", dim=self.L.moddim[dim],
            assum=assum, nargs=nargs or 1)
        e.declared = fargs is not None  # type: ignore[attr-defined]
        e.decl = decl  # type: ignore[attr-defined]
        out = self._creation_checks(e, latex, True)
        self._add(label, e)
        return out

    def do_quantity(self, label: int, value: str, unit: str, name: Any, latex: Any) -> list[Viol]:
        sp = self.L.sympy
        o = self.L.Quantity(sp.Rational(value) * munits.lib_unit(unit), display_symbol=name, display_latex=latex)
        e = Entry("quantity", o, named=name is not None, display=name or "", latex="", dim=munits.dim(unit), assum=None)
        out = self._creation_checks(e, latex, True)
        self._add(label, e)
        return out

    def do_coordsys(self, label: int, system: str) -> list[Viol]:
        o = self.L.CoordinateSystem(self.L.systems[system])
        self._add(label, Entry("coordsys", o, named=False, display="", latex="", dim=None, assum=None))
        return []

    def do_transform(self, label: int, src: int, system: str) -> list[Viol]:
        if src not in self.live:
            return []
        o = self.L.coordinates_transform(self.live[src].obj, self.L.systems[system])
        self._add(label, Entry("coordsys", o, named=False, display="", latex="", dim=None, assum=None))
        return []

    def do_rotate(self, label: int, src: int) -> list[Viol]:
        if src not in self.live:
            return []
        s = self.live[src].obj
        if s.coord_system_type != self.L.systems["cartesian"]:
            return []
        o = self.L.coordinates_rotate(s, self.L.sympy.pi / 3, s.coord_system.k)
        self._add(label, Entry("coordsys", o, named=False, display="", latex="", dim=None, assum=None))
        return []

    def do_vsymbol(self, label: int, name: Any, latex: Any, dim: str) -> list[Viol]:
        o = self.L.VectorSymbol(name, self.L.libdim[dim], display_latex=latex)
        e = Entry("vsymbol", o, named=name is not None, display=name or "", latex="", dim=self.L.moddim[dim], assum=None)
        out = self._creation_checks(e, latex, True)
        self._add(label, e)
        return out

    def do_vfunction(self, label: int, name: Any, latex: Any, dim: str, nargs: Any) -> list[Viol]:
        fargs = self._fargs(nargs)
        o = self.L.VectorFunction(name, tuple(fargs) if fargs is not None else None, dimension=self.L.libdim[dim],
            display_latex=latex)
        e = Entry("vfunction", o, named=name is not None, display=name or "", latex="", dim=self.L.moddim[dim],
            assum=None, nargs=nargs or 1)
        out = self._creation_checks(e, latex, True)
        self._add(label, e)
        return out

    # ---- clones ------------------------------------------------------------------------------
    @staticmethod
    def _clone_names(s: Entry, name: Any, latex: Any, sub: Any) -> tuple[str, str, str, str]:
        base_n = name or s.display
        base_l = latex or s.latex
        if sub:
            return base_n, base_l, f"{base_n}_{sub}", f"{base_l}_{{{sub}}}"
        return base_n, base_l, base_n, base_l

    def _clone_common(self, helper: str, s: Entry, c: Any, name: Any, latex: Any, sub: Any) -> list[Viol]:
        out: list[Viol] = []
        base_n, base_l, want_n, want_l = self._clone_names(s, name, latex, sub)
        if c.display_name != want_n:
            key = "subscript-code" if sub and c.display_name == base_n else "display-name"
            out.append((f"clone:{helper}:{key}",
                f"clone display_name {c.display_name!r}, expected {want_n!r} (source {s.display!r}, override {name!r}, subscript {sub!r})"))
        if c.display_latex != want_l:
            key = "subscript-latex" if sub and c.display_latex == base_l else "display-latex"
            out.append((f"clone:{helper}:{key}",
                f"clone display_latex {c.display_latex!r}, expected {want_l!r} (source {s.latex!r}, override {latex!r}, subscript {sub!r})"))
        if c.dimension != s.obj.dimension or not mdims.from_lib(c.dimension).same(s.dim):
            out.append((f"clone:{helper}:dimension", f"clone dimension {c.dimension} != source {s.obj.dimension}"))
        if c is s.obj or c == s.obj:
            out.append((f"clone:{helper}:not-new", "clone equals its source"))
        return out

    def do_clone_symbol(self, label: int, src: int, name: Any, latex: Any, sub: Any, assum: dict[str, bool]) -> list[Viol]:
        if src not in self.live or self.live[src].kind not in CLONE_SYMBOL_SOURCES:
            return []
        s = self.live[src]
        kw: dict[str, Any] = {}
        if name is not None:
            kw["display_symbol"] = name
        if latex is not None:
            kw["display_latex"] = latex
        if sub is not None:
            kw["subscript"] = sub
        c = self.L.clone_as_symbol(s.obj, **kw, **assum)
        out = self._clone_common("symbol", s, c, name, latex, sub)
        if type(c) is not self.L.Symbol:  # pylint: disable=unidiomatic-typecheck
            out.append(("clone:symbol:type", f"clone_as_symbol returned {type(c).__name__}"))
        out += self._clone_assumptions0("symbol", s, c, assum)
        _, _, want_n, want_l = self._clone_names(s, name, latex, sub)
        self._add(label, Entry("symbol", c, named=True, display=want_n, latex=want_l, dim=s.dim,
            assum=assum or None, sub=bool(sub), clone="symbol<-" + s.kind))
        return out

    def _clone_assumptions0(self, helper: str, s: Entry, c: Any, assum: dict[str, bool]) -> list[Viol]:
        if assum:
            want = dict(self.L.sympy.Symbol("ref", **assum).assumptions0)
            if dict(c.assumptions0) != want:
                return [(f"clone:{helper}:assumptions-passed",
                    f"assumptions {assum} were passed; clone.assumptions0 = {dict(c.assumptions0)}")]
            return []
        want = dict(s.obj.assumptions0)
        if dict(c.assumptions0) != want:
            diff = {k: (want.get(k), dict(c.assumptions0).get(k)) for k in set(want) | set(c.assumptions0)
                if want.get(k) != dict(c.assumptions0).get(k)}
            return [(f"clone:{helper}:assumptions-not-inherited",
                f"no assumptions passed; (source, clone) assumptions differ in {dict(sorted(diff.items()))}")]
        return []

    def do_clone_function(self, label: int, src: int, nargs: Any, name: Any, latex: Any, sub: Any,
        assum: dict[str, bool]) -> list[Viol]:
        if src not in self.live or self.live[src].kind not in CLONE_SOURCES:
            return []
        s = self.live[src]
        kw: dict[str, Any] = {}
        if name is not None:
            kw["display_symbol"] = name
        if latex is not None:
            kw["display_latex"] = latex
        if sub is not None:
            kw["subscript"] = sub
        c = self.L.clone_as_function(s.obj, self._fargs(nargs), **kw, **assum)
        out = self._clone_common("function", s, c, name, latex, sub)
        if not isinstance(c, self.L.Function):
            out.append(("clone:function:type", f"clone_as_function returned {type(c).__name__}"))
        applied = c(*self.X[:nargs or 1])
        if assum:
            ref = self.L.sympy.Symbol("ref", **assum)
            bad = {f: (getattr(ref, "is_" + f), getattr(applied, "is_" + f)) for f in FACTS
                if getattr(ref, "is_" + f) is not getattr(applied, "is_" + f)}
            if bad:
                out.append(("clone:function:assumptions-passed",
                    f"assumptions {assum} were passed; (expected, applied clone) facts differ: {bad}"))
        else:
            src0 = dict(s.obj.assumptions0)
            bad = {f: (src0.get(f), getattr(applied, "is_" + f)) for f in FACTS
                if src0.get(f) is not getattr(applied, "is_" + f)}
            if bad:
                out.append(("clone:function:assumptions-not-inherited",
                    f"no assumptions passed; (source, applied clone) facts differ: {bad}"))
        _, _, want_n, want_l = self._clone_names(s, name, latex, sub)
        self._add(label, Entry("function", c, named=True, display=want_n, latex=want_l, dim=s.dim, assum=None,
            nargs=nargs or 1, sub=bool(sub), clone="function<-" + s.kind))
        return out

    def do_clone_indexed(self, label: int, src: int, name: Any, latex: Any, assum: dict[str, bool]) -> list[Viol]:
        if src not in self.live or self.live[src].kind not in CLONE_SOURCES:
            return []
        s = self.live[src]
        kw: dict[str, Any] = {}
        if name is not None:
            kw["display_symbol"] = name
        if latex is not None:
            kw["display_latex"] = latex
        c = self.L.clone_as_indexed(s.obj, **kw, **assum)
        out = self._clone_common("indexed", s, c, name, latex, None)
        if not isinstance(c, self.L.IndexedSymbol):
            out.append(("clone:indexed:type", f"clone_as_indexed returned {type(c).__name__}"))
        out += self._clone_assumptions0("indexed", s, c, assum)
        _, _, want_n, want_l = self._clone_names(s, name, latex, None)
        self._add(label, Entry("indexed", c, named=True, display=want_n, latex=want_l, dim=s.dim,
            assum=assum or None, clone="indexed<-" + s.kind))
        return out

    # ---- history-only steps --------------------------------------------------------------------
    def do_bump(self, prefix: str, to: int) -> None:
        from ..idcounters import CountersUnavailable  # pylint: disable=import-outside-toplevel
        cur = self.ids()
        if cur.get(prefix, 0) < to:
            try:
                cur[prefix] = to
            except CountersUnavailable:
                self.flags.add("bump_unavailable")
                return
            self.flags.add(f"bumped:{prefix}")

    def do_garbage(self, n: int) -> None:
        sp = self.L.sympy
        from sympy.core.cache import clear_cache  # pylint: disable=import-outside-toplevel
        for i in range(n):
            nm = NAMES[i % len(NAMES)]
            junk = [self.L.Symbol(nm), self.L.VectorSymbol(nm), self.L.Function(nm), self.L.IndexedSymbol(nm)]
            _ = sp.Add(*[2 * junk[0], 3 * junk[1], junk[2](self.X[0]), junk[3][junk[3].index]])
            del junk, _
        clear_cache()
        gc.collect()
        self.flags.add("garbage")

    def do_drop(self, src: int) -> None:
        self.live.pop(src, None)

    def do_solve(self, src: int) -> None:
        if src in self.live and self.live[src].kind in SCALAR_KINDS:
            self.solve_target = src

    # ---- invariants ----------------------------------------------------------------------------
    def check(self) -> list[Viol]:
        out: list[Viol] = []
        for part in (self._check_distinct, self._check_scalar_expression, self._check_vector_expression, self._check_unapplied):
            try:
                out += part()
            except Exception as exc:  # pylint: disable=broad-except
                tb = traceback.extract_tb(exc.__traceback__)
                inner = [f for f in tb if "symplyphysics" in f.filename]
                if not inner:
                    raise  # harness bug, not a verdict
                fr = inner[-1]
                where = f"{fr.filename.split('symplyphysics/')[-1]}:{fr.name}"
                out.append((f"exception:{part.__name__.replace('_check_', '')}:{type(exc).__name__}@{where}",
                    f"{type(exc).__name__}: {exc} while evaluating the invariant over live objects"))
        return out

    def _check_unapplied(self) -> list[Viol]:
        """A function printed UNAPPLIED (code_str / latex_str show it as name(declared arguments)): display names only."""
        out: list[Viol] = []
        for lab, e in self.live.items():
            if e.kind != "function" or not getattr(e, "declared", False):
                continue
            for route, fn, tex in (("code_str", self.L.code_str, False), ("latex_str", self.L.latex_str, True)):
                text = str(fn(e.obj)).replace("\n", " ")
                norm = _tex_norm(text) if tex else text
                allowed: set[str] = set()
                for x in [e] + list(getattr(e, "decl", [])):
                    # a display name may itself look like a generated name (a clone of an unnamed object); the library shows a
                    # declared function argument by its code display name in both printers
                    allowed |= set(INTERNAL.findall(x.display)) | set(INTERNAL.findall(_tex_norm(x.latex)))
                    if not x.named:
                        allowed.add(self._internal_name(x))
                leaked = [n for n in INTERNAL.findall(norm) if n not in allowed]
                if leaked:
                    out.append(("print-unapplied:function:internal-name", f"{route} of the unapplied function #{lab} {e.display!r} declared over "
                        f"{[x.display for x in getattr(e, 'decl', [])] or 'symbols'} shows generated name(s) {leaked}: {text[:120]}"))
                for x in getattr(e, "decl", []):
                    # (judged on the code route only: in LaTeX the library shows a declared function argument by its code
                    # display name re-typeset by SymPy, m_1_1 -> m_{1 1}, which is a display form but not a fixed string)
                    if x.named and not tex and x.display not in norm:
                        out.append(("print-unapplied:function:display-missing", f"{route} of the unapplied function #{lab} {e.display!r} lacks the "
                            f"display name {x.display!r} of the function it is declared over: {text[:120]}"))
        return out

    def _things(self) -> list[tuple[str, str, Any]]:
        """(kind, description, object) of everything that must be pairwise distinct."""
        th: list[tuple[str, str, Any]] = []
        for lab, e in self.live.items():
            d = f"#{lab}:{e.kind}:{e.display!r}"
            if e.kind == "coordsys":
                cs = e.obj.coord_system
                th.append(("coordsys", d + ":system", cs))
                for b in cs.base_scalars():
                    th.append(("base_scalar", d + f":{b}", b))
            else:
                th.append((e.kind, d, e.obj))
                if e.kind in ("indexed", "function", "vfunction"):
                    th.append((e.kind + "_applied", d + ":applied", self.term(e)))
        return th

    def _check_distinct(self) -> list[Viol]:
        out: list[Viol] = []
        th = self._things()
        n = len(th)
        for i in range(n):
            for j in range(i + 1, n):
                a, b = th[i][2], th[j][2]
                eq = bool(a == b)
                ne = bool(a != b)
                if eq or not ne:
                    ka, kb = sorted((th[i][0], th[j][0]))
                    out.append((f"alias:{ka}~{kb}", f"{th[i][1]} and {th[j][1]} compare equal (==:{eq}, !=:{ne}); "
                        f"internal names {a!s} / {b!s}"))
        table: dict[Any, int] = {}
        for i, t in enumerate(th):
            table[t[2]] = i
        if len(table) != n or len({t[2] for t in th}) != n:
            out.append(("alias:dict-keys", f"{n} live objects give {len(table)} dict keys"))
        else:
            for i, t in enumerate(th):
                if table[t[2]] != i:
                    out.append(("alias:dict-keys", f"dict lookup of {t[1]} returns the entry of {th[table[t[2]]][1]}"))
                    break
        return out

    def _scalar_entries(self) -> list[tuple[int, Entry]]:
        ents = [(lab, e) for lab, e in self.live.items() if e.kind in SCALAR_KINDS]
        if self.solve_target is not None and self.solve_target in self.live:
            tgt = self.solve_target
            ents = [x for x in ents if x[0] != tgt][-(MAX_TERMS - 1):] + [(tgt, self.live[tgt])]
        return ents[-MAX_TERMS:]

    def _check_scalar_expression(self) -> list[Viol]:
        # pylint: disable=too-many-locals,too-many-branches
        sp = self.L.sympy
        ents = self._scalar_entries()
        if not ents:
            return []
        out: list[Viol] = []
        terms = [self.term(e) for _, e in ents]
        cs = PRIMES[:len(terms)]
        expr = sp.Add(*[c * t for c, t in zip(cs, terms)], self.K)
        nterms = len(sp.Add.make_args(expr))
        if nterms != len(terms) + 1:
            out.append(("alias:terms-collapsed",
                f"sum of {len(terms)} distinct objects + k has {nterms} terms: {self._safe_code(expr)}"))
        for j, (lab, e) in enumerate(ents):
            sj = terms[j]
            d = f"#{lab}:{e.kind}:{e.display!r}"
            got = expr.coeff(sj)
            if got != cs[j]:
                out.append((f"alias:coeff:{e.kind}", f"coefficient of {d} in E is {got}, expected {cs[j]}"))
            red = expr.subs(sj, 0)
            bad = [(i, red.coeff(terms[i])) for i in range(len(terms))
                if red.coeff(terms[i]) != (0 if i == j else cs[i])]
            if bad or red.has(sj):
                out.append((f"alias:subs:{e.kind}", f"E.subs({d}, 0) changed other terms: (index, coeff) {bad}"))
            if getattr(sj, "_diff_wrt", False):
                dv = sp.diff(expr, sj)
                if dv != cs[j]:
                    out.append((f"alias:diff:{e.kind}", f"dE/d{d} = {dv}, expected {cs[j]}"))
        if self.solve_target is not None and ents[-1][0] == self.solve_target:
            out += self._check_solve(expr, terms, cs, len(terms) - 1, ents)
        out += self._print_chunks(terms, cs, [e for _, e in ents])
        if len(terms) >= 3:
            out += self._check_printing(sp.Eq(terms[0] * terms[1] / terms[2], terms[-1]**2, evaluate=False),
                [ents[0][1], ents[1][1], ents[2][1], ents[-1][1]])
        last = ents[-1][1]
        if self.solve_target is not None and ents[-1][0] == self.solve_target and last.kind == "indexed":
            # what callers of indexed laws do: expand a sum over the index, then look at the result
            base = last.obj
            expanded = sp.Sum(base[base.index], (base.index, 1, 2)).doit()
            out += self._check_printing(expanded, [last], tag=":after-sum-doit")
            self.flags.add("sum_doit")
        return out

    def _print_chunks(self, terms: list[Any], cs: list[int], ents: list[Entry]) -> list[Viol]:
        """Printing invariant on sums of <= 3 terms (the pretty printer wraps lines at 80 columns)."""
        sp = self.L.sympy
        out: list[Viol] = []
        for a in range(0, len(terms), 3):
            chunk = sp.Add(*[c * t for c, t in zip(cs[a:a + 3], terms[a:a + 3])])
            out += self._check_printing(chunk, ents[a:a + 3])
        return out

    def _qmap(self, expr: Any) -> tuple[Any, dict[Any, Any]]:
        """Quantities -> scale_factor * marker(dimension). solve() simplifies its answer and SymPy's simplify()
        merges quantities of one dimension into one of them (quantity_simplify): value-preserving, not aliasing."""
        sp = self.L.sympy
        from sympy.physics.units import Quantity as SymQuantity  # pylint: disable=import-outside-toplevel
        rep: dict[Any, Any] = {}
        scale: dict[Any, Any] = {}
        for q in expr.atoms(SymQuantity):
            marker = sp.Symbol("DIM[" + ",".join(mdims.from_lib(q.dimension).to_json()) + "]")
            rep[q] = q.scale_factor * marker
            scale[marker] = abs(q.scale_factor)
        return expr.xreplace(rep), scale

    def _check_solve(self, expr: Any, terms: list[Any], cs: list[int], j: int, ents: list[tuple[int, Entry]]) -> list[Viol]:
        # pylint: disable=too-many-locals
        sp = self.L.sympy
        lab, e = ents[j]
        d = f"#{lab}:{e.kind}:{e.display!r}"
        self.flags.add("solve_done")
        sols = sp.solve(expr, terms[j])
        if not isinstance(sols, list) or len(sols) != 1:
            if not sols:
                self.flags.add("solve_empty")
                return []
            return [(f"alias:solve:{e.kind}", f"solve(E, {d}) returned {len(sols)} solutions for a linear equation")]
        sol = sols[0]
        out: list[Viol] = []
        if sol.has(terms[j]):
            out.append((f"alias:solve:{e.kind}", f"solve(E, {d}) still mentions the unknown"))
        rest = sp.Add(*[c * t for i, (c, t) in enumerate(zip(cs, terms)) if i != j], self.K)
        want, _ = self._qmap(-rest / cs[j])
        got, _ = self._qmap(sol)
        # tolerance per dimension marker: 1e-9 of the sum of |contributions| (exact rationals in practice)
        tol: dict[Any, Any] = {}
        for i, t in enumerate(terms):
            if i != j and ents[i][1].kind == "quantity":
                for marker, val in self._qmap(t)[1].items():
                    tol[marker] = tol.get(marker, 0) + val * cs[i] / cs[j]
        delta = sp.expand(got - want)
        bad = {str(t): str(v) for t, v in delta.as_coefficients_dict().items()
            if abs(sp.N(v)) > sp.Float("1e-9") * tol.get(t, 0) + sp.Float("1e-12") * (0 if v.is_Rational else 1)}
        if bad:
            out.append((f"alias:solve:{e.kind}",
                f"solve(E, {d}) = {self._safe_code(sol)} differs from the model solution in the coefficients of {bad}"))
        return out

    def _check_vector_expression(self) -> list[Viol]:
        sp = self.L.sympy
        ents = [(lab, e) for lab, e in self.live.items() if e.kind in VECTOR_KINDS][-MAX_TERMS:]
        if not ents:
            return []
        out: list[Viol] = []
        terms = [self.term(e) for _, e in ents]
        cs = PRIMES[:len(terms)]
        expr = sp.Add(*[c * t for c, t in zip(cs, terms)])
        nterms = len(sp.Add.make_args(expr))
        if nterms != len(terms):
            out.append(("alias:terms-collapsed", f"sum of {len(terms)} distinct vectors has {nterms} terms"))
        for j, (lab, e) in enumerate(ents):
            d = f"#{lab}:{e.kind}:{e.display!r}"
            got = expr.coeff(terms[j])
            if got != cs[j]:
                out.append((f"alias:coeff:{e.kind}", f"coefficient of {d} in the vector sum is {got}, expected {cs[j]}"))
            red = expr.subs(terms[j], 0)
            bad = [(i, red.coeff(terms[i])) for i in range(len(terms))
                if red.coeff(terms[i]) != (0 if i == j else cs[i])]
            if bad:
                out.append((f"alias:subs:{e.kind}", f"subs({d}, 0) changed other terms: {bad}"))
        # products: two distinct vectors never behave as one, even when their display names coincide
        from symplyphysics.core.experimental.vectors import VectorCross, VectorDot
        for i in range(len(terms)):
            for j in range(i + 1, len(terms)):
                u, v = terms[i], terms[j]
                try:
                    cr = VectorCross(u, v)
                    dt = VectorDot(u, v)
                except Exception:  # pylint: disable=broad-except
                    continue
                di, dj = (f"#{ents[k][0]}:{ents[k][1].kind}:{ents[k][1].display!r}" for k in (i, j))
                if cr == 0:
                    out.append(("alias:vector-product", f"cross({di}, {dj}) of two distinct vectors evaluates to 0"))
                if not (dt.has(u) and dt.has(v)):
                    out.append(("alias:vector-product", f"dot({di}, {dj}) of two distinct vectors evaluates to {dt}, which no longer mentions both"))
        out += self._print_chunks(terms, cs, [e for _, e in ents])
        return out

    def _safe_code(self, expr: Any) -> str:
        try:
            return str(self.L.code_str(expr))
        except Exception:  # pylint: disable=broad-except
            return str(expr)

    def _check_printing(self, expr: Any, ents: list[Entry], tag: str = "") -> list[Viol]:
        """Printing invariant on one expression. One key per (object kind, problem); the routes that show the
        problem are listed in the message (keys stay stable whether the object had a LaTeX override or not)."""
        out: list[Viol] = []
        found: dict[tuple[str, str], tuple[list[str], list[str]]] = {}

        def note(kind: str, problem: str, route: str, what: str) -> None:
            routes_, whats = found.setdefault((kind, problem), ([], []))
            if route not in routes_:
                routes_.append(route)
                whats.append(what)

        owner = {self._internal_name(e): e.kind for e in self.all.values()}
        routes = (("print_expression", self.L.print_expression, False), ("code_str", self.L.code_str, False),
            ("latex_str", self.L.latex_str, True))
        for route, fn, tex in routes:
            try:
                text = str(fn(expr))
            except Exception as exc:  # pylint: disable=broad-except
                kinds = "+".join(sorted({e.kind for e in ents}))
                out.append((f"print:{route}:exception:{type(exc).__name__}",
                    f"{route} raised {type(exc).__name__}: {exc} on an expression over {kinds}"))
                continue
            flat = text.replace("\n", " ")
            norm = _tex_norm(flat) if tex else flat
            allowed: set[str] = set()
            for e in ents:
                shown = _tex_norm(e.latex) if tex else e.display
                allowed |= set(INTERNAL.findall(shown))
            blamed: set[str] = set()
            for name in INTERNAL.findall(norm):
                if name not in allowed:
                    blamed.add(name)
                    kind = owner.get(name, "unknown")
                    note(kind, "internal-name", route, f"{route} shows generated name {name} (a {kind} whose display name "
                        f"is {[e.display for e in ents if self._internal_name(e) == name]}): {flat[:120]}")
            for e in ents:
                if e.kind == "coordsys":
                    continue
                if e.kind == "quantity" and not e.named and not tex:
                    continue  # str-based printers show the SI value of an unnamed quantity (a display form too)
                if self._internal_name(e) in blamed:
                    continue  # already reported as internal-name
                shown = _tex_norm(e.latex) if tex else e.display
                if shown not in norm:
                    note(e.kind, "display-missing", route,
                        f"{route} output lacks display name {shown!r} of a {e.kind}: {flat[:120]}")
                    break
        for (kind, problem), (routes_, whats) in found.items():
            out.append((f"print:{kind}:{problem}{tag}", f"[routes: {'+'.join(routes_)}] " + " | ".join(whats)))
        return out

    # ---- run summary ---------------------------------------------------------------------------
    def summary(self) -> tuple[bool, list[str]]:
        labels: list[str] = []
        groups: dict[tuple[str, str], int] = {}
        for e in self.all.values():
            if e.named:
                groups[(e.kind, e.display)] = groups.get((e.kind, e.display), 0) + 1
        pairs = sum(n * (n - 1) // 2 for n in groups.values())
        has_sub = any(e.sub for e in self.all.values())
        labels.append("collide_pairs=" + ("0" if pairs == 0 else "1-3" if pairs <= 3 else "4-9" if pairs <= 9 else "10+"))
        if has_sub:
            labels.append("clone_with_subscript")
        for e in self.all.values():
            labels.append("has:" + e.kind)
            if e.clone:
                labels.append("clone:" + e.clone)
            if not e.named and e.kind != "coordsys":
                labels.append("has_unnamed:" + e.kind)
            if e.clone and e.assum:
                labels.append("clone_assumptions_passed")
        for f in ("bump_crossing", "garbage", "solve_done", "solve_empty", "sum_doit", "function_declared_over_function"):
            if f in self.flags:
                labels.append(f)
        labels.append("objects=" + ("0-7" if len(self.all) < 8 else "8-15" if len(self.all) < 16 else "16+"))
        return pairs >= 1 and has_sub, sorted(set(labels))


# ------------------------------------------------------------------------------------------------
# Hypothesis machine (thin wrapper: draws arguments, resolves references, delegates to World)


def _make_machine(rec: Recorder, kept: dict[str, tuple[str, Any]]) -> Any:
    # pylint: disable=import-outside-toplevel,too-many-statements
    from hypothesis import strategies as st
    from hypothesis.stateful import RuleBasedStateMachine, invariant, precondition, rule

    name_s = st.one_of(st.sampled_from(NAMES), st.sampled_from(NAMES), st.sampled_from(NAMES[:2]), st.none())
    latex_s = st.one_of(st.none(), st.none(), st.none(), st.sampled_from(LATEXES))
    over_name_s = st.one_of(st.none(), st.none(), st.sampled_from(NAMES))
    dim_s = st.sampled_from(DIMKEYS)
    assum_s = st.sampled_from(ASSUMS)
    sub_s = st.one_of(st.none(), st.sampled_from(SUBSCRIPTS), st.sampled_from(SUBSCRIPTS))
    nargs_s = st.sampled_from([None, 1, 1, 2])
    fnargs_s = st.sampled_from([None, 1, 1, 2, "F", "F"])
    pick_s = st.integers(0, 10**6)

    class Machine(RuleBasedStateMachine):  # type: ignore[misc]

        def __init__(self) -> None:
            super().__init__()
            self.w = World()
            self._do("start", ids={p: int(self.w.ids().get(p, 0)) for p in ID_PREFIXES})

        # -- plumbing
        def _do(self, rule_name: str, **args: Any) -> None:
            if rule_name in CREATORS:
                args = {"label": self.w.next_label, **args}
                self.w.next_label += 1
            rec.count("rule:" + rule_name)
            if len(self.w.steps) >= 1:
                prev = self.w.steps[-1][0]
                rec.notes.setdefault("transitions", [])
                tr = f"{prev}>{rule_name}"
                if tr not in rec.notes["transitions"]:
                    rec.notes["transitions"].append(tr)
            for key, what in self.w.apply([rule_name, args]):
                self._viol(key, what)

        def _viol(self, key: str, what: str) -> None:
            rec.count("viol:" + key)
            case = [list(s) for s in self.w.steps]
            old = kept.get(key)
            if old is None or len(case) < len(old[1]):
                kept[key] = (what, case)

        def _pick(self, kinds: Iterable[str], n: int) -> int:
            c = self.w.labels_of(kinds)
            return c[n % len(c)]

        def _room(self) -> bool:
            return len(self.w.live) < MAX_LIVE

        # -- creations
        @precondition(lambda self: self._room())
        @rule(name=name_s, latex=latex_s, dim=dim_s, assum=assum_s)
        def symbol(self, name: Any, latex: Any, dim: str, assum: Any) -> None:
            self._do("symbol", name=name, latex=latex, dim=dim, assum=dict(assum))

        @precondition(lambda self: self._room())
        @rule(name=name_s, latex=latex_s, dim=dim_s, assum=assum_s)
        def indexed(self, name: Any, latex: Any, dim: str, assum: Any) -> None:
            self._do("indexed", name=name, latex=latex, dim=dim, assum=dict(assum))

        @precondition(lambda self: self._room())
        @rule(name=name_s, latex=latex_s, dim=dim_s, assum=assum_s, nargs=fnargs_s)
        def function(self, name: Any, latex: Any, dim: str, assum: Any, nargs: Any) -> None:
            self._do("function", name=name, latex=latex, dim=dim, assum=dict(assum), nargs=nargs)

        @precondition(lambda self: self._room())
        @rule(value=st.sampled_from(QVALUES), unit=st.sampled_from(QUNITS), name=name_s, latex=latex_s)
        def quantity(self, value: str, unit: str, name: Any, latex: Any) -> None:
            self._do("quantity", value=value, unit=unit, name=name, latex=latex)

        @precondition(lambda self: self._room())
        @rule(system=st.sampled_from(SYSTEMS))
        def coordsys(self, system: str) -> None:
            self._do("coordsys", system=system)

        @precondition(lambda self: self._room() and self.w.labels_of(["coordsys"]))
        @rule(n=pick_s, system=st.sampled_from(SYSTEMS))
        def transform(self, n: int, system: str) -> None:
            self._do("transform", src=self._pick(["coordsys"], n), system=system)

        @precondition(lambda self: self._room() and self.w.labels_of(["coordsys"]))
        @rule(n=pick_s)
        def rotate(self, n: int) -> None:
            self._do("rotate", src=self._pick(["coordsys"], n))

        @precondition(lambda self: self._room())
        @rule(name=name_s, latex=latex_s, dim=dim_s)
        def vsymbol(self, name: Any, latex: Any, dim: str) -> None:
            self._do("vsymbol", name=name, latex=latex, dim=dim)

        @precondition(lambda self: self._room())
        @rule(name=name_s, latex=latex_s, dim=dim_s, nargs=nargs_s)
        def vfunction(self, name: Any, latex: Any, dim: str, nargs: Any) -> None:
            self._do("vfunction", name=name, latex=latex, dim=dim, nargs=nargs)

        # -- clones
        @precondition(lambda self: self._room() and self.w.labels_of(CLONE_SYMBOL_SOURCES))
        @rule(n=pick_s, name=over_name_s, latex=latex_s, sub=sub_s, assum=assum_s)
        def clone_symbol(self, n: int, name: Any, latex: Any, sub: Any, assum: Any) -> None:
            self._do("clone_symbol", src=self._pick(CLONE_SYMBOL_SOURCES, n), name=name, latex=latex, sub=sub,
                assum=dict(assum))

        @precondition(lambda self: self._room() and self.w.labels_of(CLONE_SOURCES))
        @rule(n=pick_s, nargs=nargs_s, name=over_name_s, latex=latex_s, sub=sub_s, assum=assum_s)
        def clone_function(self, n: int, nargs: Any, name: Any, latex: Any, sub: Any, assum: Any) -> None:
            self._do("clone_function", src=self._pick(CLONE_SOURCES, n), nargs=nargs, name=name, latex=latex, sub=sub,
                assum=dict(assum))

        @precondition(lambda self: self._room() and self.w.labels_of(CLONE_SOURCES))
        @rule(n=pick_s, name=over_name_s, latex=latex_s, assum=assum_s)
        def clone_indexed(self, n: int, name: Any, latex: Any, assum: Any) -> None:
            self._do("clone_indexed", src=self._pick(CLONE_SOURCES, n), name=name, latex=latex, assum=dict(assum))

        # -- history
        @rule(prefix=st.sampled_from(ID_PREFIXES), below=st.integers(1, 3), up=st.integers(0, 1))
        def bump(self, prefix: str, below: int, up: int) -> None:
            cur = int(self.w.ids().get(prefix, 0))
            boundary = 10**(len(str(cur + below)) + up)
            if boundary > 10**9:
                return
            self._do("bump", prefix=prefix, to=boundary - below)

        @rule(n=st.integers(1, 4))
        def garbage(self, n: int) -> None:
            self._do("garbage", n=n)

        @precondition(lambda self: len(self.w.live) > 2)
        @rule(n=pick_s)
        def drop(self, n: int) -> None:
            self._do("drop", src=self._pick(set(SCALAR_KINDS) | set(VECTOR_KINDS), n))

        @precondition(lambda self: self.w.labels_of(SCALAR_KINDS))
        @rule(n=pick_s)
        def solve(self, n: int) -> None:
            self._do("solve", src=self._pick(SCALAR_KINDS, n))

        @invariant()
        def no_aliasing_and_printing(self) -> None:
            for key, what in self.w.check():
                self._viol(key, what)

        def teardown(self) -> None:
            nt, labels = self.w.summary()
            rec.case(self.w.steps, nontrivial=nt, labels=labels + (["nontrivial"] if nt else []))
            rec.count("steps", len(self.w.steps))

    return Machine


# ------------------------------------------------------------------------------------------------
# bursts: many objects created under ONE display name, then objects whose display name is that name followed by digits
# (an internal name glued together from display name and counter would collide: "m" number 11 and "m1" number 1)


def burst_strategy() -> Any:
    from hypothesis import strategies as st  # pylint: disable=import-outside-toplevel
    return st.fixed_dictionaries({"kind": st.sampled_from(["quantity", "quantity", "symbol", "function"]),
        "base": st.sampled_from(["m", "E_k", "x", "q1"]), "n": st.integers(9, 24),
        "suffixes": st.lists(st.sampled_from(["1", "2", "11", "12", "10", "21", "_1"]), min_size=1, max_size=4, unique=True),
        "late_first": st.booleans(), "thread": st.sampled_from([False, False, True])})


def judge_burst(case: dict[str, Any]) -> list[Viol]:
    """Runs in a forked process of its own."""
    import sympy  # pylint: disable=import-outside-toplevel
    from sympy.physics import units as su  # pylint: disable=import-outside-toplevel
    from symplyphysics import Function, Quantity, Symbol  # pylint: disable=import-outside-toplevel
    units_ = [su.meter, su.second, su.kilogram, su.kelvin, su.ampere]
    made: list[tuple[str, Any, Any, Any]] = []

    def make(name: str, i: int) -> None:
        u = units_[i % len(units_)]
        if case["kind"] == "quantity":
            o = Quantity((i + 2) * u, display_symbol=name)
            made.append((name, o, sympy.sympify(o.scale_factor), o.dimension))
        elif case["kind"] == "symbol":
            o = Symbol(name, su.Dimension(u.dimension if hasattr(u, "dimension") else 1))
            made.append((name, o, None, o.dimension))
        else:
            o = Function(name, dimension=su.Dimension(u.dimension if hasattr(u, "dimension") else 1))
            made.append((name, o, None, o.dimension))

    # objects that exist before the burst: the catalogue's constants and common symbols (with what they mean)
    import symplyphysics.quantities as _consts  # pylint: disable=import-outside-toplevel
    import symplyphysics.symbols as _common  # pylint: disable=import-outside-toplevel
    pre: list[tuple[str, Any, Any]] = []
    for nm_ in sorted(getattr(_consts, "__all__", [])):
        c_ = getattr(_consts, nm_)
        pre.append((f"quantities.{nm_}", c_, (sympy.sympify(c_.scale_factor), c_.dimension, getattr(c_, "display_name", None))))
    for sub_ in sorted(n_ for n_ in dir(_common) if not n_.startswith("_")):
        m_ = getattr(_common, sub_)
        if str(getattr(m_, "__name__", "")).startswith("symplyphysics.symbols"):
            for nm_ in sorted(dir(m_)):
                o_ = getattr(m_, nm_)
                if isinstance(o_, sympy.Symbol) and hasattr(o_, "dimension"):
                    pre.append((f"symbols.{sub_}.{nm_}", o_, (None, o_.dimension, getattr(o_, "display_name", None))))
    names = [case["base"]] * case["n"]
    late = [case["base"] + sfx for sfx in case["suffixes"]]
    order = late + names if case["late_first"] else names + late
    try:
        if case.get("thread"):
            # the second half of the objects is created in another thread (ids must be unique across threads)
            import threading  # pylint: disable=import-outside-toplevel
            half = len(order) // 2
            for i, nm in enumerate(order[:half]):
                make(nm, i)
            errors: list[BaseException] = []

            def work() -> None:
                try:
                    for i, nm in enumerate(order[half:]):
                        make(nm, half + i)
                except BaseException as exc:  # pylint: disable=broad-except
                    errors.append(exc)

            th = threading.Thread(target=work)
            th.start()
            th.join()
            if errors:
                raise errors[0]
        else:
            for i, nm in enumerate(order):
                make(nm, i)
    except Exception as exc:  # pylint: disable=broad-except
        return [(f"burst:exception:{type(exc).__name__}", f"creating {case['kind']} objects named {order[:3]}...: {exc}")]
    out: list[Viol] = []
    objs = [m[1] for m in made]
    for where, p_, (sf_, dim_, disp_) in pre:
        for i, (nm, o, _sf, _dim) in enumerate(made):
            if type(o) is type(p_) and o == p_:
                out.append((f"alias:burst:{case['kind']}:pre-existing",
                    f"{case['kind']} number {i + 1} (display name {nm!r}) created "
                    f"{'in a second thread ' if case.get('thread') else ''}compares equal to the pre-existing {where}"))
                return out
        now = (sympy.sympify(p_.scale_factor) if sf_ is not None else None, p_.dimension, getattr(p_, "display_name", None))
        if now != (sf_, dim_, disp_):
            out.append((f"alias:burst:{case['kind']}:pre-existing-overwritten",
                f"{where} was {(sf_, dim_, disp_)} before the burst and is {now} after it"))
            return out
    for i, a in enumerate(objs):
        for j in range(i + 1, len(objs)):
            if a == objs[j] or hash(a) == hash(objs[j]) and a is objs[j]:
                out.append((f"alias:burst:{case['kind']}",
                    f"{case['kind']} number {i + 1} (display name {made[i][0]!r}) and number {j + 1} (display name {made[j][0]!r}) "
                    f"created separately compare equal"))
                return out
    if len(set(objs)) != len(objs) or len({o: 1 for o in objs}) != len(objs):
        out.append((f"alias:burst:{case['kind']}", f"{len(objs)} separately created objects collapse to {len(set(objs))} in a set"))
    if case["kind"] == "quantity":
        for i, (nm, o, sf, dim) in enumerate(made):
            if sympy.sympify(o.scale_factor) != sf or o.dimension != dim or su.systems.SI.get_quantity_dimension(o) != dim:
                out.append(("alias:burst:quantity-overwritten",
                    f"quantity number {i + 1} ({nm!r}) was created with scale factor {sf} and {dim}; after the later creations it "
                    f"reads {o.scale_factor} and {su.systems.SI.get_quantity_dimension(o)}"))
                break
    return out


def _shard(task: dict[str, Any]) -> Recorder:
    # pylint: disable=import-outside-toplevel
    import hypothesis
    from hypothesis import HealthCheck, Phase, settings
    from hypothesis.stateful import run_state_machine_as_test
    rec = Recorder()
    kept: dict[str, tuple[str, Any]] = {}
    machine = _make_machine(rec, kept)
    run_state_machine_as_test(hypothesis.seed(task["seed"])(machine),
        settings=settings(max_examples=task["n"], stateful_step_count=task["steps"], deadline=None, database=None,
        phases=[Phase.generate], suppress_health_check=list(HealthCheck)))
    for key, (what, case) in kept.items():
        rec.violation(key, what, case)
    return rec


def run(ctx: Ctx) -> None:
    munits.selfcheck()
    _lib()
    # every shard is a fresh fork (id counters restart at their post-import values); Hypothesis spends ~2 of a
    # shard's examples on its all-minimal history, so shards are not made smaller than this
    runs = int(os.environ.get("VERIF_C09_RUNS", "0") or "0") or ctx.pick(208, 2000)  # env knob: development only
    steps = ctx.pick(40, 60)
    shards = max(1, runs // ctx.pick(13, 16))
    tasks = [{"n": n, "steps": steps, "seed": ctx.seed * 100000 + i} for i, n in enumerate(shard_counts(runs, shards))]
    for status, val in run_tasks(_shard, tasks, fresh=True):
        if status != "ok":
            raise RuntimeError(f"C09 shard failed: {status}: {val}")
        ctx.merge(val)
    bursts: list[Any] = []
    from ..hyp import hyp_run  # pylint: disable=import-outside-toplevel
    hyp_run(burst_strategy(), bursts.append, ctx.pick(48, 600), ctx.seed * 100000 + 77777)
    for case, (status, val) in zip(bursts, run_tasks(judge_burst, bursts, fresh=True, timeout=120)):
        if status == "timeout":
            ctx.inconclusive += 1
            continue
        if status != "ok":
            raise RuntimeError(f"C09 burst failed: {status}: {val}")
        ctx.case({"burst": case}, nontrivial=True, labels=["burst", "burst:" + case["kind"]])
        for key, what in val:
            ctx.violation(key, what, {"burst": case})
    trans = sorted(set(ctx.notes.get("transitions", [])))
    ctx.notes["transitions"] = len(trans)
    ctx.notes["steps_executed"] = int(ctx.counters.get("steps", 0))
    ctx.assumptions += [
        "id counters are only ever moved upwards by the harness (the library's own monotonicity precondition); every "
        "shard is a freshly forked process so digit boundaries of all six counters are reachable",
        "display names and subscripts are non-empty strings or None (empty strings are not generated)",
        "clone sources are Symbol / IndexedSymbol (and VectorSymbol for clone_as_symbol), as the signatures say",
        "functions are applied to the harness' plain SymPy symbols x, y (not library objects), so dE/ds_j is exactly p_j",
        "assumption oracle: plain sympy.Symbol('ref', **passed).assumptions0 / the source's assumptions0",
        "plain str() of expressions is not an observation point of the property and is not judged",
    ]
    known = {k["key"] for k in ctx.known}
    seen: set[str] = set()
    t_end = time.time() + ctx.pick(25, 120)  # total minimisation budget
    for v in sorted(ctx.violations, key=lambda v: len(v["case"])):
        key = v["key"]
        if key in seen or key in known or time.time() > t_end or isinstance(v["case"], dict):
            continue
        seen.add(key)
        small = shrink(v["case"], _candidates, lambda c, key=key: any(k == key for k, _ in _replay(c, False)),
            budget_s=min(ctx.pick(8, 20), max(1.0, t_end - time.time())))
        res = [w for k, w in replay(small) if k == key]
        if res:
            ctx.violation(key, res[0], small)


def _candidates(case: list[Any]) -> Any:
    n = len(case)
    # drop the tail after the failure is impossible to know here; try halves, then single steps (latest first)
    if n > 4:
        yield case[:n // 2]
        yield case[n // 2:]
    for i in range(n - 1, -1, -1):
        yield case[:i] + case[i + 1:]
    for i, step in enumerate(case):
        args = step[1]
        for k in ("latex", "assum", "name", "sub"):
            if args.get(k):
                if k == "name" and step[0] in ("symbol", "indexed", "function", "quantity", "vsymbol", "vfunction"):
                    continue
                yield case[:i] + [[step[0], {**args, k: ({} if k == "assum" else None)}]] + case[i + 1:]


def _replay(case: list[Any], every_step: bool) -> list[Viol]:
    w = World()
    out: list[Viol] = []
    seen: set[str] = set()
    for n, step in enumerate(case):
        found = w.apply([step[0], dict(step[1])])
        if every_step or n == len(case) - 1:
            found = found + w.check()
        for key, what in found:
            if key not in seen:
                seen.add(key)
                out.append((key, what))
    return out


def replay(case: Any) -> list[Viol]:
    """Re-execute a step list without Hypothesis; invariants are evaluated after every step."""
    if isinstance(case, dict) and "burst" in case:
        status, val = run_tasks(judge_burst, [case["burst"]], fresh=True, timeout=120)[0]
        if status != "ok":
            raise RuntimeError(f"C09 burst replay: {status}: {val}")
        return list(val)
    return _replay(case, True)
