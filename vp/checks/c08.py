"""C08 - the approximate-equality oracle accepts only same-dimension values within tolerance.

Cases (plain JSON) are pairs built *around the tolerance boundary by construction*, judged by a band
oracle written here in exact/50-digit arithmetic from the property text:

  must-fail   dimensions inequivalent (both operands non-wildcard), or in some part (re / im)
              D > max(stated absolute tolerance, rel * larger magnitude)
  must-pass   dimensions equivalent and in both parts D <= stated absolute tolerance when one is stated,
              else D <= rel * larger magnitude
  strip       everything in between: counted, never judged.

Where the property text leaves room for two readings the oracle judges only where both agree:
 * "larger magnitude" of a complex operand: modulus (used for must-fail) vs. magnitude of the part
   (used for must-pass);
 * unit of the stated absolute tolerance for dimensions with a mass exponent: coherent SI (kg) vs. the
   library's internal gram-based scale (the same convention under which a bare number is compared when
   `dimension=` is supplied); the larger reading is used for must-fail, the smaller for must-pass.
Cases closer than MARGIN to any boundary the library could use are discarded and counted.
"""
from __future__ import annotations

import os
from fractions import Fraction
from typing import Any

import mpmath
import sympy
from hypothesis import strategies as st

from ..boot import Ctx, Recorder
from ..hyp import hyp_run
from ..model import unitexpr as UX
from ..model import units as MU
from ..model.dims import DimVec
from ..pool import run_tasks, shard_counts
from ..shrink import shrink

PID = "C08"
RULE = ("Hypothesis-generated pairs built around the tolerance boundary: anchor value s*m*10^e (|value| 1e-12..1e12, real or "
    "complex), tolerances relative in {None=0.001, 1e-6..0.3} and absolute in {None, ~1e-3..1e3 x rel*|anchor| or free 1e-9..1e3}, "
    "other operand = anchor +- k*boundary in the real part, the imaginary part or both, boundary = must-fail threshold "
    "max(abs, rel*M) or must-pass threshold (abs if stated else rel*M), k = 1+-eps with eps in [1e-6,0.5] or far (x3..x1000 / "
    "/3../1000) or 0; both operands written in independently drawn units of the same dimension class (12 classes, exact "
    "units only), as Quantity / raw expression / bare number with or without dimension=; inequivalent-dimension pairs with "
    "numerically equal scale factors; zero (int and float) wildcard operands; vectors of length 0-3 with one perturbed "
    "component, unequal lengths, different dimensions; approx_equal_numbers on floats. Every pair is run through assert_equal "
    "and approx_equal_quantities, swapped (no abs tol), and re-expressed in other units. Cases within MARGIN "
    "(1e-13*|part| + 1e-9*boundary) of any boundary are discarded. Non-trivial = judged (not strip/discard) and the perturbed "
    "part lies within a factor 2 of its must-fail or must-pass threshold; distinct by hash of the case description.")

KEY_FZ = "float-zero-not-wildcard"
KEY_INF = "infinite-operand-asymmetric"
KEY_ABS = "absolute-tolerance-gram-scaled"
# How the *stated absolute tolerance* is read for dimensions with a mass exponent.  False (default): judged only
# where the SI (kg) reading and the gram-based scale-factor reading agree.  True: SI only, as the property text
# literally says; disagreements with the library are then reported under KEY_ABS.  (VERIF_C08_ABS_SI=1 for experiments.)
ABS_TOLERANCE_IS_SI = os.environ.get("VERIF_C08_ABS_SI", "") == "1"
DEFAULT_REL = Fraction(1, 1000)
# a private context: the library under test may use mpmath's global context, whose precision must stay untouched
MPX = mpmath.mp.clone()
MPX.dps = 50
MARGIN_PART = MPX.mpf(10)**-13
MARGIN_B = MPX.mpf(10)**-9

# dimension classes: name -> list of unit expressions (all exact, rational factors)


def _t(name: str, exp: str = "1", prefix: str = "") -> list[Any]:
    return [name, prefix, exp]


CLASSES: dict[str, list[list[Any]]] = {
    "length": [[_t("meter")], [_t("kilometer")], [_t("centimeter")], [_t("millimeter")], [_t("meter", "1", "S:kilo")],
        [_t("meter", "1", "P:micro")], [_t("micrometer")]],
    "mass": [[_t("kilogram")], [_t("gram")], [_t("milligram")], [_t("tonne")], [_t("gram", "1", "R:kilo")]],
    "time": [[_t("second")], [_t("millisecond")], [_t("minute")], [_t("hour")], [_t("day")], [_t("second", "1", "P:nano")]],
    "speed": [[_t("meter"), _t("second", "-1")], [_t("kilometer"), _t("hour", "-1")], [_t("centimeter"), _t("millisecond", "-1")],
        [_t("meter"), _t("hertz")]],
    "force": [[_t("newton")], [_t("kilogram"), _t("meter"), _t("second", "-2")], [_t("gram"), _t("centimeter"), _t("second", "-2")],
        [_t("newton", "1", "S:kilo")], [_t("joule"), _t("meter", "-1")]],
    "energy": [[_t("joule")], [_t("newton"), _t("meter")], [_t("watt"), _t("second")], [_t("watt", "1", "S:kilo"), _t("hour")],
        [_t("kilogram"), _t("meter", "2"), _t("second", "-2")], [_t("volt"), _t("coulomb")], [_t("newton"), _t("centimeter")]],
    "pressure": [[_t("pascal")], [_t("bar")], [_t("atmosphere")], [_t("newton"), _t("meter", "-2")],
        [_t("pascal", "1", "S:mega")], [_t("joule"), _t("liter", "-1")]],
    "voltage": [[_t("volt")], [_t("watt"), _t("ampere", "-1")], [_t("joule"), _t("coulomb", "-1")], [_t("volt", "1", "P:milli")],
        [_t("ohm"), _t("ampere")]],
    "frequency": [[_t("hertz")], [_t("second", "-1")], [_t("radian"), _t("second", "-1")], [_t("minute", "-1")],
        [_t("hertz", "1", "S:giga")], [_t("becquerel")]],
    "dimensionless": [[], [_t("percent")], [_t("radian")], [_t("permille")], [_t("meter"), _t("kilometer", "-1")]],
    "per_mass": [[_t("kilogram", "-1")], [_t("gram", "-1")], [_t("tonne", "-1")], [_t("joule"), _t("kilogram", "-1"), _t("joule", "-1")]],
    "density": [[_t("kilogram"), _t("meter", "-3")], [_t("gram"), _t("centimeter", "-3")], [_t("gram"), _t("liter", "-1")],
        [_t("tonne"), _t("meter", "-3")]],
}
CLASS_NAMES = sorted(CLASSES)
for _c, _us in CLASSES.items():
    for _u in _us:
        assert UX.is_exact(_u) and UX.is_rational(_u), (_c, _u)
        assert UX.dim(_u).same(UX.dim(_us[0])), (_c, _u)


def class_dim(cls: str) -> DimVec:
    return UX.dim(CLASSES[cls][0])


# ------------------------------------------------------------------------------------------------
# number helpers (Fractions in descriptions are strings "p/q"; floats are repr strings)


def num_model(m: Any) -> Fraction:
    """Exact value of a number description ["int", n] | ["rat", "p/q"] | ["float", repr]."""
    if m[0] == "int":
        return Fraction(int(m[1]))
    if m[0] == "rat":
        return Fraction(m[1])
    if m[0] == "float":
        return Fraction(float(m[1]))
    raise ValueError(m)


def num_lib(m: Any) -> Any:
    if m[0] == "int":
        return int(m[1])
    if m[0] == "rat":
        f = Fraction(m[1])
        return sympy.Rational(f.numerator, f.denominator)
    if m[0] == "float":
        return float(m[1])
    raise ValueError(m)


def _mp(x: Fraction) -> Any:
    return MPX.mpf(x.numerator) / MPX.mpf(x.denominator)


def _sym(x: Any) -> Fraction:
    r = sympy.Rational(x)
    return Fraction(int(r.p), int(r.q))


def _round_sig(x: Fraction, digits: int = 12) -> Fraction:
    """Round a positive Fraction to `digits` significant decimal digits (keeps descriptions short)."""
    if x == 0:
        return x
    e = MPX.floor(MPX.log10(_mp(abs(x))))
    shift = int(digits - 1 - int(e))
    scaled = x * Fraction(10)**shift
    n = int(scaled + Fraction(1, 2)) if scaled > 0 else -int(-scaled + Fraction(1, 2))
    return Fraction(n) / Fraction(10)**shift


# ------------------------------------------------------------------------------------------------
# operands
#
# operand description:
#   {"re": num, "im": num|None, "unit": terms, "form": form}
# forms:  "quantity"  Quantity(value * unit)            (value*unit evaluated by SymPy first)
#         "raw"       value * unit, left for the entry point to wrap   (rhs, or lhs of assert_equal)
#         "dim"       Quantity(value, dimension=<dimension of unit>)    value is the *scale factor* (gram-based)
#         "bare"      the bare number, compared under dimension=None
#         "bare+dim"  the bare number, with dimension=<dimension of unit> passed to the entry point


def op_value_lib(op: dict[str, Any]) -> Any:
    v = num_lib(op["re"])
    if op.get("im") is not None:
        v = v + num_lib(op["im"]) * sympy.I
    return v


def op_dim(op: dict[str, Any]) -> DimVec:
    if op["form"] == "bare":
        return DimVec()
    return UX.dim(op["unit"])


def op_si(op: dict[str, Any]) -> tuple[Fraction, Fraction]:
    """Model SI value (re, im) of an operand."""
    re_ = num_model(op["re"])
    im_ = num_model(op["im"]) if op.get("im") is not None else Fraction(0)
    if op["form"] in ("quantity", "raw"):
        f = _sym(UX.factor(op["unit"]))
    elif op["form"] in ("dim", "bare+dim"):
        f = Fraction(1, 1000)**int(UX.dim(op["unit"])[1])  # the number is a gram-based scale factor
    else:
        f = Fraction(1)
    return re_ * f, im_ * f


def op_build(op: dict[str, Any]) -> tuple[Any, Any]:
    """(object handed to the entry point, dimension= keyword or None)."""
    from symplyphysics import Quantity
    v = op_value_lib(op)
    form = op["form"]
    if form == "quantity":
        return Quantity(v * UX.build(op["unit"])), None
    if form == "raw":
        return v * UX.build(op["unit"]), None
    if form == "dim":
        return Quantity(v, dimension=UX.dim(op["unit"]).to_lib()), None
    if form == "bare":
        return v, None
    if form == "bare+dim":
        return v, UX.dim(op["unit"]).to_lib()
    raise ValueError(form)


def op_is_zero(op: dict[str, Any]) -> bool:
    return num_model(op["re"]) == 0 and (op.get("im") is None or num_model(op["im"]) == 0)


def op_has_float_zero(op: dict[str, Any]) -> bool:
    """A zero that reaches the library as Float(0.0) attached to a dimension."""
    return op_is_zero(op) and op["form"] in ("dim", "bare+dim", "bare") and (op["re"][0] == "float" or
        (op.get("im") is not None and op["im"][0] == "float"))


def op_text(op: dict[str, Any]) -> str:
    v = op["re"][1] if op.get("im") is None else f"({op['re'][1]} + {op['im'][1]}*I)"
    if op["form"] in ("quantity", "raw"):
        s = f"{v} * {UX.text(op['unit'])}"
        return f"Quantity({s})" if op["form"] == "quantity" else s
    if op["form"] == "dim":
        return f"Quantity({v}, dimension=<{UX.dim(op['unit']).text()}>)"
    if op["form"] == "bare":
        return f"{v}"
    return f"{v} [dimension=<{UX.dim(op['unit']).text()}>]"


# ------------------------------------------------------------------------------------------------
# band oracle


def tol_values(case: dict[str, Any]) -> tuple[Fraction, Fraction | None]:
    rel = Fraction(float(case["rel"])) if case.get("rel") is not None else DEFAULT_REL
    ab = Fraction(float(case["abs"])) if case.get("abs") is not None else None
    return rel, ab


def classify(l: tuple[Fraction, Fraction], r: tuple[Fraction, Fraction], rel: Fraction, ab: Fraction | None,
    mass_exp: Any, strict_si: bool = False) -> dict[str, Any]:
    """Band of a pair of SI values. Returns {"band": pass|fail|strip|discard, "parts": {...}, "near": bool}."""
    lre, lim, rre, rim = (_mp(x) for x in (*l, *r))
    relm = _mp(rel)
    lmod, rmod = MPX.hypot(lre, lim), MPX.hypot(rre, rim)
    mmod = max(lmod, rmod)
    if ab is None:
        abs_lo = abs_hi = None
        abs_readings: list[Any] = []
    else:
        exps = {0} | (set(mass_exp) if isinstance(mass_exp, (tuple, list, set)) else {int(mass_exp)})
        if strict_si:
            exps = {0}
        # the tolerance read in SI, and read as a gram-based scale factor of either operand's dimension
        abs_readings = sorted(_mp(ab * Fraction(1, 1000)**k) for k in exps)
        abs_lo, abs_hi = abs_readings[0], abs_readings[-1]
    parts: dict[str, Any] = {}
    band_parts = []
    near = False
    close = False
    for name, lp, rp in (("re", lre, rre), ("im", lim, rim)):
        d = abs(lp - rp)
        mp_ = max(abs(lp), abs(rp))
        fail_thr = max(abs_hi if abs_hi is not None else 0, relm * mmod)
        # must-pass: within the stated absolute tolerance, or within the relative tolerance under EVERY reading of
        # "the larger magnitude" (hence the smaller part): the tolerance in force is the larger of the two (max rule
        # of pytest.approx, which the library documents), so stating an absolute tolerance never narrows the band
        pass_thr = max(abs_lo, relm * min(abs(lp), abs(rp))) if abs_lo is not None else relm * mp_
        for b in [relm * abs(lp), relm * abs(rp), relm * lmod, relm * rmod] + abs_readings:
            if d == 0 and b == 0:
                continue
            if abs(d - b) < MARGIN_PART * mp_ + MARGIN_B * b:
                near = True
        if d > fail_thr:
            v = "F"
        elif d <= pass_thr:
            v = "P"
        else:
            v = "S"
        band_parts.append(v)
        if d > 0 and ((fail_thr > 0 and fail_thr / 2 <= d <= 2 * fail_thr) or (pass_thr > 0 and pass_thr / 2 <= d <= 2 * pass_thr)):
            close = True
        parts[name] = {"D": d, "fail_thr": fail_thr, "pass_thr": pass_thr, "v": v}
    if near:
        band = "discard"
    elif "F" in band_parts:
        band = "fail"
    elif all(v == "P" for v in band_parts):
        band = "pass"
    else:
        band = "strip"
    return {"band": band, "parts": parts, "near": near, "close": close,
        "failparts": "+".join(n for n in ("re", "im") if parts[n]["v"] == "F")}


# ------------------------------------------------------------------------------------------------
# library calls, normalised outcomes


def _outcome(fn: Any) -> str:
    from symplyphysics.core.errors import UnitsError
    try:
        res = fn()
    except AssertionError:
        return "fail"
    except UnitsError:
        return "refuse:UnitsError"
    except TypeError:
        return "refuse:TypeError"
    except Exception as exc:  # pylint: disable=broad-except
        return f"error:{type(exc).__name__}:{str(exc)[:80]}"
    if res is None or res is True:
        return "pass"
    if res is False:
        return "fail"
    return f"error:returned:{res!r}"


def _coarse(outcome: str) -> str:
    return "notpass" if outcome == "fail" or outcome.startswith("refuse") else outcome.split(":")[0]


def _tol_kwargs(case: dict[str, Any]) -> dict[str, Any]:
    kw: dict[str, Any] = {}
    if case.get("rel") is not None:
        kw["relative_tolerance"] = float(case["rel"])
    if case.get("abs") is not None:
        kw["absolute_tolerance"] = float(case["abs"])
    return kw


def run_pair(lop: dict[str, Any], rop: dict[str, Any], case: dict[str, Any]) -> dict[str, str]:
    """Outcome of every applicable entry point for lhs/rhs operand descriptions."""
    from symplyphysics.core.approx import approx_equal_quantities, assert_equal
    kw = _tol_kwargs(case)
    out: dict[str, str] = {}
    lobj, ldimkw = op_build(lop)
    robj, rdimkw = op_build(rop)
    assert ldimkw is None  # the lhs dimension can never be supplied from outside
    if rdimkw is not None:
        kw["dimension"] = rdimkw
    out["assert_equal"] = _outcome(lambda: assert_equal(lobj, robj, **kw))
    if lop["form"] in ("quantity", "dim"):  # approx_equal_quantities is typed lhs: Quantity
        out["approx_equal_quantities"] = _outcome(lambda: approx_equal_quantities(lobj, robj, **kw))
    return out


# ------------------------------------------------------------------------------------------------
# judging a pair case


def _tolkind(case: dict[str, Any]) -> str:
    return ("rel" if case.get("rel") is not None else "defaultrel") + ("+abs" if case.get("abs") is not None else "")


def judge_pair(case: dict[str, Any]) -> tuple[list[tuple[str, str]], list[str], bool]:
    # pylint: disable=too-many-locals,too-many-branches,too-many-statements
    out: list[tuple[str, str]] = []
    labels: list[str] = []
    lop, rop = case["l"], case["r"]
    rel, ab = tol_values(case)
    ld, rd = op_dim(lop), op_dim(rop)
    equiv = ld.same(rd)
    lz, rz = op_is_zero(lop), op_is_zero(rop)
    wildcard = lz or rz
    mass_exp = (int(ld[1]), int(rd[1]))
    lsi, rsi = op_si(lop), op_si(rop)
    cplx = lop.get("im") is not None or rop.get("im") is not None
    desc = f"lhs={op_text(lop)} rhs={op_text(rop)} tolerances={_tol_kwargs(case)}"
    labels.append("dims:" + ("equivalent" if equiv else ("inequivalent+wildcard" if wildcard else "inequivalent")))
    labels.append("tol:" + _tolkind(case))
    labels.append("value:" + ("complex" if cplx else "real"))
    labels.append("rhs:" + rop["form"])
    labels.append("lhs:" + lop["form"])
    if any(mass_exp):
        labels.append("mass-exponent-nonzero")
    float_repr = any(x is not None and x[0] == "float" for x in (lop["re"], lop.get("im"), rop["re"], rop.get("im")))
    labels.append("repr:" + ("float" if float_repr else "exact"))
    if equiv:
        labels.append("units:" + ("same" if lop["unit"] == rop["unit"] else "other"))
    outcomes = run_pair(lop, rop, case)
    for name, oc in outcomes.items():
        if oc.startswith("error"):
            out.append((f"unexpected-exception:{oc.split(':')[1]}", f"{name} raised/returned {oc}; {desc}"))
    if out:
        return out, labels, False

    nontrivial = False
    if not equiv and not wildcard:
        # must-fail by dimension: any kind of failing is a pass for the check, accepting is the violation
        for name, oc in outcomes.items():
            labels.append("inequivalent:" + oc)
            if oc == "pass":
                out.append(("accepted-inequivalent-dimensions", f"{name} accepted operands of dimension {ld.text()} and "
                    f"{rd.text()}; {desc}"))
        c = classify(lsi, rsi, rel, ab, mass_exp)
        nontrivial = c["band"] == "pass" or bool(case.get("scale_equal"))
        labels.append("inequivalent:" + ("scale-factors-agree" if case.get("scale_equal") else "scale-factors-differ"))
        return out, labels, nontrivial

    c = classify(lsi, rsi, rel, ab, mass_exp)
    abs_key = False
    if ab is not None and any(mass_exp):
        cs = classify(lsi, rsi, rel, ab, mass_exp, strict_si=True)
        if cs["band"] != c["band"] and cs["band"] in ("pass", "fail"):
            labels.append("abs-reading:si-would-judge-" + cs["band"])
            if ABS_TOLERANCE_IS_SI:
                c, abs_key = cs, True
    band = c["band"]
    labels.append("band:" + band)
    pert = case.get("pert", "none")
    labels.append(f"band:{band}|{pert}|{_tolkind(case)}|" + ("units-same" if lop["unit"] == rop["unit"] else "units-other"))
    if "target" in case:
        labels.append(f"built:{case['target']}{case.get('side', '')}->{band}")
    if band == "discard":
        return out, labels, False
    nontrivial = band in ("pass", "fail") and c["close"]

    def explain() -> str:
        ps = c["parts"]
        return "; ".join(f"{n}: D={MPX.nstr(ps[n]['D'], 12)} must-fail>{MPX.nstr(ps[n]['fail_thr'], 12)} "
            f"must-pass<={MPX.nstr(ps[n]['pass_thr'], 12)}" for n in ("re", "im") if cplx or n == "re")

    for name, oc in outcomes.items():
        if oc.startswith("refuse"):
            if equiv:
                out.append((f"refused-equivalent-dimensions:{oc.split(':')[1]}", f"{name} refused operands that both have "
                    f"dimension {ld.text()}: {oc}; {desc}"))
            else:
                fz = (lz and op_has_float_zero(lop)) or (rz and op_has_float_zero(rop))
                # is a non-float zero present that alone should have opened the wildcard?
                int_zero = (lz and not op_has_float_zero(lop)) or (rz and not op_has_float_zero(rop))
                if fz and not int_zero:
                    out.append((KEY_FZ, f"{name} refused ({oc}) a zero operand written as a float although zero may have any "
                        f"dimension (an integer zero in the same place is accepted); {desc}"))
                else:
                    out.append(("wildcard-refused", f"{name} refused ({oc}) although one operand is zero, which may have any "
                        f"dimension; {desc}"))
            continue
        if abs_key and ((band == "fail" and oc == "pass") or (band == "pass" and oc == "fail")):
            out.append((KEY_ABS, f"{name} is {oc} but the SI values make it a must-{band} ({explain()}): the absolute tolerance is "
                f"applied to gram-based scale factors (x1000**mass_exponent), not to SI values; {desc}"))
            continue
        if band == "fail" and oc == "pass":
            out.append((f"accepted-beyond-tolerance:{c['failparts']}:{_tolkind(case)}", f"{name} accepted a pair that differs by more "
                f"than max(abs, rel*larger magnitude) ({explain()}); {desc}"))
        if band == "pass" and oc == "fail":
            out.append((f"rejected-within-tolerance:{_tolkind(case)}", f"{name} rejected a pair within the stated tolerance ({explain()}); {desc}"))
    if out:
        return out, labels, nontrivial

    # --- metamorphic clauses (library against itself; only away from every boundary, which `discard` ensures)
    base = outcomes["assert_equal"]
    # (1) symmetry without absolute tolerance
    if ab is None and lop["form"] in ("quantity", "dim") and rop["form"] in ("quantity", "dim", "raw"):
        rop2 = {**rop, "form": "quantity"} if rop["form"] == "raw" else rop
        sw = run_pair(rop2, lop, case)
        labels.append("clause:symmetry")
        for name, oc in sw.items():
            if _coarse(oc) != _coarse(outcomes.get(name, base)):
                out.append(("asymmetric-without-absolute-tolerance", f"{name}(lhs, rhs) is {outcomes.get(name, base)} but "
                    f"{name}(rhs, lhs) is {oc}; {desc}"))
    # (2) unit independence
    alt = case.get("alt")
    if alt:
        lop2 = _reexpress(lop, alt.get("l"))
        rop2 = _reexpress(rop, alt.get("r"))
        if lop2 is not None or rop2 is not None:
            c2 = classify(op_si(lop2 or lop), op_si(rop2 or rop), rel, ab, mass_exp)
            if c2["band"] != "discard":
                labels.append("clause:unit-independence")
                re2 = run_pair(lop2 or lop, rop2 or rop, case)
                for name, oc in re2.items():
                    if _coarse(oc) != _coarse(outcomes[name]):
                        out.append(("unit-dependent-verdict", f"{name} is {outcomes[name]} for {desc} but {oc} when the operands are "
                            f"re-expressed as lhs={op_text(lop2 or lop)} rhs={op_text(rop2 or rop)}"))
    # (3) a bare number under dimension=d behaves as Quantity(x, dimension=d)
    if rop["form"] == "bare+dim":
        labels.append("clause:bare-number-as-quantity")
        q = run_pair(lop, {**rop, "form": "dim"}, case)
        for name, oc in q.items():
            if _coarse(oc) != _coarse(outcomes[name]):
                out.append(("bare-number-differs-from-quantity", f"{name} is {outcomes[name]} for the bare number with dimension= but "
                    f"{oc} for Quantity(x, dimension=d); {desc}"))
    return out, labels, nontrivial


def _reexpress(op: dict[str, Any], unit: Any) -> dict[str, Any] | None:
    """The same SI value written in another unit of the same dimension (exact rational magnitude)."""
    if unit is None or op["form"] not in ("quantity", "raw"):
        return None
    assert UX.dim(unit).same(UX.dim(op["unit"]))
    ratio = _sym(UX.factor(op["unit"])) / _sym(UX.factor(unit))

    def conv(m: Any) -> Any:
        if m is None:
            return None
        v = num_model(m) * ratio
        return ["rat", f"{v.numerator}/{v.denominator}"]

    return {**op, "re": conv(op["re"]), "im": conv(op.get("im")), "unit": unit}


# ------------------------------------------------------------------------------------------------
# infinite operands (wildcards): never refused for their dimension; symmetric without absolute tolerance


def _inf_build(op: dict[str, Any]) -> Any:
    from symplyphysics import Quantity
    if op["re"][0] != "inf":
        return op_build(op)[0]
    v = sympy.oo if op["re"][1] > 0 else -sympy.oo
    if op["form"] == "dim":
        return Quantity(v, dimension=UX.dim(op["unit"]).to_lib())
    return Quantity(v * UX.build(op["unit"]))


def judge_inf(case: dict[str, Any]) -> tuple[list[tuple[str, str]], list[str], bool]:
    from symplyphysics.core.approx import approx_equal_quantities, assert_equal
    out: list[tuple[str, str]] = []
    lop, rop = case["l"], case["r"]
    kw = _tol_kwargs(case)
    labels = ["inf", "tol:" + _tolkind(case), "inf:" + ("both" if lop["re"][0] == rop["re"][0] == "inf" else
        ("lhs" if lop["re"][0] == "inf" else "rhs")), "inf:dims-" + ("same" if op_dim(lop).same(op_dim(rop)) else "different")]

    def txt(op: dict[str, Any]) -> str:
        return op_text(op) if op["re"][0] != "inf" else f"Quantity({'-' if op['re'][1] < 0 else ''}oo * {UX.text(op['unit'])})"

    desc = f"lhs={txt(lop)} rhs={txt(rop)} tolerances={kw}"
    lobj, robj = _inf_build(lop), _inf_build(rop)
    res: dict[str, dict[str, str]] = {}
    for name, fn in (("assert_equal", assert_equal), ("approx_equal_quantities", approx_equal_quantities)):
        res[name] = {"lr": _outcome(lambda fn=fn: fn(lobj, robj, **kw)), "rl": _outcome(lambda fn=fn: fn(robj, lobj, **kw))}
    for name, r in res.items():
        for order, oc in r.items():
            if oc.startswith("error"):
                out.append((f"unexpected-exception:{oc.split(':')[1]}", f"{name} ({order}) -> {oc}; {desc}"))
            elif oc.startswith("refuse"):
                out.append(("wildcard-refused", f"{name} ({order}) refused ({oc}) although one operand is infinite, which may have "
                    f"any dimension; {desc}"))
        labels.append(f"inf:{r['lr']}/{r['rl']}")
        if not out and case.get("abs") is None and _coarse(r["lr"]) != _coarse(r["rl"]):
            out.append((KEY_INF, f"{name}(lhs, rhs) is {r['lr']} but {name}(rhs, lhs) is {r['rl']} (no absolute tolerance): an infinite "
                f"lhs makes the tolerance infinite, so it is accepted against any finite rhs; {desc}"))
    return out, labels, True


# ------------------------------------------------------------------------------------------------
# numbers


def judge_numbers(case: dict[str, Any]) -> tuple[list[tuple[str, str]], list[str], bool]:
    from symplyphysics.core.approx import approx_equal_numbers
    out: list[tuple[str, str]] = []
    rel, ab = tol_values(case)
    l, r = num_model(case["l"]), num_model(case["r"])
    c = classify((l, Fraction(0)), (r, Fraction(0)), rel, ab, 0)
    labels = ["numbers", "tol:" + _tolkind(case), "band:" + c["band"], f"numbers:band:{c['band']}"]
    if c["band"] == "discard":
        return out, labels, False
    kw = _tol_kwargs(case)
    lf, rf = float(case["l"][1]), float(case["r"][1])
    oc = _outcome(lambda: approx_equal_numbers(lf, rf, **kw))
    desc = f"approx_equal_numbers({lf!r}, {rf!r}, {kw})"
    p = c["parts"]["re"]
    ex = f"D={MPX.nstr(p['D'], 12)} must-fail>{MPX.nstr(p['fail_thr'], 12)} must-pass<={MPX.nstr(p['pass_thr'], 12)}"
    if oc.startswith(("error", "refuse")):
        out.append(("unexpected-exception:" + oc.split(":")[1], f"{desc} -> {oc}"))
    elif c["band"] == "fail" and oc == "pass":
        out.append((f"accepted-beyond-tolerance:re:{_tolkind(case)}", f"{desc} is True ({ex})"))
    elif c["band"] == "pass" and oc == "fail":
        out.append((f"rejected-within-tolerance:{_tolkind(case)}", f"{desc} is False ({ex})"))
    elif ab is None:
        oc2 = _outcome(lambda: approx_equal_numbers(rf, lf, **kw))
        if oc2 != oc:
            out.append(("asymmetric-without-absolute-tolerance", f"{desc} is {oc} but swapped is {oc2}"))
    return out, labels, c["band"] in ("pass", "fail") and c["close"]


# ------------------------------------------------------------------------------------------------
# vectors


def _vec_build(comps: list[dict[str, Any]], cls: str | None) -> Any:
    from symplyphysics import QuantityVector
    objs = [op_build(c)[0] for c in comps]
    if cls is not None:
        return QuantityVector(objs, dimension=class_dim(cls).to_lib())
    return QuantityVector(objs)


def judge_vector(case: dict[str, Any]) -> tuple[list[tuple[str, str]], list[str], bool]:
    # pylint: disable=too-many-locals,too-many-branches
    from symplyphysics.core.approx import assert_equal, assert_equal_vectors
    out: list[tuple[str, str]] = []
    lc, rc = case["l"], case["r"]
    rel, ab = tol_values(case)
    kw = _tol_kwargs(case)
    labels = ["vector", f"vector:len={len(lc)}v{len(rc)}", "tol:" + _tolkind(case)]
    desc = (f"lhs=[{', '.join(op_text(c) for c in lc)}] rhs=[{', '.join(op_text(c) for c in rc)}] tolerances={kw}")
    try:
        lv = _vec_build(lc, case.get("ldimkw"))
        rv = _vec_build(rc, case.get("rdimkw"))
    except Exception as exc:  # pylint: disable=broad-except
        # building the vectors is not what this property is about; count and move on
        return [("__discard__", f"QuantityVector construction raised {type(exc).__name__}")], labels + ["vector:construction-refused"], False

    def call() -> Any:
        return assert_equal_vectors(lv, rv, **kw)

    # raw outcome incl. ValueError
    try:
        call()
        oc = "pass"
    except AssertionError:
        oc = "fail"
    except ValueError as exc:
        from symplyphysics.core.errors import UnitsError
        oc = "refuse:UnitsError" if isinstance(exc, UnitsError) else "ValueError"
    except TypeError:
        oc = "refuse:TypeError"
    except Exception as exc:  # pylint: disable=broad-except
        oc = f"error:{type(exc).__name__}:{str(exc)[:80]}"
    labels.append("vector:outcome=" + oc.split(":")[0])
    if oc.startswith("error"):
        return [("unexpected-exception:" + oc.split(":")[1], f"assert_equal_vectors raised {oc}; {desc}")], labels, False
    n = min(len(lc), len(rc))
    bands = []
    inequiv = False
    for a, b in zip(lc[:n], rc[:n]):
        da, db = op_dim(a), op_dim(b)
        if not da.same(db) and not (op_is_zero(a) or op_is_zero(b)):
            inequiv = True
            bands.append("fail")
            continue
        bands.append(classify(op_si(a), op_si(b), rel, ab, (int(da[1]), int(db[1])))["band"])
    labels.append("vector:bands=" + ",".join(sorted(set(bands))) if bands else "vector:bands=none")
    if "discard" in bands:
        return out, labels + ["band:discard"], False
    nontrivial = False
    if len(lc) != len(rc):
        # unequal lengths must raise ValueError; an earlier failing component may legitimately fail first
        labels.append("vector:unequal-lengths")
        if oc == "pass":
            out.append(("vector:unequal-lengths-accepted", f"assert_equal_vectors accepted vectors of length {len(lc)} and {len(rc)}; {desc}"))
        elif all(b == "pass" for b in bands) and oc != "ValueError":
            out.append(("vector:unequal-lengths-wrong-outcome", f"assert_equal_vectors gave {oc} instead of ValueError for lengths "
                f"{len(lc)} and {len(rc)} with an agreeing common prefix; {desc}"))
        nontrivial = True
    else:
        if oc == "ValueError":
            out.append(("unexpected-exception:ValueError", f"assert_equal_vectors raised ValueError for equal lengths; {desc}"))
        elif "fail" in bands and oc == "pass":
            which = [i for i, b in enumerate(bands) if b == "fail"]
            key = "accepted-inequivalent-dimensions" if inequiv else "vector:accepted-beyond-tolerance"
            out.append((key, f"assert_equal_vectors accepted although component(s) {which} must fail; {desc}"))
        elif bands and all(b == "pass" for b in bands) and oc != "pass":
            out.append(("vector:rejected-within-tolerance", f"assert_equal_vectors gave {oc} although every component is within "
                f"tolerance; {desc}"))
        elif not bands and oc != "pass":
            out.append(("vector:rejected-within-tolerance", f"assert_equal_vectors gave {oc} for two empty vectors"))
        nontrivial = len(lc) >= 2 and ("fail" in bands or all(b == "pass" for b in bands)) and case.get("pert", "none") != "none"
        # conjunction of the component verdicts of the library itself
        if not out:
            comp = []
            for a, b in zip(lv.components, rv.components):
                comp.append(_coarse(_outcome(lambda a=a, b=b: assert_equal(a, b, **kw))))
            conj = "pass" if all(x == "pass" for x in comp) else "notpass"
            labels.append("clause:vector-conjunction")
            if conj != _coarse(oc):
                out.append(("vector:not-conjunction-of-components", f"assert_equal_vectors is {oc} but the component verdicts are "
                    f"{comp}; {desc}"))
    return out, labels, nontrivial


# ------------------------------------------------------------------------------------------------
# generators


def _numdesc(x: Fraction, as_float: bool) -> list[Any]:
    if as_float:
        return ["float", repr(float(x))]
    if x.denominator == 1:
        return ["int", int(x.numerator)]
    return ["rat", f"{x.numerator}/{x.denominator}"]


_EPS = st.builds(lambda m, e: min(Fraction(m) * Fraction(10)**e, Fraction(1, 2)), st.integers(1, 9), st.integers(-6, -1))
_FAR = st.builds(lambda m, e: Fraction(m) * Fraction(10)**e, st.integers(3, 9), st.integers(0, 2))


@st.composite
def anchor_st(draw: Any) -> Fraction:
    m = draw(st.sampled_from([1, 2, 5, 3, 7]) | st.integers(1, 9999))
    e = draw(st.one_of(st.integers(-12, 9), st.integers(-12, 9), st.integers(-36, -13), st.integers(10, 30)))
    s = draw(st.sampled_from([1, 1, -1]))
    return s * Fraction(m) * Fraction(10)**e * (Fraction(1, 1000) if m > 9 else 1)


@st.composite
def tol_st(draw: Any, scale: Fraction) -> tuple[Any, Any]:
    """(rel, abs) as float-repr strings or None; abs mostly comparable with rel*scale."""
    rk = draw(st.sampled_from(["none", "none", "val", "val", "val", "val", "val", "zero"]))
    rel = None
    if rk == "zero":
        rel = "0.0"  # an explicitly stated zero relative tolerance (exact match, or the absolute tolerance alone)
    if rk == "val":
        rel = repr(float(min(Fraction(draw(st.integers(1, 9))) * Fraction(10)**draw(st.integers(-6, -1)), Fraction(3, 10))))
    ak = draw(st.sampled_from(["none", "none", "none", "near", "near", "free"]))
    ab = None
    if ak == "near" and scale != 0:
        relv = Fraction(float(rel)) if rel is not None else DEFAULT_REL
        f = Fraction(draw(st.integers(1, 9))) * Fraction(10)**draw(st.integers(-3, 2))
        ab = repr(float(_round_sig(abs(scale) * relv * f, 3)))
    elif ak != "none":
        ab = repr(float(Fraction(draw(st.integers(1, 9))) * Fraction(10)**draw(st.integers(-9, 3))))
    return rel, ab


def _mp_to_fraction(x: Any, digits: int = 12) -> Fraction:
    """mpf -> Fraction rounded to `digits` significant decimal digits (keeps descriptions short)."""
    if x == 0:
        return Fraction(0)
    return Fraction(MPX.nstr(x, digits, strip_zeros=False, min_fixed=1, max_fixed=0))


def _thresholds(other_part: Fraction, rel: Fraction, ab: Fraction | None, mass_exp: int, target: str) -> Any:
    """fn(magnitude of the perturbed part, mpf) -> threshold aimed at (mpf)."""
    relm = _mp(rel)
    om = _mp(abs(other_part))
    if ab is not None:
        reads = [_mp(ab), _mp(ab * Fraction(1, 1000)**mass_exp)]
        abs_lo, abs_hi = min(reads), max(reads)
    else:
        abs_lo = abs_hi = None

    def thr(mp_: Any) -> Any:
        if target == "P":
            return abs_lo if abs_lo is not None else relm * mp_
        return max(abs_hi if abs_hi is not None else MPX.mpf(0), relm * MPX.hypot(mp_, om))

    return thr


def _perturb(m: Fraction, other_part: Fraction, rel: Fraction, ab: Fraction | None, mass_exp: int, target: str, k: Fraction,
    away: bool) -> Fraction:
    """Partner value for anchor part `m`: m -/+ k * threshold, the threshold evaluated at the *resulting* larger
    magnitude. (Only aims; the band oracle re-derives everything from the final values.)"""
    thr = _thresholds(other_part, rel, ab, mass_exp, target)
    sign = 1 if m >= 0 else -1
    km, am = _mp(k), _mp(abs(m))
    if not away or k * rel >= Fraction(1, 2):
        return m - sign * _mp_to_fraction(km * thr(am))
    # away from zero: the partner is the larger one, M = |m| + delta; fixed point of delta = k*thr(|m| + delta)
    delta = km * thr(am)
    for _ in range(200):
        new = km * thr(am + delta)
        done = abs(new - delta) <= delta * MPX.mpf(10)**-20
        delta = new
        if done:
            break
    return m + sign * _mp_to_fraction(delta)


@st.composite
def value_pair(draw: Any, mass_exp: int, allow_complex: bool = True) -> dict[str, Any]:
    """SI-valued pair around a boundary: {"a": (re, im|None), "b": (...), rel, abs, pert, target, side}."""
    a_re = draw(anchor_st())
    cplx = allow_complex and draw(st.integers(0, 3)) == 0
    a_im = draw(anchor_st()) if cplx else None
    if cplx and draw(st.integers(0, 2)) == 0:
        # comparable magnitudes in both parts
        a_im = a_re * Fraction(draw(st.integers(-30, 30)) or 7, 10)
    scale = max(abs(a_re), abs(a_im or 0))
    rel_s, abs_s = draw(tol_st(scale))
    rel = Fraction(float(rel_s)) if rel_s is not None else DEFAULT_REL
    ab = Fraction(float(abs_s)) if abs_s is not None else None
    pert = draw(st.sampled_from(["re", "re", "im", "both"] if cplx else ["re"]))
    kind = draw(st.sampled_from(["edge"] * 8 + ["far", "far", "far-in", "far-in", "equal", "equal", "negated"]))
    target = draw(st.sampled_from(["F", "F", "P"]))
    side = draw(st.sampled_from(["+", "-"]))
    if kind == "edge":
        eps = draw(_EPS)
        k = 1 + eps if side == "+" else 1 - eps
    elif kind == "far":
        k, side = draw(_FAR), "+"
    elif kind == "far-in":
        k, side = 1 / draw(_FAR), "-"
    else:
        k, pert = Fraction(0), "none"
    away = draw(st.booleans())
    b_re, b_im = a_re, a_im
    if kind == "negated":
        # same magnitude, opposite sign in the chosen part(s): D = 2*|part|, far outside unless abs is huge
        pert = draw(st.sampled_from(["re", "im", "both"] if cplx else ["re"]))
        b_re = -a_re if pert in ("re", "both") else a_re
        b_im = -a_im if (a_im is not None and pert in ("im", "both")) else a_im
    elif pert in ("re", "both"):
        b_re = _perturb(a_re, a_im or Fraction(0), rel, ab, mass_exp, target, k, away)
    if kind != "negated" and pert in ("im", "both"):
        assert a_im is not None
        kk = k if pert == "im" else k * Fraction(draw(st.integers(1, 10)), 10)  # second part at most as far
        b_im = _perturb(a_im, a_re, rel, ab, mass_exp, target, kk, away)
    if rel_s == "0.0" and kind not in ("equal", "negated"):
        # every tolerance-relative perturbation vanishes with rel = 0: perturb by a small fixed fraction instead (inside the
        # library's DEFAULT relative tolerance, so that a silently substituted default would accept the pair)
        frac = Fraction(1, draw(st.sampled_from([2000, 5000, 20000])))
        step = abs(a_re) * frac
        if ab is not None and step <= ab * 2:
            step = ab * 3
        b_re, b_im, pert, target = a_re + step, a_im, "re", "F"
    return {"a": (a_re, a_im), "b": (b_re, b_im), "rel": rel_s, "abs": abs_s, "pert": pert, "target": {"equal": "E", "negated": "N"}.get(kind, target),
        "side": side if kind == "edge" else {"far": "++", "far-in": "--"}.get(kind, ""),
        "anchor_lhs": draw(st.booleans())}


def _operand(si: tuple[Fraction, Fraction | None], unit: list[Any], form: str, as_float: bool) -> dict[str, Any]:
    if form in ("quantity", "raw"):
        f = _sym(UX.factor(unit))
    elif form in ("dim", "bare+dim"):
        f = Fraction(1, 1000)**int(UX.dim(unit)[1])
    else:
        f = Fraction(1)
    re_, im_ = si
    return {"re": _numdesc(re_ / f, as_float), "im": None if im_ is None else _numdesc(im_ / f, as_float), "unit": unit, "form": form}


@st.composite
def pair_case(draw: Any) -> dict[str, Any]:
    cls = draw(st.sampled_from(CLASS_NAMES))
    d = class_dim(cls)
    mass_exp = int(d[1])
    vp_ = draw(value_pair(mass_exp))
    lsi, rsi = (vp_["a"], vp_["b"]) if vp_["anchor_lhs"] else (vp_["b"], vp_["a"])
    units = CLASSES[cls]
    lu = draw(st.sampled_from(units))
    ru = lu if draw(st.integers(0, 2)) == 0 else draw(st.sampled_from(units))
    rform = draw(st.sampled_from(["quantity", "quantity", "raw", "raw", "bare+dim", "dim"] + (["bare"] if cls == "dimensionless" else [])))
    lform = draw(st.sampled_from(["quantity", "quantity", "quantity", "raw", "dim"]))
    fl_l, fl_r = draw(st.integers(0, 3)) == 0, draw(st.integers(0, 3)) == 0
    case = {"kind": "pair", "cls": cls, "l": _operand(lsi, lu, lform, fl_l), "r": _operand(rsi, ru, rform, fl_r),
        "rel": vp_["rel"], "abs": vp_["abs"], "pert": vp_["pert"], "target": vp_["target"], "side": vp_["side"]}
    if draw(st.booleans()):
        case["alt"] = {"l": draw(st.sampled_from(units)), "r": draw(st.sampled_from(units))}
    return case


@st.composite
def inequivalent_case(draw: Any) -> dict[str, Any]:
    """Different dimension classes; most pairs have (nearly) equal *scale factors*, so that only the dimension check
    stands between them and acceptance."""
    lcls = draw(st.sampled_from(CLASS_NAMES))
    rcls = draw(st.sampled_from([c for c in CLASS_NAMES if c != lcls]))
    lu, ru = draw(st.sampled_from(CLASSES[lcls])), draw(st.sampled_from(CLASSES[rcls]))
    a = draw(anchor_st())
    cplx = draw(st.integers(0, 4)) == 0
    a_im = draw(anchor_st()) if cplx else None
    rel_s, abs_s = draw(tol_st(a))
    mode = draw(st.sampled_from(["equal", "equal", "within", "far", "lzero", "rzero", "bothzero", "fzero-l", "fzero-r"]))
    lform = draw(st.sampled_from(["quantity", "quantity", "raw", "dim"]))
    rform = draw(st.sampled_from(["quantity", "quantity", "raw", "bare+dim", "dim"] + (["bare"] if rcls == "dimensionless" else [])))
    ld, rd = class_dim(lcls), class_dim(rcls)
    # gram-based scale factor of 1 SI unit
    lg, rg = Fraction(1000)**int(ld[1]), Fraction(1000)**int(rd[1])
    l_si = (a, a_im)
    wobble = Fraction(1)
    if mode == "within":
        rel = Fraction(float(rel_s)) if rel_s is not None else DEFAULT_REL
        wobble = 1 + rel / 3
    elif mode == "far":
        wobble = Fraction(draw(st.integers(2, 50)))
    # r scale factor == l scale factor * wobble
    r_si = (a * lg / rg * wobble, None if a_im is None else a_im * lg / rg * wobble)
    case: dict[str, Any] = {"kind": "pair", "cls": lcls + "|" + rcls, "rel": rel_s, "abs": abs_s, "pert": "none",
        "scale_equal": mode in ("equal", "within")}
    lop = _operand(l_si, lu, lform, draw(st.integers(0, 3)) == 0)
    rop = _operand(r_si, ru, rform, draw(st.integers(0, 3)) == 0)
    zero_i, zero_f = ["int", 0], ["float", "0.0"]

    def zero(op: dict[str, Any], z: Any, form: str) -> dict[str, Any]:
        return {**op, "re": z, "im": None if op["im"] is None else z, "form": form}

    if mode in ("lzero", "bothzero"):
        lop = zero(lop, zero_i, draw(st.sampled_from(["dim", "quantity"])))
    if mode in ("rzero", "bothzero"):
        rop = zero(rop, zero_i, draw(st.sampled_from(["dim", "quantity", "bare+dim"])))
    if mode == "fzero-l":
        lop = zero(lop, zero_f, "dim")
        if draw(st.booleans()):
            rop = zero(rop, draw(st.sampled_from([zero_i, zero_f])), "dim")
    if mode == "fzero-r":
        rop = zero(rop, zero_f, draw(st.sampled_from(["dim", "bare+dim"])))
        if draw(st.booleans()):
            lop = zero(lop, draw(st.sampled_from([zero_i, zero_f])), "dim")
    if mode in ("lzero", "rzero", "fzero-l", "fzero-r") and draw(st.booleans()):
        # make the value verdict a must-pass: absolute tolerance above the surviving operand
        big = max(abs(x) for x in (*op_si(lop), *op_si(rop)))
        if big:
            case["abs"] = repr(float(_round_sig(big * Fraction(draw(st.integers(12, 90)), 10), 3)))
    case["l"], case["r"] = lop, rop
    case["mode"] = mode
    return case


@st.composite
def numbers_case(draw: Any) -> dict[str, Any]:
    vp_ = draw(value_pair(0, allow_complex=False))
    l, r = (vp_["a"][0], vp_["b"][0]) if vp_["anchor_lhs"] else (vp_["b"][0], vp_["a"][0])
    return {"kind": "numbers", "l": _numdesc(l, True), "r": _numdesc(r, True), "rel": vp_["rel"], "abs": vp_["abs"],
        "pert": vp_["pert"], "target": vp_["target"], "side": vp_["side"]}


@st.composite
def vector_case(draw: Any) -> dict[str, Any]:
    cls = draw(st.sampled_from(CLASS_NAMES))
    units = CLASSES[cls]
    mass_exp = int(class_dim(cls)[1])
    n = draw(st.sampled_from([0, 1, 2, 2, 3, 3, 3]))
    shape = draw(st.sampled_from(["equal-len"] * 6 + ["shorter", "longer", "other-dim"]))
    first = draw(value_pair(mass_exp, allow_complex=False))
    rel_s, abs_s = first["rel"], first["abs"]
    rel = Fraction(float(rel_s)) if rel_s is not None else DEFAULT_REL
    ab = Fraction(float(abs_s)) if abs_s is not None else None
    pidx = draw(st.integers(0, max(0, n - 1)))
    lc, rc = [], []
    for i in range(n):
        if i == pidx and shape == "equal-len":
            a, b = first["a"][0], first["b"][0]
        else:
            a = draw(anchor_st()) if draw(st.integers(0, 5)) else Fraction(0)
            # an agreeing component: identical, or well within the must-pass threshold
            thr = _thresholds(Fraction(0), rel, ab, mass_exp, "P")(_mp(abs(a)))
            b = a if draw(st.booleans()) else a - _mp_to_fraction(thr * draw(st.integers(1, 80)) / 100, 6)
        if not first["anchor_lhs"]:
            a, b = b, a
        lu = draw(st.sampled_from(units))
        ru = draw(st.sampled_from(units))
        fl = draw(st.integers(0, 4)) == 0
        lc.append(_operand((a, None), lu, "quantity", fl))
        rc.append(_operand((b, None), ru, "quantity", draw(st.integers(0, 4)) == 0))
    case: dict[str, Any] = {"kind": "vector", "cls": cls, "rel": rel_s, "abs": abs_s, "shape": shape,
        "pert": first["pert"] if (shape == "equal-len" and n) else "none", "target": first["target"], "side": first["side"]}
    if shape == "shorter" and rc:
        rc = rc[:-1]
    elif shape == "shorter":
        lc = [_operand((Fraction(3), None), units[0], "quantity", False)]
    elif shape == "longer":
        rc = rc + [_operand((draw(anchor_st()), None), draw(st.sampled_from(units)), "quantity", False)]
    elif shape == "other-dim":
        ocls = draw(st.sampled_from([c for c in CLASS_NAMES if c != cls]))
        ou = CLASSES[ocls]
        og, lg = Fraction(1000)**int(class_dim(ocls)[1]), Fraction(1000)**mass_exp
        # same scale factors on both sides, different dimension
        rc = [_operand((op_si(c)[0] * lg / og, None), draw(st.sampled_from(ou)), "quantity", False) for c in lc]
        case["cls"] = cls + "|" + ocls
    case["l"], case["r"] = lc, rc
    return case


@st.composite
def inf_case(draw: Any) -> dict[str, Any]:
    lcls = draw(st.sampled_from(CLASS_NAMES))
    rcls = lcls if draw(st.booleans()) else draw(st.sampled_from(CLASS_NAMES))
    lu, ru = draw(st.sampled_from(CLASSES[lcls])), draw(st.sampled_from(CLASSES[rcls]))
    which = draw(st.sampled_from(["l", "l", "r", "r", "both"]))
    inf = lambda: ["inf", draw(st.sampled_from([1, 1, -1]))]  # noqa: E731  pylint: disable=unnecessary-lambda-assignment
    fin = draw(anchor_st())
    rel_s, abs_s = draw(tol_st(fin))
    lop = _operand((fin, None), lu, draw(st.sampled_from(["quantity", "dim"])), False)
    rop = _operand((fin, None), ru, draw(st.sampled_from(["quantity", "dim"])), False)
    if which in ("l", "both"):
        lop["re"] = inf()
    if which in ("r", "both"):
        rop["re"] = inf()
    return {"kind": "inf", "cls": lcls + "|" + rcls, "l": lop, "r": rop, "rel": rel_s, "abs": abs_s}


@st.composite
def case_strategy(draw: Any, no_inf: bool = False) -> dict[str, Any]:
    kind = draw(st.sampled_from(["pair"] * 22 + ["ineq"] * 8 + ["numbers"] * 4 + ["vector"] * 6 + ["fexp", "dimkw"] + ([] if no_inf else ["inf"])))
    if kind == "fexp":
        return draw(fexp_case())
    if kind == "dimkw":
        return draw(dimkw_case())
    if kind == "inf":
        return draw(inf_case())
    if kind == "pair":
        return draw(pair_case())
    if kind == "ineq":
        return draw(inequivalent_case())
    if kind == "numbers":
        return draw(numbers_case())
    return draw(vector_case())


# ------------------------------------------------------------------------------------------------
# driver


def _strip_float_zero(case: dict[str, Any]) -> tuple[dict[str, Any], bool]:
    """Exclusion switch for KEY_FZ: the float zeros of a pair with inequivalent dimensions become integer zeros."""
    if case["kind"] != "pair" or op_dim(case["l"]).same(op_dim(case["r"])):
        return case, False
    changed = False
    new = dict(case)
    for side in ("l", "r"):
        op = case[side]
        if op_has_float_zero(op):
            new[side] = {**op, "re": ["int", 0], "im": None if op.get("im") is None else ["int", 0]}
            changed = True
    return new, changed


# ------------------------------------------------------------------------------------------------
# inequivalent dimensions that differ only by a NON-integral exponent written as a float (m**1.5 against m**2,
# Hz**0.5 against a pure number): equal scale factors, so only the dimension check stands between them and acceptance


@st.composite
def dimkw_case(draw: Any) -> dict[str, Any]:
    """Two QUANTITIES of inequivalent dimensions with the same scale factor, compared with an explicit dimension= keyword
    (which the property says only gives a bare number its dimension)."""
    pair = draw(st.sampled_from([("second", "meter"), ("newton", "joule"), ("meter", "second"), ("volt", "ampere"), ("kelvin", "second"),
        ("hertz", "meter")]))
    return {"kind": "dimkw", "units": list(pair), "num": draw(st.integers(2, 99)), "kw": draw(st.sampled_from(["lhs", "rhs"])),
        "entry": draw(st.sampled_from(["assert_equal", "vector"]))}


def judge_dimkw(case: dict[str, Any]) -> tuple[list[tuple[str, str]], list[str], bool]:
    from sympy.physics import units as su
    from symplyphysics import Quantity, QuantityVector
    from symplyphysics.core.approx import assert_equal, assert_equal_vectors
    ul, ur = (getattr(su, n) for n in case["units"])
    a, b = Quantity(case["num"] * ul), Quantity(case["num"] * ur)
    kwdim = a.dimension if case["kw"] == "lhs" else b.dimension
    labels = ["dimkw:" + case["entry"], "dimkw:keyword=" + case["kw"]]

    def call() -> Any:
        if case["entry"] == "vector":
            return assert_equal_vectors(QuantityVector([a, a]), QuantityVector([b, b]), dimension=kwdim)
        return assert_equal(a, b, dimension=kwdim)

    try:
        outcome = _outcome(call)
    except TypeError:
        return [], labels + ["dimkw:signature-without-dimension"], False
    labels.append("dimkw:outcome=" + outcome.split(":")[0])
    if outcome == "pass":
        return [("accepted-inequivalent-dimensions:dimension-keyword",
            f"{case['entry']}({case['num']} {case['units'][0]}, {case['num']} {case['units'][1]}, dimension={kwdim}) passed: the keyword "
            f"re-labelled a quantity")], labels, True
    return [], labels, True


@st.composite
def fexp_case(draw: Any) -> dict[str, Any]:
    return {"kind": "fexp", "unit": draw(st.sampled_from(["meter", "second", "hertz", "kilogram", "ampere", "kelvin"])),
        "exp": draw(st.sampled_from(["0.5", "1.5", "2.5", "-0.5", "-1.5", "0.25"])),
        "other": draw(st.sampled_from(["round-half-even", "floor", "ceil"])),
        "num": draw(st.integers(2, 99)), "entry": draw(st.sampled_from(["assert_equal", "approx_equal_quantities", "bare-rhs", "vector"])),
        "swap": draw(st.booleans())}


def judge_fexp(case: dict[str, Any]) -> tuple[list[tuple[str, str]], list[str], bool]:
    import math
    import sympy
    from sympy.physics import units as su
    from symplyphysics import Quantity, QuantityVector
    from symplyphysics.core.approx import approx_equal_quantities, assert_equal, assert_equal_vectors
    e = float(case["exp"])
    n = {"round-half-even": round(e), "floor": math.floor(e), "ceil": math.ceil(e)}[case["other"]]
    u = getattr(su, case["unit"])
    # the scale factor (gram-based for mass) of both operands is the same number
    gram = sympy.Integer(1000) if case["unit"] == "kilogram" else sympy.Integer(1)
    x = sympy.Integer(case["num"])
    a = Quantity(x * u**sympy.Float(e))
    sf = sympy.sympify(a.scale_factor)
    b_val = sf / gram**n
    b: Any = Quantity(b_val * u**n) if n != 0 else Quantity(b_val)
    labels = ["fexp:" + case["entry"], "fexp:other=" + ("number" if n == 0 else "integer-power")]
    lhs, rhs = (b, a) if case["swap"] else (a, b)
    entry = case["entry"]
    if entry == "bare-rhs":
        if n != 0:
            return [], labels + ["fexp:degenerate"], False
        lhs, rhs = a, b_val  # a bare number on the right, no dimension argument

    def call() -> Any:
        if entry == "approx_equal_quantities":
            return approx_equal_quantities(lhs, rhs)
        if entry == "vector":
            return assert_equal_vectors(QuantityVector([lhs, lhs]), QuantityVector([rhs, rhs]))
        return assert_equal(lhs, rhs)

    outcome = _outcome(call)
    labels.append("fexp:outcome=" + outcome.split(":")[0])
    if outcome in ("pass",):
        return [("accepted-inequivalent-dimensions:float-exponent",
            f"{entry}({lhs.dimension if hasattr(lhs, 'dimension') else lhs} value {x}, {getattr(rhs, 'dimension', rhs)}) passed although the "
            f"dimensions {case['unit']}**{e} and {case['unit']}**{n} are inequivalent")], labels, True
    return [], labels, True


def _is_inf(x: Any) -> bool:
    if isinstance(x, dict):
        return any(_is_inf(v) for v in x.values())
    if isinstance(x, (list, tuple)):
        return (len(x) == 2 and x[0] == "inf") or any(_is_inf(v) for v in x)
    return False


def _has_float(x: Any) -> bool:
    if isinstance(x, dict):
        return any(_has_float(v) for v in x.values())
    if isinstance(x, (list, tuple)):
        return (len(x) == 2 and x[0] == "float") or any(_has_float(v) for v in x)
    return False


def _inexact_units(x: Any) -> bool:
    if isinstance(x, dict):
        if "unit" in x and isinstance(x["unit"], list):
            try:
                if not UX.is_exact(x["unit"]):
                    return True
            except Exception:  # pylint: disable=broad-except
                return True
        return any(_inexact_units(v) for v in x.values())
    if isinstance(x, (list, tuple)):
        return any(_inexact_units(v) for v in x)
    return False


def judge(case: dict[str, Any], excluded: frozenset[str] = frozenset()) -> tuple[list[tuple[str, str]], list[str], bool]:
    if case.get("rel") is not None and float(case["rel"]) == 0.0 and case.get("kind") in ("pair", "vector", "numbers") and \
            not any(_is_inf(v) for v in (case,)) and (_has_float(case) or _inexact_units(case)):
        # a stated ZERO relative tolerance asks for exact agreement: with float operands or float unit factors the verdict
        # hinges on the last bit of a double-precision product, which the property does not pin down
        return [], [case["kind"], "zero-relative-tolerance-with-floats:unjudged"], False
    extra = []
    if KEY_FZ in excluded:
        case, changed = _strip_float_zero(case)
        if changed:
            extra.append("excluded:" + KEY_FZ)
    kind = case["kind"]
    if kind == "pair":
        res, labels, nt = judge_pair(case)
    elif kind == "numbers":
        res, labels, nt = judge_numbers(case)
    elif kind == "vector":
        res, labels, nt = judge_vector(case)
    elif kind == "inf":
        res, labels, nt = judge_inf(case)
    elif kind == "fexp":
        res, labels, nt = judge_fexp(case)
    elif kind == "dimkw":
        res, labels, nt = judge_dimkw(case)
    else:
        raise ValueError(kind)
    return res, labels + extra, nt


def _shard(task: dict[str, Any]) -> Recorder:
    rec = Recorder()
    excluded = frozenset(task["excluded"])

    def body(case: dict[str, Any]) -> None:
        res, labels, nt = judge(case, excluded)
        for key, what in res:
            if not key.startswith("__"):
                rec.violation(key, what, case)
        rec.case(case, nontrivial=nt, labels=[case["kind"]] + sorted(set(labels)))

    hyp_run(case_strategy(no_inf=KEY_INF in excluded), body, task["n"], task["seed"])
    if KEY_INF in excluded:
        rec.count("excluded:" + KEY_INF + " (class not generated)", 1)
    return rec


def run(ctx: Ctx) -> None:
    MU.selfcheck()
    n = int(os.environ.get("VERIF_N", "0") or 0) or ctx.pick(20000, 400000)  # VERIF_N: development override only
    excluded = sorted({k["key"] for k in ctx.known if k.get("status") == "open"} & {KEY_FZ, KEY_INF})
    tasks = [{"n": c, "seed": ctx.seed * 1000 + i, "excluded": excluded} for i, c in enumerate(shard_counts(n, 16))]
    import symplyphysics  # noqa: F401  pylint: disable=unused-import,import-outside-toplevel
    import symplyphysics.core.approx  # noqa: F401  pylint: disable=unused-import,import-outside-toplevel
    for status, val in run_tasks(_shard, tasks):
        if status != "ok":
            raise RuntimeError(f"C08 shard failed: {status}: {val}")
        ctx.merge(val)
    ctx.assumptions += [
        "band semantics of the property text: must-fail D > max(abs, rel*M); must-pass D <= abs if stated else D <= rel*M; the "
        "strip in between is counted, not judged; with a stated absolute tolerance must-pass is D <= max(abs, rel*min(|l|,|r|)) (max rule)",
        "complex operands: must-fail uses rel*max modulus, must-pass rel*max |part| (judged only where both readings of 'larger "
        "magnitude' agree)",
        "dimensions with a mass exponent: the stated absolute tolerance is judged only where reading it in SI (kg) and reading it "
        "as a gram-based scale factor agree; a bare number under dimension=d is a gram-based scale factor (== Quantity(x, dimension=d))",
        "inequivalent dimensions: AssertionError/False/UnitsError/TypeError all count as failing; zero operands are wildcards "
        "(judged on value only)",
        "cases within 1e-13*|part| + 1e-9*boundary of any boundary are discarded (float rounding of pytest.approx is ~1e-15*|part|)",
    ]
    if excluded:
        ctx.notes["excluded_input_classes"] = excluded
    known = {k["key"] for k in ctx.known}
    seen: set[str] = set()
    ex = frozenset(excluded)
    for v in list(ctx.violations):
        key = v["key"]
        if key in seen or key in known:
            continue
        seen.add(key)
        small = shrink(v["case"], _candidates, lambda c, key=key: any(k == key for k, _ in judge(c, ex)[0]),
            budget_s=ctx.pick(10, 40))
        res = [w for k, w in judge(small, ex)[0] if k == key]
        if res:
            ctx.violation(key, res[0], small)


def _candidates(case: dict[str, Any]) -> Any:
    kind = case["kind"]
    for drop in ("alt", "target", "side", "mode", "scale_equal"):
        if drop in case:
            yield {k: v for k, v in case.items() if k != drop}
    if kind in ("pair", "inf"):
        for side in ("l", "r"):
            op = case[side]
            if op.get("im") is not None and case["l"].get("im") is not None and case["r"].get("im") is not None:
                yield {**case, "l": {**case["l"], "im": None}, "r": {**case["r"], "im": None}}
            if op["form"] == "raw":
                yield {**case, side: {**op, "form": "quantity"}}
            for i, t in enumerate(op["unit"]):
                if t[1]:
                    yield {**case, side: {**op, "unit": op["unit"][:i] + [[t[0], "", t[2]]] + op["unit"][i + 1:]}}
        if case.get("rel") is not None:
            yield {**case, "rel": None}
        if case.get("abs") is not None:
            yield {**case, "abs": None}
    elif kind == "vector":
        n = min(len(case["l"]), len(case["r"]))
        for i in range(n):
            yield {**case, "l": case["l"][:i] + case["l"][i + 1:], "r": case["r"][:i] + case["r"][i + 1:]}
        if case.get("rel") is not None:
            yield {**case, "rel": None}
        if case.get("abs") is not None:
            yield {**case, "abs": None}


def replay(case: dict[str, Any]) -> list[tuple[str, str]]:
    return [(k, w) for k, w in judge(case)[0] if not k.startswith("__")]
