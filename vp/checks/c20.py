"""C20 - physical constants carry reference values and dimensions.

Finite space, enumerated exhaustively: every name in symplyphysics.quantities.__all__ (plus every other
public Quantity-typed attribute of the module, so nothing hides outside __all__) x every unit view, and
the seven identities of the property. Oracle: a reference table typed into this file from CODATA
2018 / CODATA 2022 / IAU 2015 (value, dimension vector, tolerance rule, source); unit views go through
the hand-typed M-units table. Nothing here reads a value from the library to decide what is right.
"""
from __future__ import annotations

import ast
import re
from typing import Any

from ..boot import Ctx
from ..model import dims as mdims
from ..model import units as munits
from ..model.units import CHARGE, ENERGY, FORCE, I, K, L, M, N, ONE, POWER, RESIST, T

PID = "C20"
RULE = ("Exhaustive enumeration: every constant of symplyphysics.quantities (names in __all__ and any other public "
    "Quantity-typed module attribute) x every unit view of its dimension (coherent SI, CGS-style, every M-units unit of "
    "the same dimension, every named derived unit x SI remainder; thorough adds all 20 SI prefixes on every base factor) "
    "compared with a reference table typed from CODATA 2018/2022 and IAU 2015; tolerance: exact SI-defining constants "
    "1e-12, constants derived from them 1e-9, literals one unit of the last digit written in quantities/__init__.py "
    "(parsed from the source) or the docstring's stated relative uncertainty if larger; plus the seven identities at "
    "1e-9 with the dimension of each side; plus the __all__ scan. A case is non-trivial when the constant's dimension "
    "involves >= 2 base dimensions; distinct non-trivial cases are counted per constant (views of one constant count once). "
    "Histories: Hypothesis-generated sequences (1-6 steps) of ordinary public-API uses of catalogue constants (Quantity(c), "
    "Quantity(c, dimension=...), renamed copies, products, ratios, powers, conversions, approximate comparison, abs, reduced-precision evalf, a second thread, copy.copy / deepcopy and pickle "
    "round trips of the constant and of expressions containing it), each in "
    "a forked process of its own, after which the whole table and the identities are judged again; non-trivial = two or "
    "more steps or a copy-constructing step.")

# If True, a public Quantity-typed attribute that is missing from __all__ is reported as a violation; otherwise it is
# enumerated and judged like an exported constant and listed in the evidence (coverage.not_in___all__).
ALL_OMISSION_IS_VIOLATION = False

EXACT, DERIVED, LITERAL = "exact", "derived", "literal"
TOL = {EXACT: "1e-12", DERIVED: "1e-9"}

# name -> (dimension vector, tolerance rule, [(reference SI value, source)], what)
REF: dict[str, tuple[Any, str, list[tuple[str, str]], str]] = {
    "standard_conditions_temperature": (K, EXACT, [("273.15", "IUPAC STP / SI definition of 0 degC")], "0 degC"),
    "standard_laboratory_temperature": (K, LITERAL, [("298.15", "25 degC, IUPAC SATP")], "25 degC"),
    "electron_rest_mass": (M, LITERAL, [("9.1093837015e-31", "CODATA 2018 m_e"), ("9.1093837139e-31", "CODATA 2022 m_e")],
        "electron mass"),
    "bohr_radius": (L, LITERAL, [("5.29177210903e-11", "CODATA 2018 a_0"), ("5.29177210544e-11", "CODATA 2022 a_0")],
        "Bohr radius"),
    "hydrogen_ionization_energy": (ENERGY, LITERAL, [("2.1798723611035e-18", "CODATA 2018 Rydberg energy hcR_inf = 13.605693122994 eV"),
        ("2.17870932e-18", "NIST ASD hydrogen ionization energy 13.598434 eV")], "ionisation energy of hydrogen"),
    "solar_mass": (M, LITERAL, [("1.98841e30", "IAU 2015 B3 nominal GM_sun 1.3271244e20 m3 s-2 / CODATA 2018 G"),
        ("1.9884e30", "Astronomical Almanac 2020")], "mass of the Sun"),
    "earth_mass": (M, LITERAL, [("5.97217e24", "IAU 2015 B3 nominal GM_earth 3.986004e14 m3 s-2 / CODATA 2018 G"),
        ("5.9722e24", "Astronomical Almanac 2020")], "mass of the Earth"),
    "boltzmann_constant": (ENERGY / K, EXACT, [("1.380649e-23", "SI 2019 definition / CODATA 2018")], "k_B"),
    "molar_gas_constant": (ENERGY / K / N, DERIVED, [("8.31446261815324", "CODATA 2018 R = k_B N_A (exact)")], "R"),
    "speed_of_light": (L / T, EXACT, [("299792458", "SI definition")], "c"),
    "vacuum_permittivity": (CHARGE**2 / (ENERGY * L), DERIVED, [("8.8541878128e-12", "CODATA 2018 eps_0"),
        ("8.8541878188e-12", "CODATA 2022 eps_0")], "eps_0"),
    "vacuum_permeability": (FORCE / I**2, DERIVED, [("1.25663706212e-6", "CODATA 2018 mu_0"),
        ("1.25663706127e-6", "CODATA 2022 mu_0")], "mu_0"),
    "elementary_charge": (CHARGE, EXACT, [("1.602176634e-19", "SI 2019 definition / CODATA 2018")], "e"),
    "hbar": (ENERGY * T, DERIVED, [("1.054571817646156e-34", "CODATA 2018 hbar = h/2pi (exact)")], "hbar"),
    "planck": (ENERGY * T, EXACT, [("6.62607015e-34", "SI 2019 definition / CODATA 2018")], "h"),
    "avogadro_constant": (ONE / N, EXACT, [("6.02214076e23", "SI 2019 definition / CODATA 2018")], "N_A"),
    "acceleration_due_to_gravity": (L / T**2, EXACT, [("9.80665", "CGPM 1901 standard gravity / CODATA")], "g_n"),
    "stefan_boltzmann_constant": (POWER / L**2 / K**4, DERIVED, [("5.670374419184e-8", "CODATA 2018 sigma (exact)")], "sigma"),
    "richardson_constant": (I / L**2 / K**2, LITERAL, [("1.2017323e6", "A_0 = 4 pi m_e k_B^2 e / h^3 from CODATA 2018 (= 120.173 A cm-2 K-2)")],
        "Richardson constant"),
    "rydberg_frequency": (ONE / T, LITERAL, [("3.2898419602508e15", "CODATA 2018 cR_inf"), ("3.2898419602500e15", "CODATA 2022 cR_inf")],
        "Rydberg frequency"),
    "wien_displacement_constant": (L * K, LITERAL, [("2.897771955185e-3", "CODATA 2018 b (exact)")], "Wien displacement constant"),
    "gravitational_constant": (L**3 / M / T**2, LITERAL, [("6.67430e-11", "CODATA 2018 and 2022 G")], "G"),
    "hubble_constant": (ONE / T, LITERAL, [("2.1843e-18", "Planck 2018 H_0 = 67.4 km/s/Mpc (PDG 2022)"),
        ("2.3658e-18", "SH0ES 2022 H_0 = 73.0 km/s/Mpc")], "Hubble constant"),
    "zero_point_luminosity": (POWER, EXACT, [("3.0128e28", "IAU 2015 Resolution B2 (exact by definition)")], "L_0"),
    "sun_luminosity": (POWER, LITERAL, [("3.828e26", "IAU 2015 Resolution B3 nominal solar luminosity"),
        ("3.8275e26", "Prsa et al. 2016 (basis of IAU 2015 B3), measured")], "L_sun"),
    "faraday_constant": (CHARGE / N, DERIVED, [("96485.33212331", "CODATA 2018 F = e N_A (exact)")], "F"),
    "vacuum_impedance": (RESIST, LITERAL, [("376.730313668", "CODATA 2018 Z_0"), ("376.730313412", "CODATA 2022 Z_0")], "Z_0"),
}

WIEN_X = "4.965114"  # the property's own rounding of the root of x e^x / (e^x - 1) = 5

# id -> (text, names used)
IDENTITIES: dict[str, tuple[str, list[str]]] = {
    "R=kB*NA": ("R = k_B N_A", ["molar_gas_constant", "boltzmann_constant", "avogadro_constant"]),
    "F=e*NA": ("F = e N_A", ["faraday_constant", "elementary_charge", "avogadro_constant"]),
    "hbar=h/2pi": ("hbar = h / (2 pi)", ["hbar", "planck"]),
    "eps0*mu0*c^2=1": ("eps0 mu0 c^2 = 1", ["vacuum_permittivity", "vacuum_permeability", "speed_of_light"]),
    "Z0=mu0*c": ("Z0 = mu0 c", ["vacuum_impedance", "vacuum_permeability", "speed_of_light"]),
    "sigma": ("sigma = 2 pi^5 k_B^4 / (15 h^3 c^2)", ["stefan_boltzmann_constant", "boltzmann_constant", "planck",
        "speed_of_light"]),
    "b=hc/(x*kB)": ("b = h c / (4.965114 k_B)", ["wien_displacement_constant", "planck", "speed_of_light",
        "boltzmann_constant"]),
}

Viol = tuple[str, str]


_MPX: Any = None


def _mp() -> Any:
    # a private 40-digit context: mpmath's global context belongs to the library under test
    global _MPX  # pylint: disable=global-statement
    if _MPX is None:
        import mpmath  # pylint: disable=import-outside-toplevel
        _MPX = mpmath.mp.clone()
        _MPX.dps = 40
    return _MPX


def _mpf(x: Any) -> Any:
    import sympy  # pylint: disable=import-outside-toplevel
    mp = _mp()
    if isinstance(x, str):
        return mp.mpf(x)
    v = sympy.N(sympy.sympify(x), 40)
    if not v.is_real:
        raise ValueError(f"not a real number: {x}")
    return mp.mpf(str(v))


def _identity_sides(idn: str, v: dict[str, Any]) -> tuple[Any, Any]:
    """(lhs, rhs) of one identity from a name->value mapping; the same code serves values and DimVecs."""
    mp = _mp()
    pi = mp.pi
    if idn == "R=kB*NA":
        return v["molar_gas_constant"], v["boltzmann_constant"] * v["avogadro_constant"]
    if idn == "F=e*NA":
        return v["faraday_constant"], v["elementary_charge"] * v["avogadro_constant"]
    if idn == "hbar=h/2pi":
        return v["hbar"], v["planck"] / (2 * pi)
    if idn == "eps0*mu0*c^2=1":
        return v["vacuum_permittivity"] * v["vacuum_permeability"] * v["speed_of_light"]**2, mp.mpf(1)
    if idn == "Z0=mu0*c":
        return v["vacuum_impedance"], v["vacuum_permeability"] * v["speed_of_light"]
    if idn == "sigma":
        return v["stefan_boltzmann_constant"], (2 * pi**5 * v["boltzmann_constant"]**4 /
            (15 * v["planck"]**3 * v["speed_of_light"]**2))
    if idn == "b=hc/(x*kB)":
        return v["wien_displacement_constant"], v["planck"] * v["speed_of_light"] / (mp.mpf(WIEN_X) *
            v["boltzmann_constant"])
    raise ValueError(idn)


def _identity_dims(idn: str, d: dict[str, Any]) -> tuple[Any, Any]:
    if idn == "R=kB*NA":
        return d["molar_gas_constant"], d["boltzmann_constant"] * d["avogadro_constant"]
    if idn == "F=e*NA":
        return d["faraday_constant"], d["elementary_charge"] * d["avogadro_constant"]
    if idn == "hbar=h/2pi":
        return d["hbar"], d["planck"]
    if idn == "eps0*mu0*c^2=1":
        return d["vacuum_permittivity"] * d["vacuum_permeability"] * d["speed_of_light"]**2, ONE
    if idn == "Z0=mu0*c":
        return d["vacuum_impedance"], d["vacuum_permeability"] * d["speed_of_light"]
    if idn == "sigma":
        return d["stefan_boltzmann_constant"], d["boltzmann_constant"]**4 / (d["planck"]**3 * d["speed_of_light"]**2)
    if idn == "b=hc/(x*kB)":
        return d["wien_displacement_constant"], d["planck"] * d["speed_of_light"] / d["boltzmann_constant"]
    raise ValueError(idn)


# ------------------------------------------------------------------------------------------------
# source text: significant digits of literals, stated uncertainties

_NUM = re.compile(r"^(\d[\d_]*)(?:\.([\d_]*))?(?:[eE]([+-]?\d+))?$")
_UNC = re.compile(r"relative\s+uncertainty[^`]*:math:`([^`]*)`", re.S)
_UNC_NUM = re.compile(r"^\s*(?:(\d+(?:\.\d+)?)\s*\\cdot\s*)?10\^\{?\s*(-?\d+)\s*\}?\s*$")


def literal_rel_ulp(text: str) -> Any:
    """One unit of the last written digit, relative to the literal (None when the text is not a plain number).
    Trailing zeros of an integer literal are read as not significant (lenient)."""
    mp = _mp()
    m = _NUM.match(text.strip())
    if not m:
        return None
    ip, fp, ex = m.group(1).replace("_", ""), (m.group(2) or "").replace("_", ""), int(m.group(3) or 0)
    val = mp.mpf(text.replace("_", ""))
    if val == 0:
        return None
    if m.group(2) is None:
        zeros = len(ip) - len(ip.rstrip("0")) if len(ip.rstrip("0")) else 0
        ulp = mp.mpf(10)**(ex + zeros)
    else:
        ulp = mp.mpf(10)**(ex - len(fp))
    return ulp / abs(val)


def source_facts(path: str) -> dict[str, dict[str, Any]]:
    """name -> {"literals": [source text...], "rel_ulp": sum of relative last-digit units or None,
    "uncertainty": relative uncertainty stated in the docstring or None}."""
    mp = _mp()
    src = open(path, encoding="utf-8").read()
    tree = ast.parse(src)
    out: dict[str, dict[str, Any]] = {}
    body = tree.body
    for i, node in enumerate(body):
        if not (isinstance(node, ast.Assign) and len(node.targets) == 1 and isinstance(node.targets[0], ast.Name)):
            continue
        call = node.value
        if not (isinstance(call, ast.Call) and getattr(call.func, "id", getattr(call.func, "attr", "")) == "Quantity"):
            continue
        lits: list[str] = []
        if call.args:
            exponents = {id(n.right) for n in ast.walk(call.args[0]) if isinstance(n, ast.BinOp) and isinstance(n.op, ast.Pow)}
            for n in ast.walk(call.args[0]):
                if isinstance(n, ast.Constant) and isinstance(n.value, (int, float)) and not isinstance(n.value, bool) \
                        and id(n) not in exponents:
                    lits.append(ast.get_source_segment(src, n) or repr(n.value))
        rel = None
        for t in lits:
            r = literal_rel_ulp(t)
            if r is not None:
                rel = r if rel is None else rel + r
        unc = None
        if i + 1 < len(body) and isinstance(body[i + 1], ast.Expr) and isinstance(getattr(body[i + 1], "value", None), ast.Constant) \
                and isinstance(body[i + 1].value.value, str):  # type: ignore[attr-defined]
            m = _UNC.search(body[i + 1].value.value)  # type: ignore[attr-defined]
            if m:
                mm = _UNC_NUM.match(m.group(1))
                if mm:
                    unc = mp.mpf(mm.group(1) or "1") * mp.mpf(10)**int(mm.group(2))
        out[node.targets[0].id] = {"literals": lits, "rel_ulp": rel, "uncertainty": unc}
    return out


def tolerance(name: str, facts: dict[str, dict[str, Any]]) -> tuple[Any, str]:
    """Relative tolerance of one row and how it was obtained."""
    mp = _mp()
    rule = REF[name][1]
    if rule in TOL:
        return mp.mpf(TOL[rule]), rule
    f = facts.get(name, {})
    rel, unc = f.get("rel_ulp"), f.get("uncertainty")
    if rel is None and unc is None:
        return mp.mpf(TOL[DERIVED]), "no literal in the source: 1e-9"
    best = max(x for x in (rel, unc) if x is not None)
    how = f"literal(s) {f.get('literals')}: last digit = {mp.nstr(rel, 3) if rel is not None else None} relative"
    if unc is not None:
        how += f"; docstring uncertainty {mp.nstr(unc, 3)}"
    return max(best * (1 + mp.mpf("1e-6")), mp.mpf("1e-12")), how


# ------------------------------------------------------------------------------------------------
# views

SI_NAMES = ("meter", "kilogram", "second", "ampere", "kelvin", "mole", "candela")
_CGS = {"meter": "centimeter", "kilogram": "gram"}


def _si_view(d: Any) -> list[list[Any]]:
    return [[n, int(e), None] for n, e in zip(SI_NAMES, d) if e != 0]


def _l1(d: Any) -> int:
    return int(sum(abs(e) for e in d))


def views_of(d: Any, prefixes: bool) -> list[list[list[Any]]]:
    """Unit expressions of dimension d as lists of [unit name, exponent, prefix name or None]."""
    out: list[list[list[Any]]] = []
    si = _si_view(d)
    out.append(si)
    cgs = [[_CGS.get(n, n), e, p] for n, e, p in si]
    if cgs != si:
        out.append(cgs)
    for n in munits.names_of_dim(d):
        if [[n, 1, None]] != si:
            out.append([[n, 1, None]])
    for n, (_f, dv, _x) in munits.TABLE.items():
        if dv.n_nonzero < 2:
            continue
        rest = d / dv
        if rest.n_nonzero and _l1(rest) < _l1(d):
            out.append([[n, 1, None]] + _si_view(rest))
    if prefixes:
        for i, (n, e, _p) in enumerate(si):
            base = "gram" if n == "kilogram" else n
            for p in munits.PREFIXES:
                out.append(si[:i] + [[base, e, p]] + si[i + 1:])
    seen: set[str] = set()
    uniq = []
    for v in out:
        k = repr(v)
        if k not in seen:
            seen.add(k)
            uniq.append(v)
    return uniq


def _view_objects(view: list[list[Any]]) -> tuple[Any, Any]:
    """(library unit expression, model factor in coherent SI units)."""
    import sympy  # pylint: disable=import-outside-toplevel
    from sympy.physics.units import prefixes as P  # pylint: disable=import-outside-toplevel
    expr: Any = sympy.S.One
    fac: Any = sympy.S.One
    for n, e, p in view:
        u = munits.lib_unit(n)
        f = munits.factor(n)
        if p is not None:
            u = getattr(P, p) * u
            f = f * munits.prefix_factor(p)
        expr = expr * u**e
        fac = fac * f**e
    return expr, fac


# ------------------------------------------------------------------------------------------------
# judging


class Table:
    """Library side, read once."""

    def __init__(self) -> None:
        from symplyphysics import quantities  # pylint: disable=import-outside-toplevel
        from sympy.physics.units import Quantity as SymQuantity  # pylint: disable=import-outside-toplevel
        self.module = quantities
        self.exported = list(quantities.__all__)
        self.public = sorted(n for n, o in vars(quantities).items() if isinstance(o, SymQuantity) and not n.startswith("_"))
        self.names = self.exported + [n for n in self.public if n not in self.exported]
        self.facts = source_facts(quantities.__file__)

    def get(self, name: str) -> Any:
        return getattr(self.module, name, None)


def si_value_from_scale(q: Any) -> Any:
    """SI value by the model's own reading of the stored scale factor (SymPy keeps mass in grams)."""
    mp = _mp()
    d = mdims.from_lib(q.dimension)
    return _mpf(q.scale_factor) / mp.mpf(1000)**int(d[1])


def judge_constant(tb: Table, name: str) -> list[Viol]:
    from sympy.physics.units import Quantity as SymQuantity  # pylint: disable=import-outside-toplevel
    from symplyphysics import convert_to_si  # pylint: disable=import-outside-toplevel
    mp = _mp()
    q = tb.get(name)
    if not isinstance(q, SymQuantity):
        return [(f"__all__:dangling:{name}", f"{name} is listed in __all__ but is {type(q).__name__}, not a Quantity")]
    want_dim, _rule, refs, what = REF[name]
    out: list[Viol] = []
    try:
        got_dim = mdims.from_lib(q.dimension)
    except mdims.NotADimension as exc:
        return [(f"dimension:{name}", f"{name} ({what}) has a dimension outside the SI base: {exc}")]
    if not got_dim.same(want_dim):
        out.append((f"dimension:{name}", f"{name} ({what}) has dimension {got_dim.text()}, reference {want_dim.text()}"))
        return out
    tol, how = tolerance(name, tb.facts)
    si = si_value_from_scale(q)
    errs = [(abs(si - mp.mpf(r)) / abs(mp.mpf(r)), r, src) for r, src in refs]
    best = min(errs, key=lambda t: t[0])
    if best[0] > tol:
        out.append((f"value:{name}", f"{name} ({what}) = {mp.nstr(si, 15)} SI; nearest reference {best[1]} ({best[2]}): "
            f"relative deviation {mp.nstr(best[0], 3)} > tolerance {mp.nstr(tol, 3)} [{how}]"))
    via = _mpf(convert_to_si(q))
    if abs(via - si) > mp.mpf("1e-12") * abs(si):
        out.append((f"convert_to_si:{name}", f"convert_to_si({name}) = {mp.nstr(via, 15)} but scale factor says {mp.nstr(si, 15)}"))
    return out


def judge_view(tb: Table, name: str, view: list[list[Any]]) -> list[Viol]:
    from symplyphysics import convert_to  # pylint: disable=import-outside-toplevel
    mp = _mp()
    q = tb.get(name)
    _d, _rule, refs, what = REF[name]
    tol, how = tolerance(name, tb.facts)
    unit, fac = _view_objects(view)
    text = "*".join(f"{(p or '') + n}^{e}" for n, e, p in view)
    try:
        got = _mpf(convert_to(q, unit))
    except Exception as exc:  # pylint: disable=broad-except
        return [(f"view:{name}", f"convert_to({name}, {text}) raised {type(exc).__name__}: {exc}")]
    f = _mpf(fac)
    errs = [(abs(got * f - mp.mpf(r)) / abs(mp.mpf(r)), r, src) for r, src in refs]
    best = min(errs, key=lambda t: t[0])
    if best[0] > tol + mp.mpf("1e-12"):
        return [(f"view:{name}", f"{name} ({what}) in {text} is {mp.nstr(got, 15)}, i.e. {mp.nstr(got * f, 15)} SI; reference "
            f"{best[1]} ({best[2]}): relative deviation {mp.nstr(best[0], 3)} > {mp.nstr(tol, 3)} [{how}]")]
    return []


def judge_identity(tb: Table, idn: str) -> list[Viol]:
    mp = _mp()
    text, names = IDENTITIES[idn]
    qs = {n: tb.get(n) for n in names}
    missing = [n for n, q in qs.items() if q is None]
    if missing:
        return [(f"identity:{idn}", f"{text}: constants {missing} do not exist")]
    out: list[Viol] = []
    dl, dr = _identity_dims(idn, {n: mdims.from_lib(q.dimension) for n, q in qs.items()})
    if not dl.same(dr):
        out.append((f"identity-dimension:{idn}", f"{text}: dimensions of the two sides differ: {dl.text()} vs {dr.text()}"))
    lhs, rhs = _identity_sides(idn, {n: si_value_from_scale(q) for n, q in qs.items()})
    dev = abs(lhs - rhs) / (abs(lhs) + abs(rhs))
    if dev > mp.mpf("1e-9"):
        out.append((f"identity:{idn}", f"{text}: lhs {mp.nstr(lhs, 15)} vs rhs {mp.nstr(rhs, 15)}, |lhs-rhs|/(|lhs|+|rhs|) = "
            f"{mp.nstr(dev, 3)} > 1e-9"))
    return out


def judge_scan(tb: Table) -> tuple[list[Viol], list[str], list[str]]:
    missing = [n for n in tb.public if n not in tb.exported]
    out: list[Viol] = []
    if ALL_OMISSION_IS_VIOLATION:
        for n in missing:
            out.append((f"not-in-__all__:{n}", f"{n} is a Quantity defined in symplyphysics.quantities but missing from __all__"))
    dup = sorted({n for n in tb.exported if tb.exported.count(n) > 1})
    for n in dup:
        out.append((f"__all__:duplicate:{n}", f"{n} is listed more than once in __all__"))
    unref = [n for n in tb.names if n not in REF]
    return out, missing, unref



# ------------------------------------------------------------------------------------------------
# histories: the table must still hold after the constants have been USED through the public API


USES = ("wrap", "wrap_dim", "wrap_named", "scaled", "ratio", "power", "convert_si", "convert_unit", "approx", "collect",
    "abs", "float", "thread", "evalf", "copy", "pickle")


def history_strategy() -> Any:
    from hypothesis import strategies as st  # pylint: disable=import-outside-toplevel
    step = st.tuples(st.integers(0, 200), st.sampled_from(USES), st.integers(0, 7)).map(list)
    return st.lists(step, min_size=1, max_size=6)


def _use(tb: Table, step: list[Any]) -> None:
    """One ordinary use of a catalogue constant; whatever it returns or raises is irrelevant here."""
    # pylint: disable=import-outside-toplevel,too-many-branches
    import sympy
    from sympy.physics import units
    from symplyphysics import Quantity, convert_to, convert_to_float, convert_to_si, dimensionless
    from symplyphysics.core.approx import approx_equal_quantities
    from symplyphysics.core.dimensions.collect_quantity import collect_quantity_factor_and_dimension
    i, kind, k = step
    q = tb.get(tb.names[i % len(tb.names)])
    other = tb.get(tb.names[(i * 7 + k + 1) % len(tb.names)])
    dims_ = [dimensionless, units.length, units.energy, units.time, units.mass, units.velocity, units.charge, units.temperature]
    try:
        if kind == "wrap":
            Quantity(q)
        elif kind == "wrap_dim":
            Quantity(q, dimension=dims_[k % len(dims_)])
        elif kind == "wrap_named":
            Quantity(q, display_symbol=f"x_{k}", display_latex=f"x_{{{k}}}")
        elif kind == "scaled":
            Quantity(q * (k + 2))
        elif kind == "ratio":
            Quantity(q / other)
        elif kind == "power":
            Quantity(q**(k % 3 + 2))
        elif kind == "convert_si":
            convert_to_si(q)
        elif kind == "convert_unit":
            # a catalogue constant as the target unit: another constant of the same dimension if there is one
            # (solar_mass in earth masses), else a multiple of the constant in units of the constant itself
            same = [tb.get(n) for n in tb.names if tb.get(n) is not q and str(tb.get(n).dimension) == str(q.dimension)]
            if same and k % 2 == 0:
                convert_to(q, same[k % len(same)])
            else:
                convert_to(Quantity(q * (k + 2)), q)
        elif kind == "approx":
            approx_equal_quantities(q, Quantity(q * sympy.Rational(1001, 1000)))
        elif kind == "collect":
            collect_quantity_factor_and_dimension(q * other / (k + 1))
        elif kind == "thread":
            # unrelated quantities created in a second thread (ids must stay unique across threads)
            import threading

            def work() -> None:
                for j in range(30 + 5 * k):
                    Quantity((j + 2) * units.second)

            th = threading.Thread(target=work)
            th.start()
            th.join()
        elif kind == "evalf":
            # numeric evaluation of expressions that merely contain the constant, at reduced precision
            sympy.N(q * (k + 2), 3 + k % 4)
            (q**2 / other).evalf(4)
            (q + q).n(5)
        elif kind in ("copy", "pickle"):
            # a copy / serialisation round trip of the constant, then of an expression containing it (each attempt on its
            # own: where the operation is not supported the exception is the whole effect)
            import copy
            import pickle
            for obj in (q, q * other / (k + 1), [q, other]):
                try:
                    if kind == "copy":
                        copy.copy(obj)
                        copy.deepcopy(obj)
                    else:
                        pickle.loads(pickle.dumps(obj))
                except Exception:  # pylint: disable=broad-except
                    pass
        elif kind == "abs":
            abs(q)
        elif kind == "float":
            convert_to_float(Quantity(q / q))
    except Exception:  # pylint: disable=broad-except
        pass


def judge_history(history: list[list[Any]]) -> list[Viol]:
    """Runs in a process of its own (a use that damages the table must not leak into other cases)."""
    tb = Table()
    before = [k for name in tb.names if name in REF for k, _ in judge_constant(tb, name)]
    before += [k for idn in IDENTITIES for k, _ in judge_identity(tb, idn)]
    for step in history:
        _use(tb, step)
    out: list[Viol] = []
    for name in tb.names:
        if name not in REF:
            continue
        for key, what in judge_constant(tb, name):
            if key not in before:
                out.append((f"after-use:{key}", f"after the uses {_show_history(tb, history)}: {what}"))
    for idn in IDENTITIES:
        for key, what in judge_identity(tb, idn):
            if key not in before:
                out.append((f"after-use:{key}", f"after the uses {_show_history(tb, history)}: {what}"))
    return out


def _show_history(tb: Table, history: list[list[Any]]) -> str:
    return "[" + ", ".join(f"{kind}({tb.names[i % len(tb.names)]}, {k})" for i, kind, k in history) + "]"


def _history_task(history: list[list[Any]]) -> list[Viol]:
    return judge_history(history)


def run_histories(ctx: Ctx) -> None:
    from ..hyp import hyp_run  # pylint: disable=import-outside-toplevel
    from ..pool import run_tasks  # pylint: disable=import-outside-toplevel
    from ..shrink import shrink  # pylint: disable=import-outside-toplevel
    histories: list[Any] = []
    hyp_run(history_strategy(), histories.append, ctx.pick(64, 1500), ctx.seed * 1000 + 77)
    # every kind of use at least once on an exact and on a literal constant, whatever was drawn
    tb = Table()
    for j, kind in enumerate(USES):
        for k in range(ctx.pick(2, 8)):
            histories.append([[tb.names.index("speed_of_light") if k % 2 == 0 else (j * 5 + k) % len(tb.names), kind, k]])
    results = run_tasks(_history_task, histories, timeout=300, fresh=True)
    found: dict[str, Any] = {}
    for hist, (status, val) in zip(histories, results):
        if status == "timeout":
            ctx.inconclusive += 1
            continue
        if status != "ok":
            raise RuntimeError(f"{PID} history failed: {status}: {val}")
        kinds = sorted({kind for _i, kind, _k in hist})
        ctx.case({"h": hist}, nontrivial=len(hist) >= 2 or hist[0][1] in ("wrap", "wrap_dim", "wrap_named"),
            labels=["history"] + [f"use:{k}" for k in kinds])
        for key, what in val:
            if key not in found:
                found[key] = (hist, what)

    def fails(key: str, hist: list[Any]) -> bool:
        if not hist:
            return False
        st_, val = run_tasks(_history_task, [hist], timeout=300, fresh=True)[0]
        return st_ == "ok" and any(k == key for k, _ in val)

    def candidates(hist: list[Any]) -> Any:
        for j in range(len(hist)):
            yield hist[:j] + hist[j + 1:]
        for j, (i, kind, k) in enumerate(hist):
            if k:
                yield hist[:j] + [[i, kind, 0]] + hist[j + 1:]

    for key, (hist, what) in found.items():
        small = shrink(hist, candidates, lambda h, key=key: fails(key, h), budget_s=ctx.pick(30, 120))
        st_, val = run_tasks(_history_task, [small], timeout=300, fresh=True)[0]
        msg = next((w for k, w in (val if st_ == "ok" else []) if k == key), what)
        ctx.violation(key, msg, {"kind": "history", "history": small})
    ctx.samples += [{"kind": "history", "history": h} for h in histories[:2]]


def selfcheck() -> None:
    """The reference table must satisfy the property's identities itself (harness error otherwise)."""
    mp = _mp()
    munits.selfcheck()
    vals = {n: mp.mpf(r[2][0][0]) for n, r in REF.items()}
    dms = {n: r[0] for n, r in REF.items()}
    for idn, (text, _names) in IDENTITIES.items():
        lhs, rhs = _identity_sides(idn, vals)
        tol = mp.mpf("2e-7") if idn == "b=hc/(x*kB)" else mp.mpf("1e-9")  # 4.965114 is itself rounded (4.7e-8)
        if abs(lhs - rhs) / (abs(lhs) + abs(rhs)) > tol:
            raise RuntimeError(f"C20 reference table violates {text}: {lhs} vs {rhs}")
        dl, dr = _identity_dims(idn, dms)
        if not dl.same(dr):
            raise RuntimeError(f"C20 reference table dimensions violate {text}")


def run(ctx: Ctx) -> None:
    selfcheck()
    mp = _mp()
    tb = Table()
    ctx.exhaustive = False  # the table, its views and the identities are enumerated exhaustively; the use-histories are generated
    ctx.notes["table_views_identities_exhaustive"] = True
    viols, missing, unref = judge_scan(tb)
    ctx.case({"kind": "scan"}, nontrivial=False, labels=["scan"])
    for key, what in viols:
        ctx.violation(key, what, {"kind": "scan"})
    ctx.notes["not_in___all__"] = missing
    ctx.notes["constants_enumerated"] = len(tb.names)
    ctx.notes["tolerances"] = {}
    for name in unref:
        # a constant the harness has no reference for cannot be judged: loud, but not a verdict
        ctx.inconclusive += 1
        ctx.count("unreferenced_constant")
        ctx.notes.setdefault("unreferenced", []).append(name)
    nviews = 0
    const_samples: list[Any] = []
    view_samples: list[Any] = []
    for name in tb.names:
        if name not in REF:
            continue
        d = REF[name][0]
        nt = d.n_nonzero >= 2
        labels = ["constant", f"rule:{REF[name][1]}", "exported" if name in tb.exported else "not_in___all__",
            f"basedims={d.n_nonzero}"]
        res = judge_constant(tb, name)
        case = {"kind": "constant", "name": name}
        ctx.case({"c": name}, nontrivial=nt, labels=labels)
        if nt and len(const_samples) < 5:
            const_samples.append(case)
        for key, what in res:
            ctx.violation(key, what, case)
        tol, how = tolerance(name, tb.facts)
        ctx.notes["tolerances"][name] = f"{mp.nstr(tol, 3)} ({how})"
        if res:
            ctx.count("views_skipped_primary_failed")
            continue
        for view in views_of(d, ctx.thorough):
            nviews += 1
            vcase = {"kind": "view", "name": name, "view": view}
            kinds = ["view"]
            if any(p for _n, _e, p in view):
                kinds.append("view:prefixed")
            elif len(view) == 1 and view[0][1] == 1 and view[0][0] not in SI_NAMES:
                kinds.append("view:named-unit")
            elif any(n in _CGS.values() for n, _e, _p in view):
                kinds.append("view:cgs")
            elif all(n in SI_NAMES for n, _e, _p in view):
                kinds.append("view:si")
            else:
                kinds.append("view:derived-unit-x-si")
            ctx.case({"c": name, "view": view}, nontrivial=False, labels=kinds)
            if nt and len(view_samples) < 4 and len(view) > 1 and nviews % 7 == 0:
                view_samples.append(vcase)
            for key, what in judge_view(tb, name, view):
                ctx.violation(key, what, vcase)
    for idn in IDENTITIES:
        case = {"kind": "identity", "id": idn}
        ctx.case({"i": idn}, nontrivial=True, labels=["identity"])
        for key, what in judge_identity(tb, idn):
            ctx.violation(key, what, case)
    ctx.notes["views"] = nviews
    ctx.samples = const_samples + view_samples + [{"kind": "identity", "id": i} for i in list(IDENTITIES)[:3]]
    run_histories(ctx)
    ctx.assumptions += [
        "reference values typed from CODATA 2018, CODATA 2022 (either edition accepted for measured constants), IAU 2015 "
        "Resolutions B2/B3, Planck 2018 / SH0ES for H_0; sources are listed per row in vp/checks/c20.py",
        "a literal constant is right when a reference lies within one unit of its last written digit (parsed from "
        "quantities/__init__.py; trailing zeros of integer literals are not significant) or within the docstring's stated "
        "relative uncertainty",
        "SI value = scale_factor / 1000**mass_exponent (SymPy stores mass in grams); convert_to_si must agree to 1e-12",
        "public Quantity-typed attributes missing from __all__ are judged like exported ones and listed in "
        "coverage.not_in___all__ (not a violation unless ALL_OMISSION_IS_VIOLATION)",
    ]


def replay(case: dict[str, Any]) -> list[Viol]:
    selfcheck()
    tb = Table()
    kind = case.get("kind")
    if kind == "constant":
        return judge_constant(tb, case["name"])
    if kind == "view":
        return judge_view(tb, case["name"], case["view"])
    if kind == "identity":
        return judge_identity(tb, case["id"])
    if kind == "scan":
        return judge_scan(tb)[0]
    if kind == "history":
        from ..pool import run_tasks  # pylint: disable=import-outside-toplevel
        st_, val = run_tasks(_history_task, [case["history"]], timeout=300, fresh=True)[0]
        if st_ != "ok":
            raise RuntimeError(f"history replay: {st_}: {val}")
        return list(val)
    raise ValueError(f"unknown case kind {kind}")
