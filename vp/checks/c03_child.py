"""C03 child process: executes ONE history in a fresh interpreter and prints its observations as JSON.

stdin: {"preload": {prefix: n}, "mode": "full"|"solo", "modules": [...], "bumps": {prefix: n}, "garbage": n,
        "solo": [[module, {prefix: n}, garbage], ...], "salt": int, "recipe": [...]}
 * preload: counter values installed in the id generator BEFORE `import symplyphysics`;
 * full: bump counters after the package import, create `garbage` unrelated objects, import `modules` in order,
   observe every module;
 * solo: after the package import, fork once per entry; the child bumps the counters, creates garbage,
   imports exactly that module first and observes it (a fork right after the package import is
   indistinguishable from a fresh interpreter with the same pre-history, at a fraction of the cost).
Observations per module: import outcome, fingerprint of every public equation (value of both sides under an
environment keyed by display name + dimension, never by internal name), result of every calculation
function on a fixed argument recipe.
"""
from __future__ import annotations

from vp import guard as _guard

import importlib
import importlib.util
import json
import os
import sys
import traceback
from typing import Any


def preload(counters: dict[str, int]) -> Any:
    repo = os.environ.get("VERIF_REPO", "/repo")
    path = os.path.join(repo, "symplyphysics", "core", "symbols", "id_generator.py")
    name = "symplyphysics.core.symbols.id_generator"
    spec = importlib.util.spec_from_file_location(name, path)
    assert spec and spec.loader
    mod = importlib.util.module_from_spec(spec)
    sys.modules[name] = mod
    spec.loader.exec_module(mod)
    from vp.idcounters import Counters, CountersUnavailable
    cnt = Counters(mod)
    for k, v in counters.items():
        try:
            cnt[k] = int(v)
        except CountersUnavailable:
            pass
    return mod


def bump(idgen: Any, bumps: dict[str, int]) -> None:
    for k, v in bumps.items():
        from vp.idcounters import Counters, CountersUnavailable
        cnt = Counters(idgen)
        if int(v) > cnt.get(k, 0):
            try:
                cnt[k] = int(v)
            except CountersUnavailable:
                pass


GARBAGE_KINDS = ("sym", "fun", "qty", "qty1f", "qty1", "qty0f", "vec", "cs", "calc", "conv", "solve", "float_arith",
    "const_copy", "const_copy_dim", "clone", "common_symbols", "const_as_unit",
    "symbolic_wrappers", "symbolic_wrappers_rev", "thread_objects", "const_evalf")


def garbage(spec: Any) -> None:
    """Unrelated library use before the module under observation is imported.  `spec` is a list of kinds (generated)
    or an int (that many mixed objects)."""
    # pylint: disable=too-many-branches
    if isinstance(spec, int):
        spec = [GARBAGE_KINDS[i % 9] for i in range(spec)]  # (first nine kinds: the meaning of old integer specs is kept)
    if not spec:
        return
    import sympy
    from sympy.physics import units
    from symplyphysics import CoordinateSystem, Function, Quantity, Symbol, convert_to_float
    from symplyphysics.core.experimental.vectors import VectorSymbol
    keep: list[Any] = []
    for i, kind in enumerate(spec):
        try:
            _garbage_one(i, kind, keep)
        except Exception:  # pylint: disable=broad-except
            pass  # a failing unrelated use is irrelevant to the module under observation


def _garbage_one(i: int, kind: str, keep: list[Any]) -> None:
    # pylint: disable=too-many-branches
    import sympy
    from sympy.physics import units
    from symplyphysics import CoordinateSystem, Function, Quantity, Symbol, convert_to_float
    from symplyphysics.core.experimental.vectors import VectorSymbol
    if True:  # pylint: disable=using-constant-test
        if kind == "sym":
            keep.append(Symbol(f"g{i}", units.length, positive=bool(i % 2)))
        elif kind == "fun":
            keep.append(Function(f"h{i}", dimension=units.time))
        elif kind == "qty":
            keep.append(Quantity((i + 2) * units.second))
        elif kind == "qty1f":
            keep.append(Quantity(1.0))
        elif kind == "qty1":
            keep.append(Quantity(1))
        elif kind == "qty0f":
            keep.append(Quantity(0.0, dimension=units.length))
        elif kind == "vec":
            keep.append(VectorSymbol(f"w{i}"))
        elif kind == "cs":
            keep.append(CoordinateSystem())
        elif kind == "calc":
            from symplyphysics.laws.dynamics import acceleration_is_force_over_mass as law
            keep.append(law.calculate_force(Quantity(2.0 * units.kilogram), Quantity(1.0 * units.meter / units.second**2)))
        elif kind == "conv":
            keep.append(convert_to_float(Quantity(sympy.S.One)))
        elif kind == "solve":
            x = sympy.Symbol("x")
            keep.append(sympy.solve(x**2 - 2 * x - 3, x))
            keep.append(sympy.expand((x + 1)**3))
        elif kind == "float_arith":
            keep.append(Quantity(1.0 * units.meter) if i % 2 else Quantity(2.5))
        elif kind == "const_copy":
            from symplyphysics import quantities
            keep.append(Quantity(quantities.speed_of_light))
            keep.append(Quantity(quantities.boltzmann_constant * 2))
        elif kind == "const_copy_dim":
            from symplyphysics import dimensionless, quantities
            for name in ("speed_of_light", "boltzmann_constant", "planck", "elementary_charge", "molar_gas_constant",
                    "vacuum_permittivity", "gravitational_constant", "acceleration_due_to_gravity"):
                c = getattr(quantities, name, None)
                if c is not None:
                    keep.append(Quantity(c, dimension=dimensionless))
        elif kind == "const_as_unit":
            from symplyphysics import convert_to, quantities
            for name in ("speed_of_light", "boltzmann_constant", "planck", "elementary_charge", "gravitational_constant",
                    "acceleration_due_to_gravity", "electron_rest_mass", "molar_gas_constant"):
                c = getattr(quantities, name, None)
                if c is not None:
                    keep.append(convert_to(Quantity(c * 3), c))
        elif kind in ("symbolic_wrappers", "symbolic_wrappers_rev"):
            # Average/FiniteDifference/... around every common symbol (several of them print alike: p is momentum and
            # pressure, h is height, thickness, ...), in catalogue order or reversed
            import symplyphysics.symbols as common
            from symplyphysics.core.operations import symbolic
            syms = []
            for sub in sorted(n for n in dir(common) if not n.startswith("_")):
                m = getattr(common, sub)
                for n in sorted(dir(m)) if hasattr(m, "__name__") and str(getattr(m, "__name__", "")).startswith("symplyphysics.symbols") else []:
                    o = getattr(m, n)
                    if isinstance(o, sympy.Symbol) and hasattr(o, "dimension"):
                        syms.append(o)
            for n in sorted(dir(common)):
                o = getattr(common, n)
                if isinstance(o, sympy.Symbol) and hasattr(o, "dimension"):
                    syms.append(o)
            if kind.endswith("_rev"):
                syms.reverse()
            for o in syms:
                for cls in (symbolic.Average, symbolic.FiniteDifference, symbolic.ExactDifferential, symbolic.InexactDifferential):
                    keep.append(cls(o))
        elif kind == "const_evalf":
            from symplyphysics import quantities
            for name in ("speed_of_light", "boltzmann_constant", "planck", "elementary_charge", "gravitational_constant",
                    "molar_gas_constant", "stefan_boltzmann_constant", "vacuum_permittivity", "hbar", "avogadro_constant"):
                c = getattr(quantities, name, None)
                if c is not None:
                    keep.append(sympy.N(c * 3, 3))
                    keep.append((c**2).evalf(4))
        elif kind == "thread_objects":
            import threading

            def work() -> None:
                for j in range(60):
                    keep.append(Quantity((j + 2) * units.second))
                    keep.append(Symbol(f"th{j}", units.length))
                    keep.append(Function(f"fh{j}", dimension=units.time))

            th = threading.Thread(target=work)
            th.start()
            th.join()
        elif kind == "clone":
            from symplyphysics import clone_as_function, clone_as_symbol, symbols
            keep.append(clone_as_symbol(symbols.mass, subscript="1"))
            keep.append(clone_as_function(symbols.speed, [symbols.time]))
            keep.append(clone_as_symbol(symbols.temperature, display_symbol="T_x", positive=False))
        elif kind == "common_symbols":
            from symplyphysics import symbols
            e = sympy.Eq(symbols.force, symbols.mass * symbols.acceleration)
            keep.append(sympy.solve(e, symbols.mass))
            keep.append((symbols.mass * symbols.speed**2 / 2).subs(symbols.mass, 3).diff(symbols.speed))


class _Hang(BaseException):
    pass


def _alarm(_s: int, _f: Any) -> None:
    raise _Hang()


def observe(modname: str, salt: int, recipe: list[Any]) -> dict[str, Any]:
    import signal
    _guard.install(_alarm)
    out: dict[str, Any] = {"import": "ok", "equations": {}, "functions": {}}
    try:
        _guard.arm(300)
        mod = importlib.import_module(modname)
        signal.alarm(0)
    except _Hang:
        out["import"] = "hang"
        return out
    except BaseException as exc:  # pylint: disable=broad-except
        signal.alarm(0)
        tb = traceback.extract_tb(exc.__traceback__)
        where = ""
        for fr in tb:
            if "symplyphysics" in fr.filename:
                where = f"{fr.filename.split('symplyphysics/')[-1]}:{fr.lineno}"
        out["import"] = f"{type(exc).__name__}: {str(exc)[:160]} @ {where}"
        return out
    from vp.catalogue import public_equations, public_functions
    from vp.model import interp
    from vp.parse.lexicon import build_lexicon
    for attr, eq in public_equations(mod):
        try:
            _guard.arm(30)
            lex = build_lexicon(eq, "code")

            def tok(atom: Any, lex: Any = lex) -> str:
                t = lex.token_of(atom)
                d = getattr(atom, "dimension", None)
                return f"{t}|{getattr(d, 'name', '')}" if d is not None else t

            kinds = {}
            for atom, t in lex.by_atom.items():
                kinds[tok(atom)] = lex.kinds.get(t, "real")
            ev = interp.SymEval(tok)
            vals = []
            for s in (salt, salt + 1):
                env = interp.Env(s, kinds)
                try:
                    v = ev(eq, env)
                    vals.append(_fmt(v))
                except interp.IllConditioned:
                    vals.append("ill")
            out["equations"][attr] = vals
        except _Hang:
            out["equations"][attr] = ["hang"]
        except interp.Uninterpretable as exc:
            out["equations"][attr] = ["uninterpretable:" + str(exc)[:60]]
        except Exception as exc:  # pylint: disable=broad-except
            out["equations"][attr] = [f"fingerprint-error:{type(exc).__name__}"]
        finally:
            signal.alarm(0)
    if recipe:
        from vp.checks import c02
        import sympy
        for fname, fn in public_functions(mod):
            try:
                desc = c02.describe(mod, fname, fn)
                built = c02.build_args(desc, [tuple(r) for r in recipe], 0)
                if built is None:
                    continue
                args = built[0]
                try:
                    _guard.arm(40)
                    res = fn(*args)
                    if isinstance(res, (list, tuple)):
                        out["functions"][fname] = "seq:" + ",".join(_num(c02.si_value(r)) for r in res)
                    else:
                        out["functions"][fname] = _num(c02.si_value(res))
                except _Hang:
                    out["functions"][fname] = "harness:hang"
                except Exception as exc:  # pylint: disable=broad-except
                    out["functions"][fname] = "raised:" + type(exc).__name__
                finally:
                    signal.alarm(0)
            except _Hang:
                out["functions"][fname] = "harness:hang"
            except Exception as exc:  # pylint: disable=broad-except
                out["functions"][fname] = "harness:" + type(exc).__name__
        _ = sympy
    return out


def _num(v: Any) -> str:
    import sympy
    try:
        n = sympy.N(v, 30)
        if n.is_number:
            return str(sympy.N(n, 12))
        return "nonnumeric"
    except Exception:  # pylint: disable=broad-except
        return "unreadable"


def _fmt(v: Any) -> Any:
    from vp.model import interp
    if isinstance(v, tuple) and v and v[0] == "rel":
        return [v[1], _fmt(v[2]), _fmt(v[3])]
    if isinstance(v, list):
        return [[_fmt(x) for x in r] for r in v]
    return interp.nstr(v, 20)


def _snapshot(idgen: Any) -> dict[str, int]:
    from vp.idcounters import Counters
    return Counters(idgen).snapshot()


def main() -> None:
    job = json.loads(sys.stdin.read())
    sys.setrecursionlimit(10000)
    idgen = preload(job.get("preload", {}))
    import symplyphysics  # noqa: F401  pylint: disable=unused-import
    result: dict[str, Any] = {"modules": {}, "counters_after_package": _snapshot(idgen)}
    salt = int(job.get("salt", 7))
    recipe = job.get("recipe", [])
    if job["mode"] == "full":
        bump(idgen, job.get("bumps", {}))
        garbage(job.get("garbage", 0))
        for m in job["modules"]:
            try:
                importlib.import_module(m)
                result["modules"][m] = {"import": "ok"}
            except BaseException as exc:  # pylint: disable=broad-except
                result["modules"][m] = None
                _ = exc
        for m in job["modules"]:
            result["modules"][m] = observe(m, salt, recipe if job.get("calc") else [])
    else:
        for m, bumps, garb in job["solo"]:
            r, w = os.pipe()
            pid = os.fork()
            if pid == 0:
                try:
                    os.close(r)
                    bump(idgen, bumps)
                    garbage(garb)
                    before = _snapshot(idgen)
                    obs = observe(m, salt, [])
                    after = _snapshot(idgen)
                    obs["minted"] = {k: after.get(k, 0) - before.get(k, 0) for k in after if after.get(k, 0) != before.get(k, 0)}
                    if recipe:
                        obs["functions"] = observe(m, salt, recipe)["functions"]
                    with os.fdopen(w, "w") as fh:
                        fh.write(json.dumps(obs))
                finally:
                    os._exit(0)
            os.close(w)
            with os.fdopen(r) as fh:
                data = fh.read()
            os.waitpid(pid, 0)
            key = json.dumps([m, bumps, garb], sort_keys=True)
            try:
                result["modules"][key] = json.loads(data)
            except ValueError:
                result["modules"][key] = {"import": "child-died", "equations": {}, "functions": {}}
    sys.stdout.write("\n@@C03RESULT@@" + json.dumps(result))


if __name__ == "__main__":
    main()
