"""C01 - every published law equation is dimensionally homogeneous.

Part A (exhaustive over the catalogue, exact): a harness-owned structural walk computes the dimension
vector of every sub-expression from the DECLARED dimensions of the leaves with M-dim arithmetic.
Part B (generated, metamorphic - Buckingham scaling): for generated environments and generated unit
changes lambda (one positive factor per base dimension) every atom's value is multiplied by
prod lambda_i^e_i; homogeneity <=> all terms of every sum/relation scale by the same factor and
exponents / arguments of exp, trigonometric and hyperbolic functions do not change.  Part B uses no
symbolic dimension code for composites.  A and B must agree; a disagreement is a harness error.
"""
from __future__ import annotations

from typing import Any

from hypothesis import strategies as st

from ..boot import Ctx, Recorder
from ..catalogue import import_module, module_names, public_equations, short
from ..hyp import hyp_run
from ..model import dims, interp
from ..pool import run_tasks

PID = "C01"
RULE = ("Programs: every Relational (or list/tuple of them) bound to a public name of every module under laws/, "
    "definitions/, conditions/ after a normal import - enumerated exhaustively (part A, exact dimension-vector walk "
    "from declared leaf dimensions). Inputs: per equation, Hypothesis-generated (environment salt, unit change lambda "
    "= one factor per SI base dimension: distinct primes to generated non-zero integer powers, hence multiplicatively independent) pairs for the numeric Buckingham "
    "scaling test (part B, 50-digit arithmetic, tol 1e-20). Non-trivial equation: >=2 atoms with different non-trivial "
    "dimension vectors; non-trivial part-B case: >=2 lambda_i != 1 among base dimensions occurring in the equation. "
    "Distinct by (equation, salt, lambda).")

ANY = "ANY"
_DIMLESS_ARG = {"exp", "sin", "cos", "tan", "cot", "sec", "csc", "asin", "acos", "atan", "acot", "asec", "acsc",
    "sinh", "cosh", "tanh", "coth", "sech", "csch", "asinh", "acosh", "atanh", "acoth", "asech", "acsch", "atan2"}
_KEEP_DIM = {"Abs", "re", "im", "conjugate"}


class Walker:
    """Part A. Collects violations as (path, message)."""

    def __init__(self) -> None:
        self.viol: list[tuple[str, str]] = []
        self.unknown: list[str] = []
        self.atom_dims: dict[Any, Any] = {}
        self.opaque: dict[Any, Any] = {}  # composite atoms for part B: node -> dim
        self.viol_visible = 0  # violations outside composite atoms, i.e. visible to the numeric test (part B)

    def bad(self, path: str, msg: str) -> None:
        self.viol.append((path, msg))
        if not any(seg in path for seg in (".expr", ".function", ".arg", ".var", ".limit", "IndexedSum", "IndexedProduct")):
            self.viol_visible += 1

    def leaf_dim(self, d: Any) -> Any:
        from symplyphysics.core.dimensions.dimensions import AnyDimension
        if isinstance(d, AnyDimension):
            return ANY
        try:
            return dims.from_lib(d)
        except dims.NotADimension as exc:
            self.unknown.append(f"dimension outside the 7 SI bases: {exc}")
            return ANY

    def agree(self, items: list[tuple[Any, Any]], path: str, what: str) -> Any:
        """items: (dim, node). All non-ANY dims must coincide. Returns the common dim (or ANY)."""
        ref = None
        refnode = None
        for d, node in items:
            if d is ANY:
                continue
            if ref is None:
                ref, refnode = d, node
            elif not ref.same(d):
                self.bad(path, f"{what}: '{_s(refnode)}' has dimension {ref.text()} but '{_s(node)}' has {d.text()}")
        return ANY if ref is None else ref

    def dimless(self, d: Any, node: Any, path: str, what: str) -> None:
        if d is not ANY and not d.is_dimensionless:
            self.bad(path, f"{what} '{_s(node)}' has dimension {d.text()} but must be dimensionless")

    def walk(self, e: Any, path: str = "") -> Any:
        # pylint: disable=too-many-return-statements,too-many-branches,too-many-statements,too-many-locals
        import sympy
        from sympy.core.function import AppliedUndef
        from sympy.physics.units import Quantity as SymQuantity
        from symplyphysics.core.operations.symbolic import Symbolic
        from symplyphysics.core.operations.sum_indexed import IndexedSum
        from symplyphysics.core.operations.product_indexed import IndexedProduct
        from symplyphysics.core.symbols.symbols import DimensionSymbol
        w = self.walk
        name = type(e).__name__
        p = f"{path}/{name}"
        if isinstance(e, Symbolic):
            d = self.leaf_dim(e.dimension)
            self.atom_dims[e] = d
            return d
        if isinstance(e, SymQuantity):
            sf = e.scale_factor
            if sf in (sympy.S.Zero, sympy.S.Infinity, sympy.S.NegativeInfinity, sympy.S.NaN) or sf == 0:
                d = ANY
            else:
                d = self.leaf_dim(e.dimension)
            self.atom_dims[e] = d
            return d
        if isinstance(e, sympy.Symbol):
            d = self.leaf_dim(e.dimension) if isinstance(e, DimensionSymbol) else ANY
            self.atom_dims[e] = d
            return d
        if isinstance(e, sympy.Idx):
            return dims.ONE
        if isinstance(e, sympy.Number) or isinstance(e, sympy.NumberSymbol) or e is sympy.I:
            if e.is_zero or e.is_finite is False or e is sympy.S.NaN:
                return ANY
            return dims.ONE
        if e in (sympy.S.ComplexInfinity, sympy.S.NaN):
            return ANY
        if isinstance(e, sympy.logic.boolalg.BooleanAtom):
            return ANY
        if isinstance(e, sympy.core.relational.Relational):
            self.agree([(w(e.lhs, p + ".lhs"), e.lhs), (w(e.rhs, p + ".rhs"), e.rhs)], p, "sides of a relation")
            return ANY
        if isinstance(e, sympy.Add):
            return self.agree([(w(a, p), a) for a in e.args], p, "terms of a sum")
        if isinstance(e, sympy.Mul):
            out: Any = dims.ONE
            for a in e.args:
                d = w(a, p)
                out = self.mat_mul(out, d, e, p)
            return out
        if isinstance(e, sympy.Pow):
            db = w(e.base, p + ".base")
            de = w(e.exp, p + ".exp")
            self.dimless(de, e.exp, p, "exponent")
            if db is ANY:
                return ANY
            if db.is_dimensionless:
                return dims.ONE
            return db**e.exp
        if isinstance(e, sympy.Indexed):
            base = e.base
            d = self.leaf_dim(base.dimension) if isinstance(base, DimensionSymbol) else ANY
            self.opaque[e] = d
            return d
        if isinstance(e, IndexedSum):
            d = w(e.args[0], p)
            self.opaque[e] = d
            return d
        if isinstance(e, IndexedProduct):
            d = w(e.args[0], p)
            out2 = d if (d is ANY or d.is_dimensionless) else ANY
            self.opaque[e] = out2
            return out2
        if isinstance(e, sympy.Derivative):
            d = w(e.expr, p + ".expr")
            for v, n in e.variable_count:
                dv = w(v, p + ".var")
                if d is not ANY and dv is not ANY:
                    d = d / dv**n
                else:
                    d = ANY
            self.opaque[e] = d
            return d
        if isinstance(e, sympy.Integral):
            d = w(e.function, p + ".function")
            for lim in e.limits:
                dv = w(lim[0], p + ".var")
                if len(lim) > 1:
                    self.agree([(dv, lim[0])] + [(w(b, p + ".limit"), b) for b in lim[1:]], p,
                        "integration variable and limits")
                d = ANY if (d is ANY or dv is ANY) else d * dv
            self.opaque[e] = d
            return d
        if isinstance(e, (sympy.Sum, sympy.Product)):
            d = w(e.function, p + ".function")
            for lim in e.limits:
                for b in lim[1:]:
                    self.dimless(w(b, p + ".limit"), b, p, "summation limit")
            if isinstance(e, sympy.Product) and not (d is ANY or d.is_dimensionless):
                d = ANY
            self.opaque[e] = d
            return d
        if isinstance(e, AppliedUndef):
            for a in e.args:
                w(a, p + ".arg")
            d = self.leaf_dim(e.func.dimension) if isinstance(e.func, DimensionSymbol) else ANY
            self.opaque[e] = d
            return d
        if isinstance(e, sympy.Piecewise):
            items = []
            for val, cond in e.args:
                items.append((w(val, p + ".branch"), val))
                w(cond, p + ".cond")
            return self.agree(items, p, "branches of a piecewise expression")
        if isinstance(e, sympy.logic.boolalg.BooleanFunction):
            for a in e.args:
                w(a, p)
            return ANY
        if isinstance(e, sympy.functions.elementary.miscellaneous.MinMaxBase):
            return self.agree([(w(a, p), a) for a in e.args], p, f"arguments of {name}")
        if isinstance(e, sympy.Order):
            return ANY
        if isinstance(e, sympy.MatrixBase):
            return MatDims([[w(e[i, j], f"{p}[{i},{j}]") for j in range(e.shape[1])] for i in range(e.shape[0])])
        if isinstance(e, sympy.MatAdd):
            ms = [w(a, p) for a in e.args]
            return self.mat_add(ms, e, p)
        if isinstance(e, sympy.MatMul):
            acc: Any = None
            for a in e.args:
                m = w(a, p)
                acc = m if acc is None else self.mat_mul(acc, m, e, p)
            return acc
        if isinstance(e, sympy.Function):
            ds = [(w(a, p + ".arg"), a) for a in e.args]
            if name in _DIMLESS_ARG:
                for d, a in ds:
                    self.dimless(d, a, p, f"argument of {name}")
                return dims.ONE
            if name in _KEEP_DIM:
                return ds[0][0]
            if name == "log":
                return dims.ONE
            if name == "sign":
                return dims.ONE
            # other special functions (factorial, besselj, hermite, ...): not constrained by the property
            return dims.ONE
        if name == "Laplacian":
            d = w(e.args[0], p + ".expr")
            return ANY if d is ANY else d / dims.base("length", 2)
        if name == "BaseScalar":
            return ANY
        self.unknown.append(name)
        return ANY

    def mat_add(self, ms: list[Any], e: Any, p: str) -> Any:
        mats = [m for m in ms if isinstance(m, MatDims)]
        if len(mats) != len(ms):
            self.unknown.append("MatAdd with non-matrix operand")
            return ANY
        rows, cols = len(mats[0].rows), len(mats[0].rows[0])
        out = []
        for i in range(rows):
            row = []
            for j in range(cols):
                row.append(self.agree([(m.rows[i][j], e) for m in mats], f"{p}[{i},{j}]", "entries of a matrix sum"))
            out.append(row)
        return MatDims(out)

    def mat_mul(self, a: Any, b: Any, e: Any, p: str) -> Any:
        if not isinstance(a, MatDims) and not isinstance(b, MatDims):
            if a is ANY or b is ANY:
                return ANY
            return a * b
        if not isinstance(a, MatDims):
            return MatDims([[ANY if (x is ANY or a is ANY) else x * a for x in r] for r in b.rows])
        if not isinstance(b, MatDims):
            return MatDims([[ANY if (x is ANY or b is ANY) else x * b for x in r] for r in a.rows])
        n = len(b.rows)
        if len(a.rows[0]) != n:
            self.unknown.append("matrix shapes")
            return ANY
        out = []
        for i in range(len(a.rows)):
            row = []
            for j in range(len(b.rows[0])):
                terms = []
                for k in range(n):
                    x, y = a.rows[i][k], b.rows[k][j]
                    terms.append((ANY if (x is ANY or y is ANY) else x * y, e))
                row.append(self.agree(terms, f"{p}[{i},{j}]", "terms of a matrix product entry"))
            out.append(row)
        return MatDims(out)


class MatDims:

    def __init__(self, rows: list[list[Any]]) -> None:
        self.rows = rows


def _s(node: Any) -> str:
    try:
        from symplyphysics.docs.printer_code import code_str
        return code_str(node)[:80]
    except Exception:  # pylint: disable=broad-except
        return str(node)[:80]


def part_a(eq: Any) -> tuple[Walker, Any]:
    w = Walker()
    import sympy
    if isinstance(eq, sympy.core.relational.Relational):
        dl = w.walk(eq.lhs, "lhs")
        dr = w.walk(eq.rhs, "rhs")
        if isinstance(dl, MatDims) or isinstance(dr, MatDims):
            if isinstance(dl, MatDims) and isinstance(dr, MatDims) and len(dl.rows) == len(dr.rows):
                for i, (ra, rb) in enumerate(zip(dl.rows, dr.rows)):
                    for j, (x, y) in enumerate(zip(ra, rb)):
                        w.agree([(x, eq.lhs), (y, eq.rhs)], f"eq[{i},{j}]", "matrix entries on the two sides")
            else:
                w.unknown.append("matrix equation with non-matrix side")
        else:
            w.agree([(dl, eq.lhs), (dr, eq.rhs)], "eq", "the two sides of the equation")
        return w, dl if dl is not ANY else dr
    w.walk(eq, "")
    return w, ANY


# ------------------------------------------------------------------------------------------------
# part B


PRIMES = (2, 3, 5, 7, 11, 13, 17)


def lambda_strategy() -> st.SearchStrategy[list[str]]:
    """One factor per base dimension: distinct primes (generated assignment) raised to generated non-zero
    integer powers.  Such factors are multiplicatively independent, so a non-zero exponent vector always
    changes the scaling ratio - detection by part B is certain whenever it runs."""
    primes = [2, 3, 5, 7, 11, 13, 17, 19, 23]

    def mk(perm: list[int], pows: list[int]) -> list[str]:
        out = []
        for p, k in zip(perm[:7], pows):
            out.append(f"{p**k}" if k > 0 else f"1/{p**(-k)}")
        return out

    return st.builds(mk, st.permutations(primes), st.lists(st.sampled_from([-2, -1, 1, 2, 3]), min_size=7, max_size=7))


def scaling_violations(eq: Any, w: Walker, salt: int, lam: list[str]) -> tuple[str, list[str]]:
    """Returns (status, problems). status: ok | skipped:<why> | ill."""
    # pylint: disable=too-many-locals,too-many-branches,too-many-statements
    import sympy
    from sympy.core.function import AppliedUndef
    from symplyphysics.core.operations.sum_indexed import IndexedSum
    from symplyphysics.core.operations.product_indexed import IndexedProduct
    lam_v = [interp.mpf(sympy.Rational(x).p) / interp.mpf(sympy.Rational(x).q) for x in lam]
    # replace composite atoms by fresh symbols
    opaque_types = (AppliedUndef, sympy.Derivative, sympy.Integral, sympy.Sum, sympy.Product, sympy.Indexed,
        IndexedSum, IndexedProduct)
    rep: dict[Any, Any] = {}
    dim_of: dict[Any, Any] = {}

    def top_opaque(e: Any) -> None:
        if isinstance(e, opaque_types):
            if e not in rep:
                s = sympy.Dummy(f"op{len(rep)}", positive=True)
                rep[e] = s
                dim_of[s] = w.opaque.get(e, ANY)
            return
        if isinstance(e, sympy.Basic) and not isinstance(e, sympy.Symbol):
            for a in e.args:
                top_opaque(a)

    top_opaque(eq)
    flat = eq.xreplace(rep) if rep else eq
    atoms = [a for a in flat.atoms(sympy.Symbol) ] + list(flat.atoms(sympy.physics.units.Quantity))
    for a in atoms:
        if a not in dim_of:
            dim_of[a] = w.atom_dims.get(a, ANY)
    if any(d is ANY for d in dim_of.values()):
        return "skipped:wildcard-atom", []
    if any(isinstance(n, (sympy.Piecewise, sympy.MatrixBase, sympy.MatMul, sympy.Order)) or type(n).__name__ in
        ("Laplacian", "BaseScalar") for n in sympy.preorder_traversal(flat)):
        return "skipped:unsupported-node", []
    toks = {a: f"a{i}" for i, a in enumerate(sorted(set(atoms), key=lambda x: (type(x).__name__, str(x), str(getattr(x, 'display_name', '')))))}
    kinds = {t: ("positive" if a.is_positive else ("integer" if a.is_integer else "real")) for a, t in toks.items()}
    base_env = interp.Env(salt, kinds)
    # values consistent with numeric dimension exponents that may mention dimensionless symbols (p V^gamma)
    scaled_fixed: dict[str, Any] = {}
    try:
        for a, t in toks.items():
            v = base_env.value(t)
            f = interp.mpf(1)
            for lv, ex in zip(lam_v, dim_of[a]):
                if ex == 0:
                    continue
                exv = ex if ex.is_number else None
                if exv is None:
                    return "skipped:symbolic-leaf-exponent", []
                f = f * interp.power(lv, interp.mpf(exv.p) / interp.mpf(exv.q) if exv.is_Rational else interp.mpf(str(exv)))
            scaled_fixed[t] = v * f
    except interp.IllConditioned:
        return "ill", []
    env0 = base_env
    env1 = interp.Env(salt, kinds, fixed=scaled_fixed)
    ev = interp.SymEval(lambda a: toks[a])
    problems: list[str] = []
    tol = interp.mpf(10)**-20

    def ratio(e: Any) -> Any:
        a = ev(e, env0)
        b = ev(e, env1)
        if a == 0 or b == 0:
            return None
        return b / a

    def check_same(items: list[Any], what: str) -> None:
        rs = []
        for it in items:
            r = ratio(it)
            if r is not None:
                rs.append((r, it))
        for r, it in rs[1:]:
            if abs(r - rs[0][0]) > tol * (abs(r) + abs(rs[0][0])):
                problems.append(f"{what}: '{_s(rs[0][1].xreplace({v: k for k, v in rep.items()}))}' scales by "
                    f"{interp.nstr(rs[0][0], 12)} but '{_s(it.xreplace({v: k for k, v in rep.items()}))}' by {interp.nstr(r, 12)}")

    def check_one(e: Any, what: str) -> None:
        r = ratio(e)
        if r is not None and abs(r - 1) > tol * (abs(r) + 1):
            problems.append(f"{what} '{_s(e.xreplace({v: k for k, v in rep.items()}))}' changes by factor {interp.nstr(r, 12)} under a change of units")

    try:
        for n in sympy.preorder_traversal(flat):
            if isinstance(n, sympy.core.relational.Relational):
                check_same([n.lhs, n.rhs], "sides of a relation")
            elif isinstance(n, sympy.Add):
                check_same(list(n.args), "terms of a sum")
            elif isinstance(n, sympy.Pow):
                if not n.exp.is_number:
                    check_one(n.exp, "exponent")
            elif isinstance(n, sympy.Function) and type(n).__name__ in _DIMLESS_ARG:
                for a in n.args:
                    if not a.is_number:
                        check_one(a, f"argument of {type(n).__name__}")
            elif isinstance(n, sympy.functions.elementary.miscellaneous.MinMaxBase):
                check_same(list(n.args), "arguments of min/max")
    except interp.IllConditioned:
        return "ill", []
    except interp.Uninterpretable as exc:
        return f"skipped:uninterpretable:{exc}", []
    return "ok", problems


# ------------------------------------------------------------------------------------------------
# driver


def judge_equation(module: str, attr: str, eq: Any, pairs: list[tuple[int, list[str]]], rec: Recorder | None) -> list[tuple[str, str]]:
    site = f"{short(module)}:{attr}"
    w, _d = part_a(eq)
    out: list[tuple[str, str]] = []
    a_bad = bool(w.viol)
    b_bad = False
    b_ran = 0
    b_msgs: list[str] = []
    for salt, lam in pairs:
        status, problems = scaling_violations(eq, w, salt, lam)
        if rec is not None:
            rec.count("partB:" + status.split(":")[0] + (":" + status.split(":")[1] if status.startswith("skipped") else ""))
        if status != "ok":
            continue
        b_ran += 1
        if problems:
            b_bad = True
            b_msgs = problems
    nt_dims = {d.text() for d in list(w.atom_dims.values()) + list(w.opaque.values()) if d is not ANY and not d.is_dimensionless}
    if rec is not None:
        rec.case({"eq": site}, nontrivial=len(nt_dims) >= 2, labels=["equation"] + (["partA:violation"] if a_bad else []),
            sample={"equation": site, "atoms": sorted(nt_dims)[:6], "pairs": pairs[:1]} if len(rec.samples) < 3 and len(nt_dims) >= 2 else None)
        for salt, lam in pairs:
            occurring = [i for i in range(7) if any(d is not ANY and d[i] != 0 for d in list(w.atom_dims.values()) + list(w.opaque.values()))]
            nt = sum(1 for i in occurring if lam[i] != "1") >= 2 and b_ran > 0
            rec.case({"eq": site, "salt": salt, "lam": lam}, nontrivial=nt, labels=["partB-case"])
        if w.unknown:
            rec.notes.setdefault("unsupported_nodes", []).append(f"{site}: {sorted(set(w.unknown))}")
    if a_bad:
        path, msg = w.viol[0]
        out.append((f"inhomogeneous:{site}", f"{site}: {msg} (at {path}); {len(w.viol)} node(s) flagged"
            + (f"; numeric scaling test agrees: {b_msgs[0]}" if b_bad else "")))
        if b_ran and not b_bad and w.viol_visible:
            raise AssertionError(f"C01 self-check: walker flags {site} ({msg}) but the numeric scaling test ran and is clean")
    elif b_bad:
        raise AssertionError(f"C01 self-check: numeric scaling test flags {site} ({b_msgs[0]}) but the walker is clean")
    return out


def _shard(task: dict[str, Any]) -> Recorder:
    rec = Recorder()
    mods = task["mods"]
    k = task["k"]
    collected: list[list[tuple[int, list[str]]]] = []

    def body(pairs: list[tuple[int, list[str]]]) -> None:
        collected.append(pairs)

    hyp_run(st.lists(st.tuples(st.integers(1, 10**6), lambda_strategy()), min_size=k, max_size=k), body,
        max(len(mods) * 2, 8), task["seed"])
    idx = 0
    for mod in mods:
        try:
            m = import_module(mod)
        except Exception as exc:  # pylint: disable=broad-except
            rec.count("module_not_importable")
            rec.notes.setdefault("import_failures", []).append(f"{short(mod)}: {type(exc).__name__}")
            continue
        for attr, eq in public_equations(m):
            pairs = collected[idx % len(collected)]
            idx += 1
            for key, what in judge_equation(mod, attr, eq, pairs, rec):
                rec.violation(key, what, {"module": mod, "attr": attr, "pairs": pairs})
    return rec


def run(ctx: Ctx) -> None:
    mods = module_names()
    k = ctx.pick(2, 20)
    chunks = [mods[i::32] for i in range(32)]
    tasks = [{"mods": c, "k": k, "seed": ctx.seed * 1000 + i} for i, c in enumerate(chunks)]
    for status, val in run_tasks(_shard, tasks):
        if status != "ok":
            raise RuntimeError(f"{PID} shard failed: {status}: {val}")
        ctx.merge(val)
    ctx.exhaustive = True
    ctx.notes["modules"] = len(mods)
    ctx.assumptions += [
        "declared dimensions of leaves are read with dimsys_SI.get_dimensional_dependencies on that single leaf; all composition is harness arithmetic",
        "plain SymPy symbols (integration constants, dummies, indices), any_dimension symbols, zero/infinite numbers and O() terms are wildcards",
        "log() is not constrained (the property does not list it); special functions other than exp/trig/hyperbolic are not constrained",
        "modules that fail to import are listed in evidence and belong to C03",
        "part B treats applied functions, derivatives, integrals, sums and indexed atoms as opaque atoms scaled by their rule-derived dimension",
    ]


def replay(case: dict[str, Any]) -> list[tuple[str, str]]:
    m = import_module(case["module"])
    for attr, eq in public_equations(m):
        if attr == case["attr"]:
            return judge_equation(case["module"], attr, eq, [tuple(p) for p in case["pairs"]], None)
    return []
