"""C10 - Cartesian vector arithmetic obeys vector-space, dot and cross product laws.

Three case families (all plain-JSON descriptions):
 * "laws"   - vectors a, b, c (lengths 0..3 each) and scalars k, l in ONE Cartesian system; the whole battery
              of value clauses (library result == harness component model) and law clauses (identities between
              library results) is judged on every case.  The 64 length triples with generic distinct symbols
              are enumerated exhaustively on every run; further cases are Hypothesis-generated (rationals,
              dyadic floats, shared symbols, small polynomials, own base scalars, zeros in generated places).
 * "refuse" - finite enumeration of (operation, coordinate-system combination, operand lengths) that the
              property says must be refused.
Oracle: textbook component formulas over `Fraction` (harness code, no library/SymPy arithmetic involved) at 3
rational assignments of the symbols, plus - for the symbolic cases - the residual of every clause reduced by
expand/cancel, which decides polynomial and rational identities.
"""
from __future__ import annotations

import functools
import itertools
import time
import traceback
from fractions import Fraction
from typing import Any, Callable

from hypothesis import strategies as st

from ..boot import Ctx, Recorder
from ..hyp import hyp_run
from ..model import r3
from ..pool import run_tasks, shard_counts
from ..shrink import shrink

PID = "C10"
RULE = ("(i) exhaustive: all 64 length triples (len a, len b, len c) in {0..3}^3 with components = distinct generic "
    "symbols and symbolic scalars k, l (covers all 16 pair shapes); (ii) Hypothesis-generated cases: lengths 0..3 "
    "drawn independently, components from a per-case flavour (rationals / dyadic floats / shared symbols / small "
    "polynomials in shared symbols / own base scalars), zeros in generated positions, scalars k, l likewise, symbols "
    "plain, real or positive, system = own CoordinateSystem object or the library default; every case runs the whole "
    "battery (values of add/add3/subtract/subtract3/scale/dot/magnitude/cross/unit/project/reject against the harness "
    "Fraction model at 3 rational assignments; laws: commutative, associative, subtract-inverse, two distributive laws, "
    "dot symmetric/bilinear, |a|^2 = a.a, cross bilinear/antisymmetric/orthogonal/Lagrange, project+reject, "
    "reject orthogonal, |unit| = 1, equal_vectors agreement); (iii) exhaustive refusal table: operations x "
    "coordinate-system combinations x operand lengths. Non-trivial = len a != len b or min(len a, len b) < 3 "
    "(padding path), or a/b have symbolic components; every refusal-table case counts as non-trivial (each is a "
    "distinct operation/system-combination/length triple). Distinct by hash of the whole case description without "
    "assignments.")

NSYM = 8  # symbol pool s0..s7 (generic shapes use distinct ones via their own names)
NASSIGN = 3
TOL_EXACT = 1e-30
TOL_FLOAT = 1e-9

# ------------------------------------------------------------------------------------------------
# component descriptions:  ["n","p/q"] | ["f","p/q"] (python float, dyadic) | ["s",i] | ["bs",i]
#                          | ["+",c,c] | ["*",c,c] | ["-",c]


def _atoms_of(d: Any, out: set[str]) -> None:
    if d[0] in ("n", "f"):
        out.add(d[0])
        return
    if d[0] in ("s", "bs"):
        out.add(d[0])
        return
    for x in d[1:]:
        _atoms_of(x, out)


def m_eval(d: Any, env: dict[str, list[Fraction]]) -> Fraction:
    """Model value of a component description (exact)."""
    op = d[0]
    if op in ("n", "f"):
        return Fraction(d[1])
    if op == "s":
        return env["s"][d[1]]
    if op == "bs":
        return env["bs"][d[1]]
    if op == "+":
        return m_eval(d[1], env) + m_eval(d[2], env)
    if op == "*":
        return m_eval(d[1], env) * m_eval(d[2], env)
    if op == "-":
        return -m_eval(d[1], env)
    raise ValueError(op)


# textbook component formulas (harness-owned)


def m_pad(v: list[Fraction]) -> list[Fraction]:
    return list(v) + [Fraction(0)] * (3 - len(v))


def m_add(a: list[Fraction], b: list[Fraction]) -> list[Fraction]:
    a, b = m_pad(a), m_pad(b)
    return [a[0] + b[0], a[1] + b[1], a[2] + b[2]]


def m_scale(k: Fraction, a: list[Fraction]) -> list[Fraction]:
    return [k * x for x in m_pad(a)]


def m_dot(a: list[Fraction], b: list[Fraction]) -> Fraction:
    a, b = m_pad(a), m_pad(b)
    return a[0] * b[0] + a[1] * b[1] + a[2] * b[2]


def m_cross(a: list[Fraction], b: list[Fraction]) -> list[Fraction]:
    a, b = m_pad(a), m_pad(b)
    return [a[1] * b[2] - a[2] * b[1], a[2] * b[0] - a[0] * b[2], a[0] * b[1] - a[1] * b[0]]


def _mp(x: Any) -> Any:
    if isinstance(x, Fraction):
        return r3.mpf(x.numerator) / r3.mpf(x.denominator)
    return x


# ------------------------------------------------------------------------------------------------
# generator


def _rat(nonzero: bool = False) -> st.SearchStrategy[Any]:
    ints = st.integers(-9, 9)
    if nonzero:
        ints = ints.filter(lambda x: x != 0)
    return st.builds(lambda n, d: ["n", f"{n}/{d}"], ints, st.integers(1, 4))


def _flt() -> st.SearchStrategy[Any]:
    return st.builds(lambda n: ["f", f"{n}/8"], st.integers(-32, 32))


ZERO = ["n", "0/1"]


@functools.lru_cache(maxsize=None)
def _comp(flavour: str) -> st.SearchStrategy[Any]:
    zero = st.just(ZERO)
    sym = st.builds(lambda i: ["s", i], st.integers(0, NSYM - 1))
    bs = st.builds(lambda i: ["bs", i], st.integers(0, 2))
    if flavour == "numeric":
        return st.one_of(_rat(), _rat(), _rat(), zero)
    if flavour == "float":
        return st.one_of(_flt(), _flt(), _flt(), zero)
    if flavour == "symbolic":
        return st.one_of(sym, sym, sym, sym, zero, _rat())
    atom = st.one_of(sym, sym, _rat(True)) if flavour == "poly" else st.one_of(bs, bs, sym, _rat(True))
    node = st.one_of(atom, st.builds(lambda a, b: ["+", a, b], atom, atom),
        st.builds(lambda a, b: ["*", a, b], atom, atom), st.builds(lambda a: ["-", a], atom))
    node2 = st.one_of(node, node, st.builds(lambda a, b: ["+", a, b], node, node),
        st.builds(lambda a, b: ["*", a, b], node, atom))
    return st.one_of(node2, node2, node2, atom, zero)


def _assign_strategy() -> st.SearchStrategy[Any]:
    val = st.builds(lambda n, d: f"{n}/{d}", st.integers(-9, 9).filter(lambda x: x != 0), st.integers(1, 4))
    one = st.fixed_dictionaries({"s": st.lists(val, min_size=NSYM, max_size=NSYM),
        "bs": st.lists(val, min_size=3, max_size=3)})
    return st.lists(one, min_size=NASSIGN, max_size=NASSIGN)


@st.composite
def case_strategy(draw: Any) -> Any:
    flavour = draw(st.sampled_from(["numeric", "numeric", "float", "symbolic", "symbolic", "poly", "poly", "bs"]))
    comp = _comp(flavour)
    vecs = []
    for _ in range(3):
        n = draw(st.integers(0, 3))
        vecs.append([draw(comp) for _ in range(n)])
    # now and then: b is a multiple/copy of a (parallel operands), or c == a
    twist = draw(st.integers(0, 11))
    if twist == 0:
        vecs[1] = list(vecs[0])
    elif twist == 1:
        vecs[2] = list(vecs[0])
    k = draw(comp)
    l = draw(comp)
    symkind = draw(st.sampled_from(["plain", "real", "positive"]))
    sysk = "own" if flavour == "bs" else draw(st.sampled_from(["own", "own", "default"]))
    return {"mode": "laws", "flavour": flavour, "sys": sysk, "symkind": symkind, "a": vecs[0], "b": vecs[1],
        "c": vecs[2], "k": k, "l": l, "assign": draw(_assign_strategy())}


_GENERIC_ASSIGN = [
    {"s": ["2/1", "-3/2", "5/3", "-7/4", "1/2", "4/1", "-5/1", "3/4"], "bs": ["1/1", "1/1", "1/1"]},
    {"s": ["-1/3", "7/2", "2/3", "9/4", "-6/1", "1/4", "8/3", "-2/1"], "bs": ["1/1", "1/1", "1/1"]},
    {"s": ["5/1", "1/3", "-4/3", "-1/2", "7/3", "-9/2", "3/2", "6/1"], "bs": ["1/1", "1/1", "1/1"]},
]


def generic_case(la: int, lb: int, lc: int, symkind: str = "plain") -> dict[str, Any]:
    """Components = distinct generic symbols: a uses g0..g2, b g3..g5, c g6..g8, k g9, l g10."""
    return {"mode": "laws", "flavour": "generic", "sys": "own", "symkind": symkind,
        "a": [["s", i] for i in range(la)], "b": [["s", 3 + i] for i in range(lb)],
        "c": [["s", 6 + i] for i in range(lc)], "k": ["s", 9], "l": ["s", 10],
        "assign": [{"s": a["s"] + ["-3/1", "5/2", "2/1"], "bs": a["bs"]} for a in _GENERIC_ASSIGN]}


# ------------------------------------------------------------------------------------------------
# execution of one "laws" case


def _exc_key(exc: BaseException) -> str:
    tb = traceback.extract_tb(exc.__traceback__)
    frame = "?"
    for fr in tb:
        if "symplyphysics" in fr.filename:
            frame = f"{fr.filename.split('symplyphysics/')[-1]}:{fr.name}"
    return f"exception:{type(exc).__name__}@{frame}"


class _World:
    """Library objects for one laws case."""

    def __init__(self, case: dict[str, Any]) -> None:
        import sympy
        from symplyphysics import CoordinateSystem, Vector
        self.sympy = sympy
        nsym = max(NSYM, 11)
        kind = case.get("symkind", "plain")
        kw: dict[str, Any] = {} if kind == "plain" else ({"real": True} if kind == "real" else {"positive": True})
        self.syms = [sympy.Symbol(f"s{i}", **kw) for i in range(nsym)]
        self.positive = kind == "positive"
        self.default_sys = case.get("sys") == "default"
        self.cs = None if self.default_sys else CoordinateSystem()
        base_sys = Vector([]).coordinate_system if self.default_sys else self.cs
        self.bs = list(base_sys.coord_system.base_scalars())
        self.Vector = Vector
        self.has_float = False

    def comp(self, d: Any) -> Any:
        sympy = self.sympy
        op = d[0]
        if op == "n":
            return sympy.Rational(d[1])
        if op == "f":
            self.has_float = True
            return float(Fraction(d[1]))
        if op == "s":
            return self.syms[d[1]]
        if op == "bs":
            return self.bs[d[1]]
        if op == "+":
            return self.comp(d[1]) + self.comp(d[2])
        if op == "*":
            return self.comp(d[1]) * self.comp(d[2])
        if op == "-":
            return -self.comp(d[1])
        raise ValueError(op)

    def vec(self, comps: list[Any]) -> Any:
        cs = [self.comp(c) for c in comps]
        return self.Vector(cs) if self.default_sys else self.Vector(cs, self.cs)

    def envs(self, assign: dict[str, Any]) -> tuple[dict[str, list[Fraction]], dict[Any, Any]]:
        sympy = self.sympy
        svals = [Fraction(x) for x in assign["s"]]
        while len(svals) < len(self.syms):
            svals.append(Fraction(1))
        if self.positive:
            svals = [abs(x) for x in svals]
        bvals = [Fraction(x) for x in assign["bs"]]
        menv = {"s": svals, "bs": bvals}
        lenv: dict[Any, Any] = {}
        for s, v in zip(self.syms, svals):
            lenv[s] = sympy.Rational(v.numerator, v.denominator)
        for s, v in zip(self.bs, bvals):
            lenv[s] = sympy.Rational(v.numerator, v.denominator)
        return menv, lenv


class Undefined(Exception):
    pass


def lib_value(e: Any, lenv: dict[Any, Any]) -> Any:
    """Value of a library scalar at one assignment: Fraction when exactly rational, else mpf (50 digits)."""
    import sympy
    e = sympy.sympify(e)
    r = e.xreplace(lenv) if e.free_symbols else e
    if r.is_Rational:
        return Fraction(int(r.p), int(r.q))
    if r.has(sympy.nan, sympy.zoo, sympy.oo, -sympy.oo):
        raise Undefined(str(r))
    v = sympy.N(r, 50)
    if not v.is_Float:
        im = sympy.im(v)
        if v.is_number and abs(im) < 1e-40:
            v = sympy.re(v)
        if not v.is_Float:
            if v.is_Rational:
                return Fraction(int(v.p), int(v.q))
            raise Undefined(f"not a real number: {v}")
    return r3.MP.make_mpf(v._mpf_)  # pylint: disable=protected-access


def values_close(got: Any, want: Any, tol: float, scale: Any) -> bool:
    if isinstance(got, Fraction) and isinstance(want, Fraction) and tol == TOL_EXACT:
        return got == want
    g, w = _mp(got), _mp(want)
    return bool(abs(g - w) <= tol * (scale + abs(g) + abs(w)))


def sym_zero(d: Any) -> bool | None:
    """Decide a residual symbolically: True/False for polynomial / rational-function residuals, None if the
    residual is outside that class (floats, radicals) - then only the numeric verdict counts."""
    import sympy
    d = sympy.expand(sympy.sympify(d))
    if d == 0:
        return True
    if d.has(sympy.Float) or d.has(sympy.nan, sympy.zoo):
        return None
    syms = sorted(d.free_symbols, key=str)
    if not d.is_rational_function(*syms):
        return None
    return bool(sympy.cancel(sympy.together(d)) == 0)


def judge_laws(case: dict[str, Any]) -> tuple[list[tuple[str, str]], list[str]]:
    """Returns (violations [(key, what)], labels)."""
    # pylint: disable=too-many-locals,too-many-statements,too-many-branches
    from symplyphysics.core.vectors.arithmetics import (add_cartesian_vectors, cross_cartesian_vectors, dot_vectors,
        equal_vectors, project_vector, reject_cartesian_vector, scale_vector, subtract_cartesian_vectors,
        vector_magnitude, vector_unit)
    out: list[tuple[str, str]] = []
    labels: list[str] = []
    w = _World(case)
    la, lb, lc = len(case["a"]), len(case["b"]), len(case["c"])
    shape = f"shape={la}{lb}{lc}"
    try:
        A, B, C = w.vec(case["a"]), w.vec(case["b"]), w.vec(case["c"])
        K, L = w.comp(case["k"]), w.comp(case["l"])
    except Exception as exc:  # pylint: disable=broad-except
        return [(_exc_key(exc), f"{type(exc).__name__}: {exc} while constructing vectors {shape}")], labels
    tol = TOL_FLOAT if w.has_float else TOL_EXACT
    envs = [w.envs(a) for a in case["assign"]]
    # scale for float tolerance: (1 + max |input value|)^4 (degree of the Lagrange identity)
    mvals = []
    for menv, _ in envs:
        a = [m_eval(c, menv) for c in case["a"]]
        b = [m_eval(c, menv) for c in case["b"]]
        c = [m_eval(c_, menv) for c_ in case["c"]]
        k, l = m_eval(case["k"], menv), m_eval(case["l"], menv)
        mvals.append((a, b, c, k, l))
    big = max([abs(x) for a, b, c, k, l in mvals for x in (*a, *b, *c, k, l)] + [Fraction(0)])
    scale = _mp((1 + big)**4) if w.has_float else r3.mpf(1)
    symbolic = bool(A.components or B.components or C.components) and not w.has_float
    # generic symbols carry no assumption, so the identities are claimed for complex values too: one Gaussian-rational
    # assignment for the law clauses (library result against library result; the Fraction model stays real)
    cenv: dict[Any, Any] | None = None
    if symbolic and case.get("symkind", "plain") == "plain" and envs:
        real0 = envs[0][1]
        vals0 = [real0[s] for s in w.syms]
        cenv = dict(real0)
        for i, s in enumerate(w.syms):
            cenv[s] = vals0[i] + w.sympy.I * (vals0[(i + 1) % len(vals0)] / 2 + w.sympy.Rational(1 + i % 3, 3))
        labels.append("complex_assignment")

    def cvalue(e: Any) -> Any:
        """Complex value at the Gaussian-rational assignment, or None when undefined there (isotropic vectors)."""
        assert cenv is not None
        e = w.sympy.sympify(e)
        r = e.xreplace(cenv) if e.free_symbols else e
        if r.has(w.sympy.nan, w.sympy.zoo, w.sympy.oo, -w.sympy.oo):
            return None
        v = w.sympy.N(r, 50)
        if not v.is_number or v.has(w.sympy.nan, w.sympy.zoo, w.sympy.oo) or v.free_symbols:
            return None
        return v

    def comps(v: Any) -> list[Any]:
        cs = list(v.components)
        if len(cs) > 3:
            raise ValueError(f"library vector with {len(cs)} components")
        return cs + [w.sympy.S.Zero] * (3 - len(cs))

    def fail(key: str, what: str) -> None:
        if not any(k == key for k, _ in out):
            out.append((key, f"{what} [{shape} a={case['a']} b={case['b']} c={case['c']} k={case['k']} l={case['l']}]"))

    def guarded(key: str, fn: Callable[[], Any]) -> Any:
        try:
            return fn()
        except Exception as exc:  # pylint: disable=broad-except
            fail(_exc_key(exc), f"{key}: {type(exc).__name__}: {exc}")
            return None

    def check_value(name: str, got_expr: Any, model: Callable[[Any], Any], *, skip: Callable[[Any], bool] | None = None,
        sqrt_of: bool = False) -> None:
        """library scalar/vector vs model at every assignment."""
        if got_expr is None:
            return
        key = f"value:{name}"
        is_vec = hasattr(got_expr, "components")
        try:
            gots = comps(got_expr) if is_vec else [got_expr]
        except ValueError as exc:
            fail(key, str(exc))
            return
        for (menv, lenv), mv in zip(envs, mvals):
            if skip is not None and skip(mv):
                continue
            want = model(mv)
            wants = want if is_vec else [want]
            for i, (g, wv) in enumerate(zip(gots, wants)):
                if sqrt_of:
                    wv = r3.MP.sqrt(_mp(wv))
                try:
                    gv = lib_value(g, lenv)
                except Undefined as exc:
                    fail(key, f"{name}[{i}] undefined ({exc}) where model gives {wv}")
                    return
                if not values_close(gv, wv, tol, scale):
                    fail(key, f"{name}[{i}] library={g} -> {gv} model={wv} at s={[str(x) for x in menv['s']]}")
                    return

    def check_law(name: str, lhs: Any, rhs: Any, *, skip: Callable[[Any], bool] | None = None,
        judged_any: bool = True) -> None:
        """identity between two library results (vectors or scalars): numeric at every assignment +
        symbolic residual."""
        if lhs is None or rhs is None:
            return
        key = f"law:{name}"
        is_vec = hasattr(lhs, "components")
        try:
            ls = comps(lhs) if is_vec else [lhs]
            rs = comps(rhs) if hasattr(rhs, "components") else [rhs]
        except ValueError as exc:
            fail(key, str(exc))
            return
        for (menv, lenv), mv in zip(envs, mvals):
            if skip is not None and skip(mv):
                continue
            for i, (x, y) in enumerate(zip(ls, rs)):
                try:
                    xv, yv = lib_value(x, lenv), lib_value(y, lenv)
                except Undefined as exc:
                    fail(key, f"{name}[{i}] undefined: {exc}")
                    return
                if not values_close(xv, yv, tol, scale):
                    fail(key, f"{name}[{i}] lhs={x} -> {xv} rhs={y} -> {yv} at s={[str(v) for v in menv['s']]}")
                    return
        if cenv is not None:
            for i, (x, y) in enumerate(zip(ls, rs)):
                try:
                    xc, yc = cvalue(x), cvalue(y)
                except Exception:  # pylint: disable=broad-except
                    xc = yc = None
                if xc is None or yc is None:
                    continue
                if abs(xc - yc) > w.sympy.Float("1e-30") * (1 + abs(xc) + abs(yc)):
                    fail(key, f"{name}[{i}] lhs={x} -> {w.sympy.N(xc, 12)} rhs={y} -> {w.sympy.N(yc, 12)} at the complex "
                        f"assignment { {str(k): str(v) for k, v in cenv.items() if (x - y).has(k)} } (generic symbols carry no assumption)")
                    return
        if symbolic and judged_any:
            for i, (x, y) in enumerate(zip(ls, rs)):
                verdict = sym_zero(x - y)
                if verdict is False:
                    fail(key, f"{name}[{i}] symbolic residual of lhs={x} rhs={y} is not zero")
                    return
                if verdict is None:
                    labels.append("symbolic_undecided")

    # -- values -------------------------------------------------------------------------------
    add_ab = guarded("add", lambda: add_cartesian_vectors(A, B))
    add_ba = guarded("add", lambda: add_cartesian_vectors(B, A))
    check_value("add", add_ab, lambda mv: m_add(mv[0], mv[1]))
    add_abc = guarded("add3", lambda: add_cartesian_vectors(A, B, C))
    check_value("add3", add_abc, lambda mv: m_add(m_add(mv[0], mv[1]), mv[2]))
    sub_ab = guarded("subtract", lambda: subtract_cartesian_vectors(A, B))
    check_value("subtract", sub_ab, lambda mv: m_add(mv[0], m_scale(Fraction(-1), mv[1])))
    sub_abc = guarded("subtract3", lambda: subtract_cartesian_vectors(A, B, C))
    check_value("subtract3", sub_abc,
        lambda mv: m_add(m_add(mv[0], m_scale(Fraction(-1), mv[1])), m_scale(Fraction(-1), mv[2])))
    ka = guarded("scale", lambda: scale_vector(K, A))
    check_value("scale", ka, lambda mv: m_scale(mv[3], mv[0]))
    dot_ab = guarded("dot", lambda: dot_vectors(A, B))
    dot_ba = guarded("dot", lambda: dot_vectors(B, A))
    check_value("dot", dot_ab, lambda mv: m_dot(mv[0], mv[1]))
    mag_a = guarded("magnitude", lambda: vector_magnitude(A))
    check_value("magnitude", mag_a, lambda mv: m_dot(mv[0], mv[0]), sqrt_of=True)
    cr_ab = guarded("cross", lambda: cross_cartesian_vectors(A, B))
    cr_ba = guarded("cross", lambda: cross_cartesian_vectors(B, A))
    check_value("cross", cr_ab, lambda mv: m_cross(mv[0], mv[1]))
    if cr_ab is not None and len(cr_ab.components) != 3:
        fail("value:cross", f"cross product has {len(cr_ab.components)} components")

    # -- vector-space laws --------------------------------------------------------------------
    check_law("add-commutative", add_ab, add_ba)
    ab_c = guarded("add", lambda: add_cartesian_vectors(add_ab, C)) if add_ab is not None else None
    bc = guarded("add", lambda: add_cartesian_vectors(B, C))
    a_bc = guarded("add", lambda: add_cartesian_vectors(A, bc)) if bc is not None else None
    check_law("add-associative", ab_c, a_bc)
    check_law("add-associative", ab_c, add_abc)
    back = guarded("add", lambda: add_cartesian_vectors(sub_ab, B)) if sub_ab is not None else None
    check_law("subtract-inverse", back, A)
    kb = guarded("scale", lambda: scale_vector(K, B))
    k_ab = guarded("scale", lambda: scale_vector(K, add_ab)) if add_ab is not None else None
    ka_kb = guarded("add", lambda: add_cartesian_vectors(ka, kb)) if ka is not None and kb is not None else None
    check_law("scale-distributes-over-vectors", k_ab, ka_kb)
    la_ = guarded("scale", lambda: scale_vector(L, A))
    kl_a = guarded("scale", lambda: scale_vector(K + L, A))
    ka_la = guarded("add", lambda: add_cartesian_vectors(ka, la_)) if ka is not None and la_ is not None else None
    check_law("scale-distributes-over-scalars", kl_a, ka_la)

    # -- dot ----------------------------------------------------------------------------------
    check_law("dot-symmetric", dot_ab, dot_ba)
    dot_ac = guarded("dot", lambda: dot_vectors(A, C))
    dot_bc = guarded("dot", lambda: dot_vectors(B, C))
    if add_ab is not None and dot_ac is not None and dot_bc is not None:
        check_law("dot-bilinear", guarded("dot", lambda: dot_vectors(add_ab, C)), dot_ac + dot_bc)
        check_law("dot-bilinear", guarded("dot", lambda: dot_vectors(C, add_ab)), dot_ac + dot_bc)
    if ka is not None and dot_ab is not None:
        check_law("dot-bilinear", guarded("dot", lambda: dot_vectors(ka, B)), K * dot_ab)
        check_law("dot-bilinear", guarded("dot", lambda: dot_vectors(B, ka)), K * dot_ab)
    if mag_a is not None:
        check_law("magnitude-squared", mag_a**2, guarded("dot", lambda: dot_vectors(A, A)))

    # -- cross --------------------------------------------------------------------------------
    if cr_ab is not None and cr_ba is not None:
        check_law("cross-antisymmetric", cr_ab, guarded("scale", lambda: scale_vector(-1, cr_ba)))
        check_law("cross-orthogonal", guarded("dot", lambda: dot_vectors(A, cr_ab)), w.sympy.S.Zero)
        check_law("cross-orthogonal", guarded("dot", lambda: dot_vectors(B, cr_ab)), w.sympy.S.Zero)
        check_law("cross-orthogonal", guarded("dot", lambda: dot_vectors(cr_ab, A)), w.sympy.S.Zero)
        mag_b = guarded("magnitude", lambda: vector_magnitude(B))
        mag_x = guarded("magnitude", lambda: vector_magnitude(cr_ab))
        if mag_a is not None and mag_b is not None and mag_x is not None and dot_ab is not None:
            check_law("lagrange", mag_x**2, mag_a**2 * mag_b**2 - dot_ab**2)
    cr_ac = guarded("cross", lambda: cross_cartesian_vectors(A, C))
    cr_bc = guarded("cross", lambda: cross_cartesian_vectors(B, C))
    cr_ca = guarded("cross", lambda: cross_cartesian_vectors(C, A))
    cr_cb = guarded("cross", lambda: cross_cartesian_vectors(C, B))
    if add_ab is not None and None not in (cr_ac, cr_bc, cr_ca, cr_cb):
        check_law("cross-bilinear", guarded("cross", lambda: cross_cartesian_vectors(add_ab, C)),
            guarded("add", lambda: add_cartesian_vectors(cr_ac, cr_bc)))
        check_law("cross-bilinear", guarded("cross", lambda: cross_cartesian_vectors(C, add_ab)),
            guarded("add", lambda: add_cartesian_vectors(cr_ca, cr_cb)))
    if ka is not None and cr_ab is not None:
        k_cr = guarded("scale", lambda: scale_vector(K, cr_ab))
        check_law("cross-bilinear", guarded("cross", lambda: cross_cartesian_vectors(ka, B)), k_cr)
        if kb is not None:
            check_law("cross-bilinear", guarded("cross", lambda: cross_cartesian_vectors(A, kb)), k_cr)

    # -- projection / rejection (target b must be a non-zero vector) --------------------------------
    def zero_b(mv: Any) -> bool:
        return m_dot(mv[1], mv[1]) == 0

    if all(zero_b(mv) for mv in mvals):
        labels.append("project_skipped_zero_target")
    else:
        labels.append("project_judged")
        pr = guarded("project", lambda: project_vector(A, B))
        rj = guarded("reject", lambda: reject_cartesian_vector(A, B))
        check_value("project", pr, lambda mv: m_scale(m_dot(mv[0], mv[1]) / m_dot(mv[1], mv[1]), mv[1]), skip=zero_b)
        check_value("reject", rj,
            lambda mv: m_add(mv[0], m_scale(-m_dot(mv[0], mv[1]) / m_dot(mv[1], mv[1]), mv[1])), skip=zero_b)
        if pr is not None and rj is not None:
            check_law("project-plus-reject", guarded("add", lambda: add_cartesian_vectors(pr, rj)), A, skip=zero_b)
            check_law("reject-orthogonal", guarded("dot", lambda: dot_vectors(rj, B)), w.sympy.S.Zero, skip=zero_b)
            check_law("reject-orthogonal", guarded("dot", lambda: dot_vectors(B, rj)), w.sympy.S.Zero, skip=zero_b)

    # -- unit vector (a must be a non-zero vector) -----------------------------------------------------
    def zero_a(mv: Any) -> bool:
        return m_dot(mv[0], mv[0]) == 0

    if all(zero_a(mv) for mv in mvals):
        labels.append("unit_skipped_zero_vector")
    else:
        labels.append("unit_judged")
        # prior history: the same component expressions normalised in a cylindrical and a spherical system first (the
        # magnitude formula depends on the system; nothing remembered from there may leak into the Cartesian call)
        try:
            from symplyphysics import CoordinateSystem as _CS  # pylint: disable=import-outside-toplevel
            for _t in (_CS.System.CYLINDRICAL, _CS.System.SPHERICAL):
                vector_unit(w.Vector(list(A.components), _CS(_t)))
        except Exception:  # pylint: disable=broad-except
            pass
        un = guarded("unit", lambda: vector_unit(A))

        def m_unit(mv: Any) -> list[Any]:
            n = r3.MP.sqrt(_mp(m_dot(mv[0], mv[0])))
            return [_mp(x) / n for x in m_pad(mv[0])]

        check_value("unit", un, m_unit, skip=zero_a)
        if un is not None:
            mag_u = guarded("magnitude", lambda: vector_magnitude(un))
            if mag_u is not None:
                check_law("unit-magnitude", mag_u, w.sympy.S.One, skip=zero_a, judged_any=False)
                check_law("unit-magnitude", mag_u**2, w.sympy.S.One, skip=zero_a)

    # -- equal_vectors (expr_comparisons) agrees with the component verdicts ------------------------
    if add_ab is not None and add_ba is not None and not w.has_float:
        eq = guarded("equal_vectors", lambda: equal_vectors(add_ab, add_ba))
        if eq is not None and eq is not True:
            fail("law:equal_vectors", f"equal_vectors(a+b, b+a) returned {eq}")
    if back is not None and not w.has_float:
        eq = guarded("equal_vectors", lambda: equal_vectors(back, A))
        if eq is not None and eq is not True:
            fail("law:equal_vectors", f"equal_vectors((a-b)+b, a) returned {eq}")
    if not w.has_float:
        shifted = guarded("add", lambda: add_cartesian_vectors(A, w.Vector([0, 0, 1], A.coordinate_system)))
        if shifted is not None:
            eq = guarded("equal_vectors", lambda: equal_vectors(shifted, A))
            if eq is not None and eq is not False:
                fail("law:equal_vectors", f"equal_vectors(a + e_z, a) returned {eq}")
    return out, labels


# ------------------------------------------------------------------------------------------------
# refusals

REFUSE_OPS = ("add", "subtract", "dot", "cross", "equal", "project", "reject")
# operations the property requires to refuse non-Cartesian operands even inside ONE system object
NONCART_OPS = ("add", "subtract", "cross", "reject")
COMBOS = ("cartA|cartB", "cart|cyl_child", "cart|sph_child", "cyl_child|cart", "sph_child|cart", "cyl_child|sph_child",
    "cylA|cylB", "sphA|sphB", "cyl|cyl", "sph|sph", "cart|cyl_free", "cyl_parent|cart_child",
    # system objects of DIFFERENT type built (public constructor) around the same inner SymPy system; two objects of the
    # same type around one inner system are the same coordinate system geometrically and are not judged either way
    "cart|cyl_same_inner", "cyl_same_inner|cart", "cart|sph_same_inner")
_LEN_PAIRS = [(i, j) for i in range(4) for j in range(4)]


def refusal_cases() -> list[dict[str, Any]]:
    cases: list[dict[str, Any]] = []
    for combo in COMBOS:
        same = combo in ("cyl|cyl", "sph|sph")
        for op in (NONCART_OPS if same else REFUSE_OPS):
            for la, lb in _LEN_PAIRS:
                cases.append({"mode": "refuse", "op": op, "combo": combo, "la": la, "lb": lb})
    # variadic forms: the foreign operand in third position / in first position
    for combo in ("cartA|cartB", "cart|cyl_child", "cyl|cyl"):
        for op in ("add3_last", "subtract3_last", "subtract3_first", "add3_middle"):
            for la, lb in ((3, 3), (2, 3), (0, 1)):
                cases.append({"mode": "refuse", "op": op, "combo": combo, "la": la, "lb": lb})
    # cross product of more than three components
    for la, lb in ((4, 3), (3, 4), (4, 4), (4, 0), (0, 4), (5, 2), (2, 5)):
        cases.append({"mode": "refuse", "op": "cross", "combo": "cart|cart", "la": la, "lb": lb})
    return cases


_COMPONENT_POOL = [3, -2, 5, 7, -1, 4]


def judge_refusal(case: dict[str, Any]) -> list[tuple[str, str]]:
    # pylint: disable=too-many-locals,too-many-branches
    import sympy
    from symplyphysics import CoordinateSystem, Vector, coordinates_transform
    from symplyphysics.core.vectors import arithmetics as ar
    S = CoordinateSystem.System
    combo, op = case["combo"], case["op"]
    left_name, right_name = combo.split("|")
    cart = CoordinateSystem()
    made: dict[str, Any] = {"cart": cart, "cartA": cart}

    def system(name: str) -> Any:
        if name in made:
            return made[name]
        if name == "cartB":
            cs = CoordinateSystem()
        elif name == "cyl_child":
            cs = coordinates_transform(cart, S.CYLINDRICAL)
        elif name == "sph_child":
            cs = coordinates_transform(cart, S.SPHERICAL)
        elif name in ("cyl", "cylA", "cylB", "cyl_free", "cyl_parent"):
            cs = CoordinateSystem(S.CYLINDRICAL)
        elif name in ("sph", "sphA", "sphB"):
            cs = CoordinateSystem(S.SPHERICAL)
        elif name == "cart_child":
            cs = coordinates_transform(made["cyl_parent"], S.CARTESIAN)
        elif name == "cart_same_inner":
            cs = CoordinateSystem(S.CARTESIAN, cart.coord_system)
        elif name == "cyl_same_inner":
            cs = CoordinateSystem(S.CYLINDRICAL, cart.coord_system)
        elif name == "sph_same_inner":
            cs = CoordinateSystem(S.SPHERICAL, cart.coord_system)
        else:
            raise ValueError(name)
        made[name] = cs
        return cs

    ls = system(left_name)
    rs = system(right_name)
    # components: small non-zero rationals (angles included: any value is a legitimate curvilinear component)
    lc = [sympy.Rational(_COMPONENT_POOL[i % 6], 2) for i in range(case["la"])]
    rc = [sympy.Rational(_COMPONENT_POOL[(i + 2) % 6], 3) for i in range(case["lb"])]
    a, b = Vector(lc, ls), Vector(rc, rs)
    a2 = Vector(list(reversed(lc)), ls)  # a second vector in the left system
    calls: dict[str, Callable[[], Any]] = {
        "add": lambda: ar.add_cartesian_vectors(a, b),
        "subtract": lambda: ar.subtract_cartesian_vectors(a, b),
        "dot": lambda: ar.dot_vectors(a, b),
        "cross": lambda: ar.cross_cartesian_vectors(a, b),
        "equal": lambda: ar.equal_vectors(a, b),
        "project": lambda: ar.project_vector(a, b),
        "reject": lambda: ar.reject_cartesian_vector(a, b),
        "add3_last": lambda: ar.add_cartesian_vectors(a, a2, b),
        "add3_middle": lambda: ar.add_cartesian_vectors(a, b, a2),
        "subtract3_last": lambda: ar.subtract_cartesian_vectors(a, a2, b),
        "subtract3_first": lambda: ar.subtract_cartesian_vectors(b, a, a2),
    }
    same_object = ls is rs
    if combo == "cart|cart":
        allowed: tuple[type, ...] = (ValueError,)
        why = "more than three components"
    elif same_object:
        allowed = (ValueError,)
        why = f"non-Cartesian operands ({left_name})"
    else:
        allowed = (TypeError, ValueError)
        why = f"operands in different coordinate-system objects ({combo})"
    key = f"refusal:{op}:{combo}"
    try:
        res = calls[op]()
    except allowed:
        return []
    except Exception as exc:  # pylint: disable=broad-except
        return [(key, f"{op} with {why}, lengths {case['la']},{case['lb']}: raised {type(exc).__name__} ({exc}) "
            f"instead of {'/'.join(t.__name__ for t in allowed)}")]
    shown = getattr(res, "components", res)
    return [(key, f"{op} with {why}, lengths {case['la']},{case['lb']}: not refused, returned {shown}")]


# ------------------------------------------------------------------------------------------------
# driver


def _desc(case: dict[str, Any]) -> dict[str, Any]:
    return {k: v for k, v in case.items() if k != "assign"}


def nontrivial(case: dict[str, Any]) -> bool:
    if case["mode"] in ("refuse", "scaled"):
        return True
    lens = [len(case["a"]), len(case["b"]), len(case["c"])]
    if len(set(lens[:2])) > 1 or min(lens[:2]) < 3:
        return True
    ats: set[str] = set()
    for v in (case["a"], case["b"]):
        for c in v:
            _atoms_of(c, ats)
    return bool(ats & {"s", "bs"})


def _labels(case: dict[str, Any]) -> list[str]:
    la, lb, lc = len(case["a"]), len(case["b"]), len(case["c"])
    labs = [f"flavour={case['flavour']}", f"sys={case['sys']}", f"symkind={case['symkind']}", f"len_ab={la}{lb}",
        f"len_c={lc}"]
    if la != lb:
        labs.append("pad:lengths_differ")
    if min(la, lb) < 3:
        labs.append("pad:short_operand")
    if la == lb == 3:
        labs.append("no_padding")
    ats: set[str] = set()
    zero = False
    for v in (case["a"], case["b"], case["c"]):
        for c in v:
            _atoms_of(c, ats)
            zero = zero or c == ZERO
    if ats & {"s", "bs"}:
        labs.append("symbolic_components")
    if zero:
        labs.append("explicit_zero_component")
    if case["a"] == case["b"] and la:
        labs.append("a_equals_b")
    return labs


# ------------------------------------------------------------------------------------------------
# float vectors at microscopic / astronomic scale: the same laws, judged RELATIVE to the vectors (dyadic scale factors,
# so that the scaled components are exact binary numbers and the Fraction model stays exact)


@st.composite
def scaled_case(draw: Any) -> dict[str, Any]:
    comp = st.integers(-40, 40).filter(lambda x: x != 0)
    return {"mode": "scaled", "a": [draw(comp) for _ in range(draw(st.integers(1, 3)))],
        "b": [draw(comp) for _ in range(draw(st.integers(1, 3)))],
        "ea": draw(st.sampled_from([-70, -100, -60, 40, 0])), "eb": draw(st.sampled_from([0, 0, -70, 10]))}


def judge_scaled(case: dict[str, Any]) -> tuple[list[tuple[str, str]], list[str]]:
    import sympy
    from symplyphysics import Vector
    from symplyphysics.core.vectors import arithmetics as ar
    fa, fb = Fraction(2)**case["ea"], Fraction(2)**case["eb"]
    ma = m_pad([Fraction(x) * fa for x in case["a"]])
    mb = m_pad([Fraction(x) * fb for x in case["b"]])
    A = Vector([sympy.Float(float(x)) for x in ma[:len(case["a"])]])
    B = Vector([sympy.Float(float(x)) for x in mb[:len(case["b"])]])
    na2, nb2, dab = m_dot(ma, ma), m_dot(mb, mb), m_dot(ma, mb)
    la, lb_ = _mp(na2)**0.5, _mp(nb2)**0.5
    out: list[tuple[str, str]] = []
    labels = [f"scaled:ea={case['ea']}", f"scaled:eb={case['eb']}"]
    ctxt = f"[a={case['a']}*2^{case['ea']} b={case['b']}*2^{case['eb']}]"

    def vec_near(key: str, what: str, got: Any, want: list[Fraction], scale: Any) -> None:
        if got is None or any(k == key for k, _ in out):
            return
        comps = list(got.components) + [0] * (3 - len(got.components))
        for i in range(3):
            try:
                g = _mp(lib_value(comps[i], {}))
            except Undefined as exc:
                out.append((key, f"{what}: component {i} undefined ({exc}) {ctxt}"))
                return
            if abs(g - _mp(want[i])) > _mp(Fraction(1, 10**11)) * scale:
                out.append((key, f"{what}: component {i} is {g}, expected {_mp(want[i])} (relative to the vector length {scale}) {ctxt}"))
                return

    def guard(key: str, fn: Callable[[], Any]) -> Any:
        try:
            return fn()
        except Exception as exc:  # pylint: disable=broad-except
            out.append((_exc_key(exc), f"{key}: {type(exc).__name__}: {exc} {ctxt}"))
            return None

    pr = guard("project", lambda: ar.project_vector(A, B))
    rj = guard("reject", lambda: ar.reject_cartesian_vector(A, B))
    k = dab / nb2
    want_pr = [k * x for x in mb]
    want_rj = [x - y for x, y in zip(ma, want_pr)]
    vec_near("scaled:project", "project_vector(a, b)", pr, want_pr, la)
    vec_near("scaled:reject", "reject_cartesian_vector(a, b)", rj, want_rj, la)
    if pr is not None and rj is not None:
        vec_near("scaled:project-plus-reject", "project + reject", guard("add", lambda: ar.add_cartesian_vectors(pr, rj)), ma, la)
    vec_near("scaled:cross", "cross_cartesian_vectors(a, b)", guard("cross", lambda: ar.cross_cartesian_vectors(A, B)),
        m_cross(ma, mb), la * lb_)
    sc = guard("scale", lambda: ar.scale_vector(sympy.Float(2.0**-30), A))
    vec_near("scaled:scale", "scale_vector(2^-30, a)", sc, [x * Fraction(2)**-30 for x in ma], la * _mp(Fraction(2)**-30))
    un = guard("unit", lambda: ar.vector_unit(A))
    if un is not None:
        try:
            m2 = _mp(lib_value(ar.dot_vectors(un, un), {}))
            if abs(m2 - 1) > _mp(Fraction(1, 10**11)):
                out.append(("scaled:unit", f"dot(unit(a), unit(a)) = {m2} {ctxt}"))
        except (Undefined, Exception) as exc:  # pylint: disable=broad-except
            out.append(("scaled:unit", f"unit vector of a: {type(exc).__name__}: {exc} {ctxt}"))
    try:
        mg = _mp(lib_value(ar.vector_magnitude(A), {}))
        if abs(mg - la) > _mp(Fraction(1, 10**11)) * la:
            out.append(("scaled:magnitude", f"vector_magnitude(a) = {mg}, expected {la} {ctxt}"))
        dd = _mp(lib_value(ar.dot_vectors(A, B), {}))
        if abs(dd - _mp(dab)) > _mp(Fraction(1, 10**11)) * la * lb_:
            out.append(("scaled:dot", f"dot_vectors(a, b) = {dd}, expected {_mp(dab)} {ctxt}"))
    except Exception as exc:  # pylint: disable=broad-except
        out.append(("scaled:magnitude", f"{type(exc).__name__}: {exc} {ctxt}"))
    return out, labels


def judge(case: dict[str, Any]) -> tuple[list[tuple[str, str]], list[str]]:
    if case["mode"] == "scaled":
        return judge_scaled(case)
    if case["mode"] == "refuse":
        return judge_refusal(case), [f"refuse:{case['op']}", f"refuse_combo:{case['combo']}"]
    viol, labs = judge_laws(case)
    return viol, _labels(case) + sorted(set(labs))


def _record(rec: Recorder, case: dict[str, Any]) -> None:
    viol, labs = judge(case)
    for key, what in viol:
        rec.violation(key, what, case)
    rec.case(_desc(case), nontrivial=nontrivial(case), labels=labs)


def _shard(task: dict[str, Any]) -> Recorder:
    rec = Recorder()
    if task["kind"] == "list":
        for case in task["cases"]:
            _record(rec, case)
        return rec
    if task["kind"] == "scaled":
        hyp_run(scaled_case(), lambda case: _record(rec, case), task["n"], task["seed"])
        return rec
    hyp_run(case_strategy(), lambda case: _record(rec, case), task["n"], task["seed"])
    return rec


def run(ctx: Ctx) -> None:
    import symplyphysics.core.vectors.arithmetics  # noqa: F401  pylint: disable=unused-import
    n_gen = ctx.pick(2400, 48000)
    tasks: list[dict[str, Any]] = []
    generic = [generic_case(la, lb, lc) for la, lb, lc in itertools.product(range(4), repeat=3)]
    generic += [generic_case(la, lb, 3, "real") for la, lb in itertools.product(range(4), repeat=2)]
    for i in range(8):
        tasks.append({"kind": "list", "cases": generic[i::8]})
    judge(generic_case(1, 2, 1))  # warm SymPy's lazy imports/caches before the workers are forked
    refusals = refusal_cases()
    for i in range(4):
        tasks.append({"kind": "list", "cases": refusals[i::4]})
    for i, n in enumerate(shard_counts(n_gen, 32)):
        tasks.append({"kind": "gen", "n": n, "seed": ctx.seed * 1000 + i})
    for i, n in enumerate(shard_counts(ctx.pick(400, 8000), 4)):
        tasks.append({"kind": "scaled", "n": n, "seed": ctx.seed * 1000 + 500 + i})
    for status, val in run_tasks(_shard, tasks):
        if status != "ok":
            raise RuntimeError(f"C10 shard failed: {status}: {val}")
        ctx.merge(val)
    ctx.notes["generic_shapes_enumerated"] = len(generic)
    ctx.notes["refusal_cases_enumerated"] = len(refusals)
    ctx.assumptions += [
        "component formulas of the harness (Fraction arithmetic in this module) are the meaning of +, k*, dot, cross, "
        "projection; missing components are zero",
        "projection/rejection are judged only for targets with t.t != 0 and unit vectors only for a != 0 at the "
        "assignment (the skipped cases are counted in classes)",
        "symbols are substituted with rationals that respect their assumptions (positive symbols get positive values)",
        "float components are dyadic (n/8); float cases are judged with tolerance 1e-9*(1+max|input|)^4 and have no "
        "symbolic verdict; all other cases are exact (Fraction equality, or 1e-30 at 50 digits where a radical survives)",
        "refusal = TypeError or ValueError for operands of different system objects, ValueError for non-Cartesian "
        "operands of add/subtract/cross/reject and for cross products of more than 3 components",
    ]
    known = {k["key"] for k in ctx.known}
    seen: set[str] = set()
    shrink_budget = ctx.pick(25, 120)  # shared by all new keys
    t_shrink = time.time()
    for v in list(ctx.violations):
        key = v["key"]
        if key in seen or key in known or v["case"].get("mode") != "laws":
            continue
        seen.add(key)
        left = shrink_budget - (time.time() - t_shrink)
        if left <= 1:
            break
        small = shrink(v["case"], _candidates, lambda c, key=key: any(k == key for k, _ in judge(c)[0]),
            budget_s=min(ctx.pick(8, 30), left))
        res = [w for k, w in judge(small)[0] if k == key]
        if res:
            ctx.violation(key, res[0], small)


def _candidates(case: dict[str, Any]) -> Any:
    for name in ("c", "b", "a"):
        v = case[name]
        if v:
            yield {**case, name: v[:-1]}
    for name in ("a", "b", "c"):
        for i, c in enumerate(case[name]):
            for repl in (ZERO, ["n", "1/1"], ["s", 0]):
                if c != repl:
                    yield {**case, name: case[name][:i] + [repl] + case[name][i + 1:]}
            if c[0] in ("+", "*", "-"):
                for sub in c[1:]:
                    yield {**case, name: case[name][:i] + [sub] + case[name][i + 1:]}
    for name in ("k", "l"):
        for repl in (["n", "1/1"], ["n", "2/1"]):
            if case[name] != repl:
                yield {**case, name: repl}
    if len(case["assign"]) > 1:
        for i in range(len(case["assign"])):
            yield {**case, "assign": case["assign"][:i] + case["assign"][i + 1:]}


def replay(case: dict[str, Any]) -> list[tuple[str, str]]:
    return judge(case)[0]
