"""C11 - changing coordinate system preserves the geometric vector and scalar field.

Legacy conventions of symplyphysics.core (verified against coordinate_systems.py and the unit tests):
cylindrical (r, theta, z); spherical (r, theta = AZIMUTH, phi = POLAR angle).

Case families (plain-JSON descriptions):
 * "vec"      - vectors v, w and a scalar k; direction c2q (Cartesian components, re-expressed in the curvilinear
                system) or q2c (curvilinear components); system pair built with either side as the SymPy parent.
 * "field"    - scalar field expression (from_expression or lambda) in one system, re-expressed in the other,
                applied at generated points.
 * "refuse"   - finite table: cylindrical<->spherical conversions, points of one kind into fields of another.
 * "dynvec"/"dynfield" - the SEPARATE class of vectors / trajectories whose components mention the base scalars
                of their own system (candidate defect: sequential substitution); own keys, excludable.
Oracle: harness-owned textbook maps X(q) / X^-1(p) and dot/norm formulas evaluated with mpmath at 60 digits; library
results are evaluated with sympy.N at 50 digits; tolerance 1e-30 relative to 1 + sum |inputs|; angles modulo 2 pi.
"""
from __future__ import annotations

import functools
import time
import traceback
from fractions import Fraction
from typing import Any, Callable

from hypothesis import strategies as st

from ..boot import Ctx, Recorder
from ..hyp import hyp_run
from ..model import r3
from ..pool import run_tasks, shard_counts
from ..shrink import shrink

PID = "C11"
RULE = ("Hypothesis-generated cases. vec: system in {cylindrical, spherical(r, azimuth, polar)}, direction c2q "
    "(Cartesian triples of non-zero rationals, all octants, lengths 1-3) or q2c (r>0, azimuth in (-pi,pi) as rational "
    "multiple of pi or plain rational, polar in (0,pi), z; lengths 1-3 for v, 0-3 for w), components as numbers or as "
    "positive/real symbols substituted afterwards, system pair created with Cartesian or curvilinear SymPy parent, "
    "scalar k>0 or k<0; judged: transformation table, rebase == harness map, round trip, dot/magnitude/scale against the "
    "Cartesian component model. field: polynomial/trigonometric expression trees (depth<=3) in the three coordinates, "
    "from_expression or lambda, rebased in both directions and applied at generated points (apply(), a typed point built by its constructor, or a "
    "typed point filled / moved from elsewhere through its coordinate setters by long names or short aliases), "
    "plus rebase there-and-back at a second point. refuse: exhaustive table. dynvec/dynfield: components/trajectories "
    "referencing own base scalars (identity, permuted, expressions). Non-trivial = vec: v has all three Cartesian "
    "coordinates non-zero (off all coordinate planes) and the two systems differ (always); field: the expression "
    "mentions >= 2 coordinates; refusal and dyn cases count as non-trivial. Distinct by hash of the case description.")

MP = r3.MP
mpf = r3.mpf
TOL = mpf("1e-30")
TWO_PI = 2 * MP.pi

K_VEC = "own-base-scalars:Vector.rebase"
K_FIELD = "own-base-scalars:ScalarField.apply"

# ------------------------------------------------------------------------------------------------
# values: ["n","p/q"] rational | ["pi","p/q"] rational multiple of pi


def v_mp(d: Any) -> Any:
    f = Fraction(d[1])
    x = mpf(f.numerator) / mpf(f.denominator)
    return x * MP.pi if d[0] == "pi" else x


def v_sym(d: Any) -> Any:
    import sympy
    r = sympy.Rational(d[1])
    return r * sympy.pi if d[0] == "pi" else r


# harness-owned maps (textbook, library ordering: spherical = (r, azimuth, polar))


def x_of(sysname: str, q: list[Any]) -> list[Any]:
    q = list(q) + [mpf(0)] * (3 - len(q))
    if sysname == "cyl":
        r, th, z = q
        return [r * MP.cos(th), r * MP.sin(th), z]
    r, th, ph = q
    return [r * MP.cos(th) * MP.sin(ph), r * MP.sin(th) * MP.sin(ph), r * MP.cos(ph)]


def q_of(sysname: str, p: list[Any]) -> list[Any]:
    p = list(p) + [mpf(0)] * (3 - len(p))
    x, y, z = p
    if sysname == "cyl":
        return [MP.sqrt(x * x + y * y), MP.atan2(y, x), z]
    rho = MP.sqrt(x * x + y * y + z * z)
    return [rho, MP.atan2(y, x), MP.acos(z / rho)]


def angle_slots(sysname: str) -> tuple[int, ...]:
    return (1,) if sysname == "cyl" else (1, 2)


def m_dot3(a: list[Any], b: list[Any]) -> Any:
    return a[0] * b[0] + a[1] * b[1] + a[2] * b[2]


# ------------------------------------------------------------------------------------------------
# field expression trees: ["q",i] | ["n","p/q"] | ["+",a,b] | ["*",a,b] | ["-",a] | ["^",a,n] | ["sin",a] | ["cos",a]


def f_mp(d: Any, q: list[Any]) -> Any:
    op = d[0]
    if op == "q":
        return q[d[1]]
    if op == "n":
        return v_mp(d)
    if op == "+":
        return f_mp(d[1], q) + f_mp(d[2], q)
    if op == "*":
        return f_mp(d[1], q) * f_mp(d[2], q)
    if op == "-":
        return -f_mp(d[1], q)
    if op == "^":
        return f_mp(d[1], q)**int(d[2])
    if op == "sin":
        return MP.sin(f_mp(d[1], q))
    if op == "cos":
        return MP.cos(f_mp(d[1], q))
    raise ValueError(op)


def f_sym(d: Any, q: list[Any]) -> Any:
    import sympy
    op = d[0]
    if op == "q":
        return q[d[1]]
    if op == "n":
        return v_sym(d)
    if op == "+":
        return f_sym(d[1], q) + f_sym(d[2], q)
    if op == "*":
        return f_sym(d[1], q) * f_sym(d[2], q)
    if op == "-":
        return -f_sym(d[1], q)
    if op == "^":
        return f_sym(d[1], q)**int(d[2])
    if op == "sin":
        return sympy.sin(f_sym(d[1], q))
    if op == "cos":
        return sympy.cos(f_sym(d[1], q))
    raise ValueError(op)


def f_coords(d: Any, out: set[int]) -> None:
    if d[0] == "q":
        out.add(d[1])
        return
    for x in d[1:]:
        if isinstance(x, list):
            f_coords(x, out)


# ------------------------------------------------------------------------------------------------
# generators

_DEN = (1, 1, 2, 3, 4)


def _nz_rat(lo: int = -9, hi: int = 9) -> st.SearchStrategy[Any]:
    return st.builds(lambda n, d: ["n", f"{n}/{d}"], st.integers(lo, hi).filter(lambda x: x != 0), st.sampled_from(_DEN))


def _pos_rat() -> st.SearchStrategy[Any]:
    return st.builds(lambda n, d: ["n", f"{n}/{d}"], st.integers(1, 9), st.sampled_from(_DEN))


def _azimuth() -> st.SearchStrategy[Any]:
    # (-pi, pi): rational multiples of pi with denominators 12/10/7, or plain rationals with |x| <= 3
    def frac_pi(n: int, d: int) -> Any:
        return ["pi", f"{n}/{d}"]

    multiples = st.one_of(st.builds(frac_pi, st.integers(-11, 11), st.just(12)),
        st.builds(frac_pi, st.integers(-9, 9), st.just(10)), st.builds(frac_pi, st.integers(-6, 6), st.just(7)))
    plain = st.builds(lambda n, d: ["n", f"{n}/{d}"], st.integers(-12, 12), st.just(4))
    return st.one_of(multiples, multiples, plain)


def _polar() -> st.SearchStrategy[Any]:
    # (0, pi)
    multiples = st.one_of(st.builds(lambda n: ["pi", f"{n}/12"], st.integers(1, 11)),
        st.builds(lambda n: ["pi", f"{n}/10"], st.integers(1, 9)), st.builds(lambda n: ["pi", f"{n}/7"], st.integers(1, 6)))
    plain = st.builds(lambda n: ["n", f"{n}/4"], st.integers(1, 12))
    return st.one_of(multiples, multiples, plain)


def _curv_values(sysname: str) -> list[st.SearchStrategy[Any]]:
    if sysname == "cyl":
        return [_pos_rat(), _azimuth(), _nz_rat()]
    return [_pos_rat(), _azimuth(), _polar()]


def _is_pos(val: Any) -> bool:
    return Fraction(val[1]) > 0


@st.composite
def _comps(draw: Any, kind: str, min_len: int, max_len: int, symbolic: bool) -> Any:
    """list of [value, symflag]; kind 'cart' or 'cyl'/'sph'."""
    n = draw(st.integers(min_len, max_len))
    strategies = [_nz_rat()] * 3 if kind == "cart" else _curv_values(kind)
    out = []
    for i in range(n):
        val = draw(strategies[i])
        flag = None
        if symbolic and draw(st.integers(0, 2)) > 0:
            if kind != "cart" and i == 0:
                flag = "pos"  # radius
            elif _is_pos(val) and draw(st.booleans()):
                flag = "pos"
            else:
                flag = "real"
        out.append([val, flag])
    return out


@st.composite
def vec_case(draw: Any) -> Any:
    sysname = draw(st.sampled_from(["cyl", "sph"]))
    direction = draw(st.sampled_from(["c2q", "q2c"]))
    parent = draw(st.sampled_from(["cart", "cart", "curv"]))
    symbolic = draw(st.integers(0, 2)) == 0
    # favour full-length vectors (non-trivial), keep the short ones as a class
    full = draw(st.integers(0, 3)) > 0
    kind = "cart" if direction == "c2q" else sysname
    v = draw(_comps(kind, 3 if full else 1, 3, symbolic))
    w = draw(_comps(kind, 1 if direction == "c2q" else 0, 3, symbolic and draw(st.booleans())))
    k = draw(_nz_rat(-6, 6))
    return {"mode": "vec", "sys": sysname, "dir": direction, "parent": parent, "v": v, "w": w, "k": k[1]}


@functools.lru_cache(maxsize=None)
def _field_expr(depth: int) -> st.SearchStrategy[Any]:
    """small free-form trees (used for own-base-scalar components/trajectories and as sub-terms)."""
    coord = st.builds(lambda i: ["q", i], st.integers(0, 2))
    leaf = st.one_of(coord, coord, coord, coord, _nz_rat(-4, 4))
    if depth <= 0:
        return leaf
    sub = _field_expr(depth - 1)
    return st.one_of(leaf, st.builds(lambda a, b: ["+", a, b], sub, sub), st.builds(lambda a, b: ["*", a, b], sub, sub),
        st.builds(lambda a, b: ["*", a, b], sub, sub), st.builds(lambda a: ["-", a], sub),
        st.builds(lambda a, n: ["^", a, n], sub, st.sampled_from([2, 2, 3])), st.builds(lambda a: ["sin", a], sub),
        st.builds(lambda a: ["cos", a], sub))


@st.composite
def _term(draw: Any, i: int) -> Any:
    """a function of coordinate i alone."""
    q = ["q", i]
    shape = draw(st.integers(0, 7))
    if shape == 0:
        return q
    if shape == 1:
        return ["^", q, draw(st.sampled_from([2, 3]))]
    if shape == 2:
        return ["sin", q]
    if shape == 3:
        return ["cos", q]
    if shape == 4:
        return ["*", draw(_nz_rat(-4, 4)), q]
    if shape == 5:
        return ["+", q, draw(_nz_rat(-4, 4))]
    if shape == 6:
        return ["sin", ["*", draw(_nz_rat(-3, 3)), q]]
    return ["-", q]


@st.composite
def _scalar_field_expr(draw: Any) -> Any:
    """field expressions that (mostly) couple two or three coordinates."""
    ncoords = draw(st.sampled_from([1, 2, 2, 2, 3, 3]))
    coords = draw(st.permutations([0, 1, 2]))[:ncoords]
    terms = [draw(_term(i)) for i in coords]
    if draw(st.integers(0, 3)) == 0:
        terms.append(draw(_field_expr(1)))
    expr = terms[0]
    for t in terms[1:]:
        expr = [draw(st.sampled_from(["+", "*", "*"])), expr, t]
    wrap = draw(st.integers(0, 5))
    if wrap == 0:
        expr = ["sin", expr]
    elif wrap == 1:
        expr = ["^", expr, 2]
    elif wrap == 2:
        expr = ["+", expr, draw(_nz_rat(-4, 4))]
    return expr


@st.composite
def _point(draw: Any, kind: str, min_len: int) -> Any:
    n = draw(st.sampled_from([3, 3, 3, 2, 1]))
    n = max(n, min_len)
    strategies = [_nz_rat()] * 3 if kind == "cart" else _curv_values(kind)
    return [draw(strategies[i]) for i in range(n)]


@st.composite
def field_case(draw: Any) -> Any:
    sysname = draw(st.sampled_from(["cyl", "sph"]))
    direction = draw(st.sampled_from(["c2q", "q2c"]))
    parent = draw(st.sampled_from(["cart", "cart", "curv"]))
    expr = draw(_scalar_field_expr())
    src_kind = "cart" if direction == "c2q" else sysname
    dst_kind = sysname if direction == "c2q" else "cart"
    # point in the destination system (x != 0 keeps Cartesian points off the polar axis)
    pt = draw(_point(dst_kind, 1))
    # point in the source system for rebase there-and-back; spherical source points need all 3 coordinates
    pt2 = draw(_point(src_kind, 3 if src_kind == "sph" else 1))
    return {"mode": "field", "sys": sysname, "dir": direction, "parent": parent, "expr": expr,
        "lambda": draw(st.booleans()), "call": draw(st.sampled_from(["apply", "point", "point", "set-long", "set-short", "move-long", "move-short"])),
        "pt": pt, "pt2": pt2}


_PERMS = [[0, 1, 2], [1, 0, 2], [0, 2, 1], [2, 1, 0], [1, 2, 0], [2, 0, 1]]


@st.composite
def dynvec_case(draw: Any) -> Any:
    sysname = draw(st.sampled_from(["cyl", "sph"]))
    direction = draw(st.sampled_from(["c2q", "c2q", "q2c"]))
    parent = draw(st.sampled_from(["cart", "curv"]))
    style = draw(st.sampled_from(["identity", "permuted", "permuted", "expr"]))
    if style == "identity":
        n = draw(st.integers(2, 3))
        comps = [["q", i] for i in range(n)]
    elif style == "permuted":
        perm = draw(st.sampled_from(_PERMS[1:]))
        n = draw(st.integers(2, 3))
        comps = [["q", i] for i in perm][:n]
    else:
        comps = [draw(_field_expr(1)) for _ in range(draw(st.integers(1, 3)))]
    kind = "cart" if direction == "c2q" else sysname
    pt = draw(_point(kind, 3))
    return {"mode": "dynvec", "sys": sysname, "dir": direction, "parent": parent, "style": style, "v": comps, "pt": pt}


@st.composite
def dynfield_case(draw: Any) -> Any:
    sysname = draw(st.sampled_from(["cyl", "sph"]))
    direction = draw(st.sampled_from(["c2q", "q2c"]))
    parent = draw(st.sampled_from(["cart", "curv"]))
    expr = draw(_scalar_field_expr())
    style = draw(st.sampled_from(["identity", "permuted", "permuted", "expr"]))
    if style == "identity":
        traj = [["q", 0], ["q", 1], ["q", 2]]
    elif style == "permuted":
        traj = [["q", i] for i in draw(st.sampled_from(_PERMS[1:]))]
    else:
        traj = [draw(_field_expr(1)) for _ in range(3)]
    dst_kind = sysname if direction == "c2q" else "cart"
    pt = draw(_point(dst_kind, 3))  # numeric values given to the destination system's own base scalars
    return {"mode": "dynfield", "sys": sysname, "dir": direction, "parent": parent, "style": style, "expr": expr,
        "rebase": True, "traj": traj, "pt": pt}


# ------------------------------------------------------------------------------------------------
# library side helpers


class Undefined(Exception):
    pass


def lib_num(e: Any, env: dict[Any, Any] | None = None) -> Any:
    """50-digit value of a library scalar after substituting the symbols."""
    import sympy
    e = sympy.sympify(e)
    if env:
        e = sympy.sympify(e.xreplace({k: sympy.sympify(v) for k, v in env.items()}))
    if e.has(sympy.nan, sympy.zoo, sympy.oo, -sympy.oo):
        raise Undefined(str(e))
    if e.is_Rational:
        return mpf(int(e.p)) / mpf(int(e.q))
    v = sympy.N(e, 50)
    if not v.is_Float:
        if v.is_number and abs(sympy.im(v)) < 1e-40:
            v = sympy.re(v)
        if v.is_Rational:
            return mpf(int(v.p)) / mpf(int(v.q))
        if not v.is_Float:
            raise Undefined(f"not a real number: {v}")
    return MP.make_mpf(v._mpf_)  # pylint: disable=protected-access


def close(got: Any, want: Any, scale: Any, angle: bool = False) -> bool:
    d = got - want
    if angle:
        d = d - TWO_PI * MP.nint(d / TWO_PI)
    return bool(abs(d) <= TOL * scale)


def _exc_key(exc: BaseException) -> str:
    tb = traceback.extract_tb(exc.__traceback__)
    frame = "?"
    for fr in tb:
        if "symplyphysics" in fr.filename:
            frame = f"{fr.filename.split('symplyphysics/')[-1]}:{fr.name}"
    return f"exception:{type(exc).__name__}@{frame}"


def make_systems(sysname: str, parent: str) -> tuple[Any, Any]:
    """(Cartesian system, curvilinear system) related through coordinates_transform."""
    from symplyphysics import CoordinateSystem, coordinates_transform
    S = CoordinateSystem.System
    typ = S.CYLINDRICAL if sysname == "cyl" else S.SPHERICAL
    if parent == "cart":
        cart = CoordinateSystem()
        curv = coordinates_transform(cart, typ)
    else:
        curv = CoordinateSystem(typ)
        cart = coordinates_transform(curv, S.CARTESIAN)
    return cart, curv


def _build_comps(comps: list[Any], tag: str) -> tuple[list[Any], list[Any], dict[Any, Any]]:
    """-> (library components, mp values, substitution env)."""
    import sympy
    libc, vals, env = [], [], {}
    for i, (val, flag) in enumerate(comps):
        vals.append(v_mp(val))
        if flag is None:
            libc.append(v_sym(val))
        else:
            s = sympy.Symbol(f"{tag}{i}", positive=True) if flag == "pos" else sympy.Symbol(f"{tag}{i}", real=True)
            env[s] = v_sym(val)
            libc.append(s)
    return libc, vals, env


def _pad(v: list[Any]) -> list[Any]:
    return list(v) + [mpf(0)] * (3 - len(v))


class _Judge:
    """collects violations of one case (first per key)."""

    def __init__(self, ctxt: str) -> None:
        self.out: list[tuple[str, str]] = []
        self.ctxt = ctxt

    def fail(self, key: str, what: str) -> None:
        if not any(k == key for k, _ in self.out):
            self.out.append((key, f"{what} [{self.ctxt}]"))

    def guarded(self, key: str, fn: Callable[[], Any], *, suffix: bool = True) -> Any:
        try:
            return fn()
        except Exception as exc:  # pylint: disable=broad-except
            self.fail(f"{key}:{_exc_key(exc)}" if suffix else key, f"{_exc_key(exc)}: {exc}")
            return None

    def vec_equals(self, key: str, what: str, comps: Any, want: list[Any], env: dict[Any, Any], scale: Any,
        angles: tuple[int, ...] = ()) -> None:
        comps = list(comps)
        if len(comps) > 3:
            self.fail(key, f"{what}: {len(comps)} components")
            return
        comps = comps + [0] * (3 - len(comps))
        for i, (c, wv) in enumerate(zip(comps, want)):
            try:
                gv = lib_num(c, env)
            except Undefined as exc:
                self.fail(key, f"{what}: component {i} undefined ({exc}); expected {MP.nstr(wv, 15)}")
                return
            if not close(gv, wv, scale, angle=i in angles):
                self.fail(key, f"{what}: component {i} library={c} -> {MP.nstr(gv, 20)} expected {MP.nstr(wv, 20)}")
                return

    def scalar_equals(self, key: str, what: str, got: Any, want: Any, env: dict[Any, Any], scale: Any) -> None:
        try:
            gv = lib_num(got, env)
        except Undefined as exc:
            self.fail(key, f"{what}: undefined ({exc}); expected {MP.nstr(want, 15)}")
            return
        if not close(gv, want, scale):
            self.fail(key, f"{what}: library={got} -> {MP.nstr(gv, 20)} expected {MP.nstr(want, 20)}")


# ------------------------------------------------------------------------------------------------
# vec cases


def judge_vec(case: dict[str, Any]) -> tuple[list[tuple[str, str]], list[str]]:
    # pylint: disable=too-many-locals,too-many-statements,too-many-branches
    import sympy
    from symplyphysics import CoordinateSystem, Vector
    from symplyphysics.core.vectors.arithmetics import dot_vectors, scale_vector, vector_magnitude
    S = CoordinateSystem.System
    sysname, direction = case["sys"], case["dir"]
    labels: list[str] = []
    j = _Judge(f"sys={sysname} dir={direction} parent={case['parent']} v={case['v']} w={case['w']} k={case['k']}")
    cart, curv = make_systems(sysname, case["parent"])
    vl, vv, env = _build_comps(case["v"], "a")
    wl, wv, env2 = _build_comps(case["w"], "b")
    env.update(env2)
    k_mp = v_mp(["n", case["k"]])
    k_sym = sympy.Rational(case["k"])
    ksign = "k>0" if k_mp > 0 else "k<0"
    angles = angle_slots(sysname)
    scale = 1 + sum(abs(x) for x in vv) + sum(abs(x) for x in wv)
    if direction == "c2q":
        p_v, p_w = _pad(vv), _pad(wv)
        q_v = q_of(sysname, p_v)
        tag = f"cart->{sysname}"
        # transformation table at this point
        table = j.guarded(f"table:{tag}", lambda: cart.transformation_to_system(curv.coord_system_type))
        if table is not None:
            benv = dict(zip(cart.coord_system.base_scalars(), [v_sym(c[0]) for c in case["v"]] + [0] * (3 - len(vv))))
            j.vec_equals(f"table:{tag}", "transformation_to_system", table, q_v, benv, scale, angles)
        V, W = Vector(vl, cart), Vector(wl, cart)
        Vq = j.guarded(f"rebase:{tag}", lambda: V.rebase(curv))
        Wq = j.guarded(f"rebase:{tag}", lambda: W.rebase(curv))
        if Vq is not None:
            if Vq.coordinate_system is not curv:
                j.fail(f"rebase:{tag}", "rebased vector does not carry the target coordinate system")
            j.vec_equals(f"rebase:{tag}", "v.rebase(curvilinear)", Vq.components, q_v, env, scale, angles)
            back = j.guarded(f"roundtrip:{tag}->cart", lambda: Vq.rebase(cart))
            if back is not None:
                j.vec_equals(f"roundtrip:{tag}->cart", "v.rebase(B).rebase(A)", back.components, p_v, env, scale)
            mag = j.guarded(f"magnitude:{sysname}", lambda: vector_magnitude(Vq))
            if mag is not None:
                j.scalar_equals(f"magnitude:{sysname}", "vector_magnitude(rebased v)", mag, MP.sqrt(m_dot3(p_v, p_v)),
                    env, scale)
            if Wq is not None:
                d = j.guarded(f"dot:{sysname}", lambda: dot_vectors(Vq, Wq))
                if d is not None:
                    j.scalar_equals(f"dot:{sysname}", "dot_vectors(rebased v, rebased w)", d, m_dot3(p_v, p_w), env,
                        scale * scale)
            sv = j.guarded(f"scale:{sysname}:{ksign}", lambda: scale_vector(k_sym, Vq))
            if sv is not None:
                _judge_scaled(j, sv, sysname, ksign, [k_mp * x for x in p_v], env, scale * (1 + abs(k_mp)), cart)
    else:
        q_v, q_w = _pad(vv), _pad(wv)
        p_v, p_w = x_of(sysname, q_v), x_of(sysname, q_w)
        tag = f"{sysname}->cart"
        table = j.guarded(f"table:{tag}", lambda: curv.transformation_to_system(S.CARTESIAN))
        if table is not None:
            benv = dict(zip(curv.coord_system.base_scalars(), [v_sym(c[0]) for c in case["v"]] + [0] * (3 - len(vv))))
            j.vec_equals(f"table:{tag}", "transformation_to_system", table, p_v, benv, scale)
        V, W = Vector(vl, curv), Vector(wl, curv)
        Vc = j.guarded(f"rebase:{tag}", lambda: V.rebase(cart))
        Wc = j.guarded(f"rebase:{tag}", lambda: W.rebase(cart))
        if Vc is not None:
            if Vc.coordinate_system is not cart:
                j.fail(f"rebase:{tag}", "rebased vector does not carry the target coordinate system")
            j.vec_equals(f"rebase:{tag}", "v.rebase(cartesian)", Vc.components, p_v, env, scale)
            singular = sysname == "sph" and len(vv) < 3  # polar angle 0: on the polar axis, azimuth undefined
            if singular:
                labels.append("roundtrip_skipped:on_polar_axis")
            else:
                back = j.guarded(f"roundtrip:{tag}->{sysname}", lambda: Vc.rebase(curv))
                if back is not None:
                    j.vec_equals(f"roundtrip:{tag}->{sysname}", "v.rebase(B).rebase(A)", back.components, q_v, env,
                        scale, angles)
            if Wc is not None:
                dc = j.guarded("dot:cart-after-rebase", lambda: dot_vectors(Vc, Wc))
                if dc is not None:
                    j.scalar_equals("dot:cart-after-rebase", "dot_vectors(v.rebase(C), w.rebase(C))", dc,
                        m_dot3(p_v, p_w), env, scale * scale)
        d = j.guarded(f"dot:{sysname}", lambda: dot_vectors(V, W))
        if d is not None:
            j.scalar_equals(f"dot:{sysname}", "dot_vectors(v, w) in curvilinear components", d, m_dot3(p_v, p_w), env,
                scale * scale)
        d2 = j.guarded(f"dot:{sysname}", lambda: dot_vectors(W, V))
        if d2 is not None:
            j.scalar_equals(f"dot:{sysname}", "dot_vectors(w, v) in curvilinear components", d2, m_dot3(p_v, p_w), env,
                scale * scale)
        mag = j.guarded(f"magnitude:{sysname}", lambda: vector_magnitude(V))
        if mag is not None:
            j.scalar_equals(f"magnitude:{sysname}", "vector_magnitude(v)", mag, MP.sqrt(m_dot3(p_v, p_v)), env, scale)
        sv = j.guarded(f"scale:{sysname}:{ksign}", lambda: scale_vector(k_sym, V))
        if sv is not None:
            _judge_scaled(j, sv, sysname, ksign, [k_mp * x for x in p_v], env, scale * (1 + abs(k_mp)), cart)
    return j.out, labels


def _judge_scaled(j: _Judge, sv: Any, sysname: str, ksign: str, want: list[Any], env: dict[Any, Any], scale: Any,
    cart: Any) -> None:
    """scale_vector(k, v) in curvilinear components must be k * (Cartesian image of v): judged through the harness map
    of the returned components and through the library's own rebase."""
    key = f"scale:{sysname}:{ksign}"
    try:
        comps = [lib_num(c, env) for c in sv.components]
    except Undefined as exc:
        j.fail(key, f"scale_vector: undefined component ({exc})")
        return
    got = x_of(sysname, comps)
    for i in range(3):
        if not close(got[i], want[i], scale):
            j.fail(key, f"scale_vector(k, v) = {list(sv.components)} maps to Cartesian {[MP.nstr(x, 15) for x in got]}, "
                f"expected k*v = {[MP.nstr(x, 15) for x in want]}")
            return
    back = j.guarded(key, lambda: sv.rebase(cart))
    if back is not None:
        j.vec_equals(key, "scale_vector(k, v).rebase(cartesian)", back.components, want, env, scale)
    # two-step history: magnitude (and self dot product) of the SCALED curvilinear vector vs the Cartesian truth |k| |v|
    from symplyphysics.core.vectors.arithmetics import dot_vectors, vector_magnitude
    mkey = f"magnitude-after-scale:{sysname}:{ksign}"
    mag = j.guarded(mkey, lambda: vector_magnitude(sv))
    if mag is not None:
        j.scalar_equals(mkey, "vector_magnitude(scale_vector(k, v))", mag, MP.sqrt(m_dot3(want, want)), env, scale)
    dd = j.guarded(mkey, lambda: dot_vectors(sv, sv))
    if dd is not None:
        j.scalar_equals(mkey, "dot_vectors(scale_vector(k, v), scale_vector(k, v))", dd, m_dot3(want, want), env, scale * scale)


# ------------------------------------------------------------------------------------------------
# field cases


def _make_field(expr: Any, system: Any, kind: str, use_lambda: bool) -> Any:
    from symplyphysics.core.fields.scalar_field import ScalarField
    if not use_lambda:
        return ScalarField.from_expression(f_sym(expr, list(system.coord_system.base_scalars())), system)
    if kind == "cart":
        return ScalarField(lambda p: f_sym(expr, [p.x, p.y, p.z]), system)
    if kind == "cyl":
        return ScalarField(lambda p: f_sym(expr, [p.r, p.theta, p.z]), system)
    return ScalarField(lambda p: f_sym(expr, [p.r, p.theta, p.phi]), system)


def _apply_at(field: Any, kind: str, pt: list[Any], how: str) -> Any:
    from symplyphysics.core.points.cartesian_point import CartesianPoint
    from symplyphysics.core.points.cylinder_point import CylinderPoint
    from symplyphysics.core.points.sphere_point import SpherePoint
    coords = [v_sym(c) for c in pt]
    if how == "apply":
        return field.apply(coords)
    cls = {"cart": CartesianPoint, "cyl": CylinderPoint, "sph": SpherePoint}[kind]
    if how == "point":
        return field(cls(*coords))
    # the point object is filled (set-*) or moved from elsewhere (move-*) through its coordinate setters, by their long
    # names or their short aliases: the same physical point as cls(*coords)
    names = _SETTERS[kind][0 if how.endswith("long") else 1]
    p = cls() if how.startswith("set") else cls(*([3] * len(coords)))
    for name, c in zip(names, coords):
        setattr(p, name, c)
    return field(p)


_SETTERS = {"cart": (("x", "y", "z"), ("x", "y", "z")), "cyl": (("radius", "azimuthal_angle", "height"), ("r", "theta", "z")),
    "sph": (("radius", "azimuthal_angle", "polar_angle"), ("r", "theta", "phi"))}


def judge_field(case: dict[str, Any]) -> tuple[list[tuple[str, str]], list[str]]:
    sysname, direction = case["sys"], case["dir"]
    j = _Judge(f"sys={sysname} dir={direction} parent={case['parent']} lambda={case['lambda']} call={case['call']} "
        f"expr={case['expr']} pt={case['pt']} pt2={case['pt2']}")
    cart, curv = make_systems(sysname, case["parent"])
    src, dst = (cart, curv) if direction == "c2q" else (curv, cart)
    src_kind, dst_kind = ("cart", sysname) if direction == "c2q" else (sysname, "cart")
    tag = f"{src_kind}->{dst_kind}"
    expr = case["expr"]
    pt = _pad([v_mp(c) for c in case["pt"]])
    pt2 = _pad([v_mp(c) for c in case["pt2"]])
    # the same physical point in the source system's coordinates
    src_coords = x_of(sysname, pt) if direction == "c2q" else q_of(sysname, pt)
    want = f_mp(expr, src_coords)
    scale = 1 + abs(want) + sum(abs(x) for x in src_coords)**3
    field = j.guarded(f"field:{tag}", lambda: _make_field(expr, src, src_kind, case["lambda"]))
    if field is None:
        return j.out, []
    # sanity of the harness construction: the un-rebased field at pt2 is the expression at pt2
    want2 = f_mp(expr, pt2)
    scale2 = 1 + abs(want2) + sum(abs(x) for x in pt2)**3
    base = j.guarded(f"field:{tag}", lambda: _apply_at(field, src_kind, case["pt2"], case["call"]))
    if base is not None:
        j.scalar_equals(f"field-apply:{src_kind}", "field applied in its own system", base, want2, {}, scale2)
    fb = j.guarded(f"field:{tag}", lambda: field.rebase(dst))
    if fb is None:
        return j.out, []
    if fb.coordinate_system is not dst:
        j.fail(f"field:{tag}", "rebased field does not carry the target coordinate system")
    got = j.guarded(f"field:{tag}", lambda: _apply_at(fb, dst_kind, case["pt"], case["call"]))
    if got is not None:
        j.scalar_equals(f"field:{tag}", "f.rebase(B) at q vs f at the same physical point", got, want, {}, scale)
    fbb = j.guarded(f"field-roundtrip:{tag}->{src_kind}", lambda: fb.rebase(src))
    if fbb is not None:
        got2 = j.guarded(f"field-roundtrip:{tag}->{src_kind}",
            lambda: _apply_at(fbb, src_kind, case["pt2"], case["call"]))
        if got2 is not None:
            j.scalar_equals(f"field-roundtrip:{tag}->{src_kind}", "f.rebase(B).rebase(A) at p vs f at p", got2, want2, {},
                scale2)
    return j.out, []


# ------------------------------------------------------------------------------------------------
# own-base-scalar classes (candidate defect, separate keys)


def judge_dynvec(case: dict[str, Any]) -> tuple[list[tuple[str, str]], list[str]]:
    from symplyphysics import Vector
    sysname, direction = case["sys"], case["dir"]
    j = _Judge(f"sys={sysname} dir={direction} parent={case['parent']} components(own base scalars)={case['v']} "
        f"evaluated at {case['pt']}")
    cart, curv = make_systems(sysname, case["parent"])
    src, dst = (cart, curv) if direction == "c2q" else (curv, cart)
    scalars = list(src.coord_system.base_scalars())
    pt = _pad([v_mp(c) for c in case["pt"]])
    comp_vals = _pad([f_mp(c, pt) for c in case["v"]])
    # domain in which the round trip is an identity on component values
    if direction == "c2q":
        planar = abs(comp_vals[0]) + abs(comp_vals[1])
        if planar < mpf("1e-6"):
            return [], ["discard:component_vector_on_axis"]
    else:
        ok = comp_vals[0] > mpf("1e-6") and abs(comp_vals[1]) < MP.pi - mpf("1e-6")
        if sysname == "sph":
            ok = ok and mpf("1e-6") < comp_vals[2] < MP.pi - mpf("1e-6")
        if not ok:
            return [], ["discard:components_outside_chart"]
    V = Vector([f_sym(c, scalars) for c in case["v"]], src)
    env = dict(zip(scalars, [v_sym(c) for c in case["pt"]] + [0] * (3 - len(case["pt"]))))
    scale = 1 + sum(abs(x) for x in comp_vals) + sum(abs(x) for x in pt)**3
    back = j.guarded(K_VEC, lambda: V.rebase(dst).rebase(src), suffix=False)
    if back is not None:
        j.vec_equals(K_VEC, "v.rebase(B).rebase(A) (components as functions of A's base scalars)", back.components,
            comp_vals, env, scale, angle_slots(sysname) if direction == "q2c" else ())
    return j.out, []


def judge_dynfield(case: dict[str, Any]) -> tuple[list[tuple[str, str]], list[str]]:
    sysname, direction = case["sys"], case["dir"]
    j = _Judge(f"sys={sysname} dir={direction} parent={case['parent']} rebase={case['rebase']} expr={case['expr']} "
        f"trajectory(own base scalars)={case['traj']} at {case['pt']}")
    cart, curv = make_systems(sysname, case["parent"])
    src, dst = (cart, curv) if direction == "c2q" else (curv, cart)
    src_kind, dst_kind = ("cart", sysname) if direction == "c2q" else (sysname, "cart")
    pt = _pad([v_mp(c) for c in case["pt"]])
    traj_vals = [f_mp(c, pt) for c in case["traj"]]
    if case["rebase"]:
        # field defined in src, re-expressed in dst, applied to a trajectory written in dst's base scalars
        if direction == "q2c" and abs(traj_vals[0]) + abs(traj_vals[1]) < mpf("1e-6"):
            return [], ["discard:trajectory_on_axis"]
        if direction == "q2c" and sysname == "sph" and sum(abs(x) for x in traj_vals) < mpf("1e-6"):
            return [], ["discard:trajectory_on_axis"]
        src_coords = x_of(sysname, traj_vals) if direction == "c2q" else q_of(sysname, traj_vals)
        field = j.guarded(K_FIELD, lambda: _make_field(case["expr"], src, src_kind, False).rebase(dst), suffix=False)
        system = dst
    else:
        src_coords = traj_vals
        field = j.guarded(K_FIELD, lambda: _make_field(case["expr"], dst, dst_kind, False), suffix=False)
        system = dst
    if field is None:
        return j.out, []
    want = f_mp(case["expr"], src_coords)
    scalars = list(system.coord_system.base_scalars())
    traj = [f_sym(c, scalars) for c in case["traj"]]
    env = dict(zip(scalars, [v_sym(c) for c in case["pt"]] + [0] * (3 - len(case["pt"]))))
    got = j.guarded(K_FIELD, lambda: field.apply(traj), suffix=False)
    if got is not None:
        scale = 1 + abs(want) + sum(abs(x) for x in src_coords)**3 + sum(abs(x) for x in pt)**3
        j.scalar_equals(K_FIELD, "field applied to a trajectory written in the field's own base scalars", got, want,
            env, scale)
    return j.out, []


CANARY_VEC = {"mode": "dynvec", "sys": "cyl", "dir": "c2q", "parent": "cart", "style": "permuted",
    "v": [["q", 1], ["q", 0]], "pt": [["n", "1/1"], ["n", "2/1"], ["n", "3/1"]]}
CANARY_FIELD = {"mode": "dynfield", "sys": "cyl", "dir": "c2q", "parent": "cart", "style": "permuted",
    "expr": ["+", ["q", 0], ["-", ["q", 1]]], "rebase": True, "traj": [["q", 1], ["q", 0], ["q", 2]],
    "pt": [["n", "1/1"], ["n", "2/1"], ["n", "3/1"]]}

# ------------------------------------------------------------------------------------------------
# refusals


def refusal_cases() -> list[dict[str, Any]]:
    cases: list[dict[str, Any]] = []
    for a, b in (("cyl", "sph"), ("sph", "cyl")):
        for rel in ("free", "siblings"):
            cases.append({"mode": "refuse", "what": "transformation", "from": a, "to": b, "rel": rel})
            for n in (1, 2, 3):
                cases.append({"mode": "refuse", "what": "Vector.rebase", "from": a, "to": b, "rel": rel, "len": n})
            for lam in (False, True):
                cases.append({"mode": "refuse", "what": "ScalarField.rebase", "from": a, "to": b, "rel": rel, "lambda": lam})
    for fld in ("cart", "cyl", "sph"):
        for pk in ("cart", "cyl", "sph"):
            for lam in (False, True):
                for n in (1, 2, 3):
                    cases.append({"mode": "refuse", "what": "point", "field": fld, "point": pk, "lambda": lam, "len": n})
    return cases


def judge_refusal(case: dict[str, Any]) -> list[tuple[str, str]]:
    # pylint: disable=too-many-locals,too-many-branches
    import sympy
    from symplyphysics import CoordinateSystem, Vector, coordinates_transform
    from symplyphysics.core.points.cartesian_point import CartesianPoint
    from symplyphysics.core.points.cylinder_point import CylinderPoint
    from symplyphysics.core.points.sphere_point import SpherePoint
    S = CoordinateSystem.System
    types = {"cart": S.CARTESIAN, "cyl": S.CYLINDRICAL, "sph": S.SPHERICAL}
    what = case["what"]
    expr = ["+", ["*", ["q", 0], ["q", 1]], ["q", 2]]
    if what == "point":
        system = CoordinateSystem(types[case["field"]])
        field = _make_field(expr, system, case["field"], case["lambda"])
        cls = {"cart": CartesianPoint, "cyl": CylinderPoint, "sph": SpherePoint}[case["point"]]
        coords = [sympy.Rational(3, 2), sympy.Rational(1, 2), sympy.Rational(2, 3)][:case["len"]]
        key = f"refusal:point:{cls.__name__}->{case['field']}-field"
        try:
            res = field(cls(*coords))
        except ValueError:
            if case["field"] == case["point"]:
                return [(key, f"{cls.__name__} refused by a field of its own kind ({case})")]
            return []
        except Exception as exc:  # pylint: disable=broad-except
            return [(key, f"raised {type(exc).__name__} ({exc}) ({case})")]
        if case["field"] != case["point"]:
            return [(key, f"{cls.__name__} accepted by a {case['field']} field, returned {res} ({case})")]
        full = [mpf(3) / 2, mpf(1) / 2, mpf(2) / 3][:case["len"]]
        want = f_mp(expr, _pad(full))
        try:
            got_num = lib_num(res)
        except Undefined as exc:
            return [(f"field-apply:{case['field']}", f"field at own-kind point ({case['len']} coordinates given) returned {res}, "
                f"which is not a number ({exc}); expected {want}")]
        if not close(got_num, want, mpf(10)):
            return [(f"field-apply:{case['field']}", f"field at own-kind point returned {res}, expected {want}")]
        return []
    a, b = case["from"], case["to"]
    if case["rel"] == "free":
        sa, sb = CoordinateSystem(types[a]), CoordinateSystem(types[b])
    else:
        cart = CoordinateSystem()
        sa, sb = coordinates_transform(cart, types[a]), coordinates_transform(cart, types[b])
    key = f"refusal:{what}:{a}->{b}"
    calls: dict[str, Callable[[], Any]] = {
        "transformation": lambda: sa.transformation_to_system(types[b]),
        "Vector.rebase": lambda: Vector([2, sympy.pi / 3, sympy.pi / 4][:case.get("len", 3)], sa).rebase(sb).components,
        "ScalarField.rebase": lambda: _make_field(expr, sa, a, case.get("lambda", False)).rebase(sb).apply([2, 1, 1]),
    }
    try:
        res = calls[what]()
    except ValueError:
        return []
    except Exception as exc:  # pylint: disable=broad-except
        return [(key, f"raised {type(exc).__name__} ({exc}) instead of ValueError ({case})")]
    return [(key, f"direct {a}->{b} conversion not refused, returned {res} ({case})")]


# ------------------------------------------------------------------------------------------------
# driver

_JUDGES: dict[str, Callable[[dict[str, Any]], tuple[list[tuple[str, str]], list[str]]]] = {
    "vec": judge_vec,
    "field": judge_field,
    "dynvec": judge_dynvec,
    "dynfield": judge_dynfield,
    "refuse": lambda c: (judge_refusal(c), []),
}


# ------------------------------------------------------------------------------------------------
# float vectors at generated magnitudes (1e-30 .. 1e15): same clauses, floating-point tolerance relative to the vector


@st.composite
def fvec_case(draw: Any) -> Any:
    sysname = draw(st.sampled_from(["cyl", "sph"]))
    direction = draw(st.sampled_from(["c2q", "q2c"]))
    exp = draw(st.one_of(st.integers(-30, -13), st.integers(-12, 6), st.integers(7, 15)))
    mant = [draw(st.integers(-99, 99).filter(lambda x: x != 0)) for _ in range(3)]
    ang = [draw(_azimuth()), draw(_polar())]
    return {"mode": "fvec", "sys": sysname, "dir": direction, "exp": exp, "mant": mant, "ang": ang,
        "k": draw(_nz_rat(-6, 6))[1]}


FTOL = mpf("1e-11")


def judge_fvec(case: dict[str, Any]) -> tuple[list[tuple[str, str]], list[str]]:
    # pylint: disable=too-many-locals,too-many-statements
    import sympy
    from symplyphysics import CoordinateSystem, Vector
    from symplyphysics.core.vectors.arithmetics import dot_vectors, scale_vector, vector_magnitude
    sysname, direction = case["sys"], case["dir"]
    j = _Judge(f"float vector sys={sysname} dir={direction} mant={case['mant']} exp={case['exp']} ang={case['ang']} k={case['k']}")
    cart, curv = make_systems(sysname, "cart")
    unit = 10.0**case["exp"]
    angles = angle_slots(sysname)
    if direction == "c2q":
        comps = [float(m) * unit for m in case["mant"]]
    elif sysname == "cyl":
        comps = [abs(float(case["mant"][0])) * unit, float(v_mp(case["ang"][0])), float(case["mant"][2]) * unit]
    else:
        comps = [abs(float(case["mant"][0])) * unit, float(v_mp(case["ang"][0])), float(v_mp(case["ang"][1]))]
    vals = [mpf(c) for c in comps]  # the exact binary values handed to the library
    p_v = vals if direction == "c2q" else x_of(sysname, vals)
    q_v = q_of(sysname, vals) if direction == "c2q" else vals
    length = MP.sqrt(m_dot3(p_v, p_v))
    k_mp, k_sym = v_mp(["n", case["k"]]), sympy.Rational(case["k"])

    def near(tag: str, what: str, got_comps: Any, want: list[Any], curvilinear: bool, scale: Any = None) -> None:
        got_comps = list(got_comps) + [0] * (3 - len(list(got_comps)))
        for i, (c, w) in enumerate(zip(got_comps, want)):
            try:
                g = lib_num(c)
            except Undefined as exc:
                j.fail(tag, f"{what}: component {i} undefined ({exc})")
                return
            is_angle = curvilinear and i in angles
            d = g - w
            if is_angle:
                d = d - TWO_PI * MP.nint(d / TWO_PI)
            if abs(d) > FTOL * (1 if is_angle else (scale if scale is not None else length)):
                j.fail(tag, f"{what}: component {i} is {MP.nstr(g, 17)}, expected {MP.nstr(w, 17)} (vector length {MP.nstr(length, 5)})")
                return

    def scalar(tag: str, what: str, got: Any, want: Any, scale: Any) -> None:
        try:
            g = lib_num(got)
        except Undefined as exc:
            j.fail(tag, f"{what}: undefined ({exc})")
            return
        if abs(g - want) > FTOL * scale:
            j.fail(tag, f"{what}: {MP.nstr(g, 17)}, expected {MP.nstr(want, 17)}")

    src, dst = (cart, curv) if direction == "c2q" else (curv, cart)
    tag = f"cart->{sysname}" if direction == "c2q" else f"{sysname}->cart"
    V = Vector([sympy.Float(c) for c in comps], src)
    R = j.guarded(f"float:rebase:{tag}", lambda: V.rebase(dst))
    if R is not None:
        near(f"float:rebase:{tag}", "v.rebase(other system)", R.components, q_v if direction == "c2q" else p_v, direction == "c2q")
        back = j.guarded(f"float:roundtrip:{tag}", lambda: R.rebase(src))
        if back is not None:
            near(f"float:roundtrip:{tag}", "v.rebase(B).rebase(A)", back.components, vals, direction == "q2c")
    Vq = R if direction == "c2q" else V  # the curvilinear representative
    if Vq is not None:
        mag = j.guarded(f"float:magnitude:{sysname}", lambda: vector_magnitude(Vq))
        if mag is not None:
            scalar(f"float:magnitude:{sysname}", "vector_magnitude in curvilinear components", mag, length, length)
        dd = j.guarded(f"float:dot:{sysname}", lambda: dot_vectors(Vq, Vq))
        if dd is not None:
            scalar(f"float:dot:{sysname}", "dot_vectors(v, v) in curvilinear components", dd, length * length, length * length)
        sv = j.guarded(f"float:scale:{sysname}", lambda: scale_vector(k_sym, Vq))
        if sv is not None:
            try:
                got = x_of(sysname, [lib_num(c) for c in sv.components])
                for i in range(3):
                    if abs(got[i] - k_mp * p_v[i]) > FTOL * length * (1 + abs(k_mp)):
                        j.fail(f"float:scale:{sysname}", f"scale_vector(k, v) maps to Cartesian {[MP.nstr(x, 15) for x in got]}, expected "
                            f"{[MP.nstr(k_mp * x, 15) for x in p_v]}")
                        break
            except Undefined as exc:
                j.fail(f"float:scale:{sysname}", f"scale_vector: undefined component ({exc})")
    return j.out, ["float-vector", "float-exp:" + ("micro" if case["exp"] < -12 else "macro" if case["exp"] <= 6 else "astro")]


def judge(case: dict[str, Any]) -> tuple[list[tuple[str, str]], list[str]]:
    return _JUDGES[case["mode"]](case)


def _cart_coords_nonzero(case: dict[str, Any]) -> bool:
    """v off all coordinate planes (all three Cartesian coordinates non-zero)."""
    vals = _pad([v_mp(c[0]) for c in case["v"]])
    p = vals if case["dir"] == "c2q" else x_of(case["sys"], vals)
    return all(abs(x) > mpf("1e-40") for x in p)


def nontrivial(case: dict[str, Any]) -> bool:
    mode = case["mode"]
    if mode == "vec":
        return _cart_coords_nonzero(case)
    if mode == "field":
        cs: set[int] = set()
        f_coords(case["expr"], cs)
        return len(cs) >= 2
    return True


def _labels(case: dict[str, Any]) -> list[str]:
    mode = case["mode"]
    if mode == "refuse":
        return [f"refuse:{case['what']}"]
    if mode == "fvec":
        return ["mode=fvec", f"fvec:sys={case['sys']}", f"fvec:dir={case['dir']}"]
    labs = [f"mode={mode}", f"{mode}:sys={case['sys']}", f"{mode}:dir={case['dir']}", f"{mode}:parent={case['parent']}"]
    if mode == "vec":
        labs.append(f"vec:len_v={len(case['v'])}")
        labs.append(f"vec:len_w={len(case['w'])}")
        labs.append("vec:k>0" if Fraction(case["k"]) > 0 else "vec:k<0")
        flags = [c[1] for c in case["v"]]
        labs.append("vec:symbolic_components" if any(flags) else "vec:numeric_components")
        if _cart_coords_nonzero(case):
            labs.append("vec:off_coordinate_planes")
            vals = _pad([v_mp(c[0]) for c in case["v"]])
            p = vals if case["dir"] == "c2q" else x_of(case["sys"], vals)
            labs.append("vec:octant=" + "".join("+" if x > 0 else "-" for x in p))
        else:
            labs.append("vec:on_coordinate_plane")
        if case["dir"] == "q2c":
            labs.append("vec:azimuth=" + ("pi-multiple" if case["v"][1][0][0] == "pi" else "plain") if len(case["v"]) > 1
                else "vec:azimuth=missing")
    elif mode == "field":
        cs: set[int] = set()
        f_coords(case["expr"], cs)
        labs.append(f"field:coords_used={len(cs)}")
        labs.append("field:lambda" if case["lambda"] else "field:from_expression")
        labs.append(f"field:call={case['call']}")
        labs.append(f"field:len_pt={len(case['pt'])}")
        ops: set[str] = set()
        _ops(case["expr"], ops)
        if ops & {"sin", "cos"}:
            labs.append("field:trigonometric")
        if case["dir"] == "q2c" and _raw_angle(case["expr"], case["sys"]):
            labs.append("field:angle_outside_trig")
    else:
        labs.append(f"{mode}:style={case['style']}")
    return labs


def _ops(d: Any, out: set[str]) -> None:
    out.add(d[0])
    for x in d[1:]:
        if isinstance(x, list):
            _ops(x, out)


def _raw_angle(d: Any, sysname: str, inside_trig: bool = False) -> bool:
    if d[0] == "q":
        return d[1] in angle_slots(sysname) and not inside_trig
    return any(_raw_angle(x, sysname, inside_trig or d[0] in ("sin", "cos")) for x in d[1:] if isinstance(x, list))


def _record(rec: Recorder, case: dict[str, Any], excluded: dict[str, str]) -> None:
    mode = case["mode"]
    if mode in excluded:
        rec.count(f"excluded:{excluded[mode]}")
        return
    viol, labs = judge(case)
    for key, what in viol:
        rec.violation(key, what, case)
    rec.case(case, nontrivial=nontrivial(case), labels=_labels(case) + labs)


_STRATEGIES = {"vec": vec_case, "field": field_case, "dynvec": dynvec_case, "dynfield": dynfield_case, "fvec": fvec_case}
_JUDGES["fvec"] = judge_fvec


def _shard(task: dict[str, Any]) -> Recorder:
    rec = Recorder()
    excluded = task["excluded"]
    if task["kind"] == "list":
        for case in task["cases"]:
            _record(rec, case, {})
        return rec
    if task["kind"] in excluded:
        # class excluded by construction: nothing is generated, the number of skipped cases is recorded
        rec.count(f"excluded:{excluded[task['kind']]}", task["n"])
        return rec
    hyp_run(_STRATEGIES[task["kind"]](), lambda case: _record(rec, case, excluded), task["n"], task["seed"])
    return rec


def run(ctx: Ctx) -> None:
    import symplyphysics.core.fields.scalar_field  # noqa: F401  pylint: disable=unused-import
    open_known = {k["key"] for k in ctx.known if k.get("status") == "open"}
    excluded: dict[str, str] = {}
    if K_VEC in open_known:
        excluded["dynvec"] = K_VEC
    if K_FIELD in open_known:
        excluded["dynfield"] = K_FIELD
    plan = {"vec": ctx.pick(1300, 20000), "field": ctx.pick(650, 9000), "dynvec": ctx.pick(130, 1500),
        "dynfield": ctx.pick(130, 1500), "fvec": ctx.pick(480, 8000)}
    judge(CANARY_FIELD)  # warm SymPy before forking
    tasks: list[dict[str, Any]] = []
    # canaries: the minimal reproductions of the own-base-scalar class are always judged, so that an open known
    # finding keeps being reported while the class itself is excluded from generation
    tasks.append({"kind": "list", "cases": [CANARY_VEC, CANARY_FIELD] + refusal_cases(), "excluded": {}})
    offset = 0
    for kind, total in plan.items():
        shards = 16 if total >= 640 else 4
        for i, n in enumerate(shard_counts(total, shards)):
            tasks.append({"kind": kind, "n": n, "seed": ctx.seed * 1000 + offset + i, "excluded": excluded})
        offset += 100
    for status, val in run_tasks(_shard, tasks):
        if status != "ok":
            raise RuntimeError(f"C11 shard failed: {status}: {val}")
        ctx.merge(val)
    # the own-base-scalar keys are reported through their canonical minimal reproduction (stable replay file);
    # the number of generated cases that hit each key is kept in the evidence
    for key, canary in ((K_VEC, CANARY_VEC), (K_FIELD, CANARY_FIELD)):
        hits = [v for v in ctx.violations if v["key"] == key]
        canon = [v for v in hits if v["case"] == canary]
        ctx.notes[f"cases_violating:{key}"] = len(hits)
        if canon:
            ctx.violations[:] = [v for v in ctx.violations if v["key"] != key] + canon[:1]
    ctx.notes["refusal_cases_enumerated"] = len(refusal_cases())
    ctx.notes["excluded_classes"] = sorted(excluded.values())
    ctx.assumptions += [
        "legacy conventions: cylindrical (r, theta, z); spherical (r, theta = azimuth, phi = polar); the harness maps "
        "X(q), X^-1(p) are typed from the textbook with this ordering and compared with transformation_to_system in "
        "every vec case (clause 'table')",
        "systems of a pair are related through coordinates_transform (either side as parent), as in the unit tests",
        "inputs stay off the singular sets: Cartesian vectors/points have x != 0, r > 0, azimuth in (-pi, pi), polar "
        "angle in (0, pi); spherical vectors shorter than 3 (polar angle 0) are not round-tripped",
        "point-kind refusals are required only of callable fields (constant fields return their constant before any check)",
        "values compared at 50 digits with tolerance 1e-30 * (1 + sum |inputs|) (dot: squared scale); angles modulo 2 pi",
        "own-base-scalar class: the round trip / field value is judged numerically at one generated point where the "
        "component vector lies inside the chart of the target system",
    ]
    known = {k["key"] for k in ctx.known}
    seen: set[str] = set()
    budget = ctx.pick(25, 120)
    t0 = time.time()
    for v in list(ctx.violations):
        key = v["key"]
        if key in seen or key in known or key in (K_VEC, K_FIELD) or v["case"].get("mode") == "refuse":
            continue
        seen.add(key)
        left = budget - (time.time() - t0)
        if left <= 1:
            break
        small = shrink(v["case"], _candidates, lambda c, key=key: any(k == key for k, _ in judge(c)[0]),
            budget_s=min(ctx.pick(8, 30), left))
        res = [w for k, w in judge(small)[0] if k == key]
        if res:
            ctx.violation(key, res[0], small)


_SIMPLE = {"cart": [["n", "1/1"], ["n", "2/1"], ["n", "3/1"]], "cyl": [["n", "2/1"], ["pi", "1/3"], ["n", "3/1"]],
    "sph": [["n", "2/1"], ["pi", "1/3"], ["pi", "1/4"]]}


def _expr_candidates(d: Any) -> Any:
    if d[0] in ("q", "n"):
        return
    for x in d[1:]:
        if isinstance(x, list):
            yield x
    for i, x in enumerate(d[1:], start=1):
        if isinstance(x, list):
            for sub in _expr_candidates(x):
                yield d[:i] + [sub] + d[i + 1:]


def _candidates(case: dict[str, Any]) -> Any:
    mode = case["mode"]
    if mode == "vec":
        kind = "cart" if case["dir"] == "c2q" else case["sys"]
        for name, min_len in (("w", 1 if case["dir"] == "c2q" else 0), ("v", 1)):
            if len(case[name]) > min_len:
                yield {**case, name: case[name][:-1]}
        for name in ("v", "w"):
            for i, (val, flag) in enumerate(case[name]):
                if flag is not None:
                    yield {**case, name: case[name][:i] + [[val, None]] + case[name][i + 1:]}
                if val != _SIMPLE[kind][i]:
                    yield {**case, name: case[name][:i] + [[_SIMPLE[kind][i], flag]] + case[name][i + 1:]}
        if case["k"] not in ("2/1", "-2/1"):
            yield {**case, "k": "2/1" if Fraction(case["k"]) > 0 else "-2/1"}
        if case["parent"] != "cart":
            yield {**case, "parent": "cart"}
        return
    if mode in ("field", "dynfield"):
        for sub in _expr_candidates(case["expr"]):
            yield {**case, "expr": sub}
    if mode == "field":
        if case["lambda"]:
            yield {**case, "lambda": False}
        if case["call"] != "apply":
            yield {**case, "call": "apply"}
    if mode == "dynvec":
        if len(case["v"]) > 1:
            yield {**case, "v": case["v"][:-1]}
        for i, c in enumerate(case["v"]):
            for sub in _expr_candidates(c):
                yield {**case, "v": case["v"][:i] + [sub] + case["v"][i + 1:]}
    if mode == "dynfield":
        for i, c in enumerate(case["traj"]):
            for sub in _expr_candidates(c):
                yield {**case, "traj": case["traj"][:i] + [sub] + case["traj"][i + 1:]}
    if case.get("parent") != "cart":
        yield {**case, "parent": "cart"}


def replay(case: dict[str, Any]) -> list[tuple[str, str]]:
    return judge(case)[0]
