"""C14 - coordinate-free vector algebra simplification preserves value in R^3.

Generated: expression trees (plain JSON descriptions) over a pool of vector atoms and real scalar
atoms, with repeated operands, a generated role->object permutation controlling the relative id()
order of the atoms (the library sorts operands by id), two rational assignments per case.
Oracle: M-r3 component model (vp/model/r3.py); auto-evaluated constructors, evaluate=False + doit(),
and d/dt (product rule, via forward-mode dual numbers in the model) must all agree with it.
"""
from __future__ import annotations

from vp import guard as _guard

import functools
import signal
import traceback
from typing import Any

from hypothesis import strategies as st

from ..boot import Ctx, Recorder, jhash
from ..hyp import hyp_run
from ..shrink import get_at, paths, replace_at, shrink
from ..model import r3
from ..pool import run_tasks, shard_counts

PID = "C14"
RULE = ("Hypothesis-generated expression trees (depth<=5) over 3-5 vector atoms and 2 real scalar atoms with "
    "ops add/scale/neg/cross/dot/mixed/norm/mul/addS/negS/pow2, repeated operands generated on purpose, a generated "
    "permutation fixing the relative id() order of the atoms, display names drawn from a tiny pool (distinct atoms often share a name), evaluated (a) through auto-evaluating constructors, "
    "(b) evaluate=False then .doit(), (c) .diff(t)/vector_diff on function-valued atoms; each compared with the "
    "harness R^3 component model under 2 rational assignments (60-digit arithmetic, tol 1e-40). "
    "Non-trivial = tree contains a product node with a product operand, or a repeated operand; distinct by tree+perm hash.")

MAXK = 5
NS = 2

# ------------------------------------------------------------------------------------------------
# generator


@functools.lru_cache(maxsize=None)
def _rat() -> st.SearchStrategy[str]:
    return st.builds(lambda n, d: f"{n}/{d}", st.integers(-6, 6).filter(lambda x: x != 0), st.integers(1, 4))


@functools.lru_cache(maxsize=None)
def _vec(depth: int, k: int) -> st.SearchStrategy[Any]:
    leaf = st.one_of(st.builds(lambda i: ["V", i], st.integers(0, k - 1)),
        st.builds(lambda i: ["V", i], st.integers(0, k - 1)),
        st.builds(lambda i: ["V", i], st.integers(0, min(1, k - 1))), st.just(["zero"]))
    if depth <= 0:
        return leaf
    sub = _vec(depth - 1, k)
    sca = _sca(depth - 1, k)

    @st.composite
    def crossnode(draw: Any) -> Any:
        a = draw(sub)
        mode = draw(st.integers(0, 9))
        if mode == 0:
            b = a
        else:
            b = draw(sub)
        return ["cross", a, b]

    return st.one_of(leaf, st.builds(lambda a, b: ["add", a, b], sub, sub),
        st.builds(lambda s, a: ["scale", s, a], sca, sub), st.builds(lambda a: ["neg", a], sub), crossnode(),
        crossnode())


@functools.lru_cache(maxsize=None)
def _sca(depth: int, k: int) -> st.SearchStrategy[Any]:
    leaf = st.one_of(st.builds(lambda j: ["S", j], st.integers(0, NS - 1)),
        st.builds(lambda r: ["num", r], _rat()))
    if depth <= 0:
        return leaf
    sub = _sca(depth - 1, k)
    vec = _vec(depth - 1, k)

    @st.composite
    def dotnode(draw: Any) -> Any:
        a = draw(vec)
        mode = draw(st.integers(0, 9))
        if mode == 0:
            b = a
        elif mode == 1 and a[0] == "cross":
            b = ["cross", a[2], a[1]]
        elif mode == 2 and a[0] == "cross":
            b = ["cross", a[1], draw(vec)]
        else:
            b = draw(vec)
        return ["dot", a, b]

    @st.composite
    def mixednode(draw: Any) -> Any:
        a, b = draw(vec), draw(vec)
        mode = draw(st.integers(0, 9))
        c = a if mode == 0 else draw(vec)
        order = draw(st.permutations([a, b, c]))
        return ["mixed", *order]

    return st.one_of(leaf, dotnode(), dotnode(), mixednode(), st.builds(lambda a: ["norm", a], vec),
        # norm of a scaled vector: exercises the factor extraction |k| * norm(v)
        st.builds(lambda k, a: ["norm", ["scale", k, a]], sub, vec),
        # norm of a sum whose terms share one scalar factor: |k| must come out, not k
        st.builds(lambda k, a, b: ["norm", ["add", ["scale", k, a], ["scale", k, b]]], sub, vec, vec),
        # two triple products over the same operands in orders of opposite parity, meeting in one expression
        st.builds(lambda a, b, c, neg: ["addS", ["mixed", a, b, c], ["negS", ["mixed", b, a, c]] if neg else ["mixed", b, a, c]],
            vec, vec, vec, st.booleans()),
        st.builds(lambda a, b, c: ["mul", ["mixed", a, b, c], ["mixed", a, c, b]], vec, vec, vec),
        st.builds(lambda a, b: ["mul", a, b], sub, sub), st.builds(lambda a, b: ["addS", a, b], sub, sub),
        st.builds(lambda a, b: ["addS", a, ["negS", b]], sub, sub), st.builds(lambda a: ["negS", a], sub),
        st.builds(lambda a, b: ["addS", ["negS", a], ["negS", b]], sub, sub),
        st.builds(lambda a: ["pow2", a], sub))


@st.composite
def case_strategy(draw: Any, deriv: bool = False) -> Any:
    k = draw(st.integers(3, MAXK))
    depth = draw(st.integers(2, 4 if deriv else 5))
    scalar_root = draw(st.booleans())
    expr = draw(_sca(depth, k) if scalar_root else _vec(depth, k))
    perm = draw(st.permutations(list(range(k))))
    nas = 2
    assigns = []
    for _ in range(nas):
        vs = [[draw(_rat()) for _ in range(3)] for _ in range(k)]
        ss = [draw(_rat()) for _ in range(NS)]
        a: dict[str, Any] = {"V": vs, "S": ss}
        if deriv:
            a["dV"] = [[draw(_rat()) for _ in range(3)] for _ in range(k)]
            a["dS"] = [draw(_rat()) for _ in range(NS)]
        assigns.append(a)
    # display names from a tiny pool: distinct atoms often share a name (they must still be distinct vectors)
    names = [draw(st.sampled_from(["a", "b", "a", "F"])) for _ in range(k)]
    case: dict[str, Any] = {"k": k, "perm": list(perm), "expr": expr, "assign": assigns, "names": names}
    if deriv:
        # which atoms are functions of t (others are constant symbols)
        case["funV"] = [draw(st.booleans()) or i == 0 for i in range(k)]
        case["funS"] = [draw(st.booleans()) for _ in range(NS)]
        case["deriv"] = True
    return case


# ------------------------------------------------------------------------------------------------
# execution of one case


class _Hang(Exception):
    pass


def _alarm(_s: int, _f: Any) -> None:
    raise _Hang()


def _ops(d: Any, out: list[str]) -> None:
    out.append(d[0])
    for x in d[1:]:
        if isinstance(x, list):
            _ops(x, out)


def _skeleton(d: Any, depth: int = 2) -> str:
    if d[0] in ("V", "S", "num", "zero"):
        return d[0] if d[0] != "num" else "n"
    if depth == 0:
        return "_"
    return d[0] + "(" + ",".join(_skeleton(x, depth - 1) for x in d[1:] if isinstance(x, list)) + ")"


_PRODUCTS = ("cross", "dot", "mixed")


def nontrivial(d: Any) -> bool:
    found = [False]

    def walk(x: Any) -> None:
        if not isinstance(x, list):
            return
        kids = [c for c in x[1:] if isinstance(c, list)]
        if x[0] in _PRODUCTS:
            for c in kids:
                ops: list[str] = []
                _ops(c, ops)
                if any(o in _PRODUCTS for o in ops):
                    found[0] = True
            ks = [jhash(c) for c in kids]
            if len(set(ks)) < len(ks):
                found[0] = True
        for c in kids:
            walk(c)

    walk(d)
    return found[0]


class Built:
    """Library objects for one case: atoms in generated id order."""

    def __init__(self, case: dict[str, Any]) -> None:
        import sympy
        from symplyphysics.core.experimental.vectors import VectorFunction, VectorSymbol
        k = case["k"]
        deriv = bool(case.get("deriv"))
        self.t = sympy.Symbol("t", real=True)
        funv = case.get("funV", [False] * k)
        funs = case.get("funS", [False] * NS)
        # create more objects than needed, sort by id, pick by the generated permutation so the
        # permutation *is* the relative id order of the roles
        raw: list[Any] = []
        names = case.get("names") or [f"w{i}" for i in range(k)]
        for i in range(k):
            raw.append(VectorSymbol(names[i]))
        raw.sort(key=id)
        self.idrank = list(case["perm"])
        self.atoms_v: list[Any] = []
        for role in range(k):
            if deriv and funv[role]:
                f = VectorFunction(names[role], (self.t,))
                self.atoms_v.append(f(self.t))
            else:
                self.atoms_v.append(raw[case["perm"][role]])
        self.atoms_s: list[Any] = []
        for j in range(NS):
            if deriv and funs[j]:
                self.atoms_s.append(sympy.Function(f"g{j}", real=True)(self.t))
            else:
                self.atoms_s.append(sympy.Symbol(f"s{j}", real=True))

    def build(self, d: Any, evaluate: bool | None) -> Any:
        import sympy
        from symplyphysics.core.experimental.vectors import (VectorCross, VectorDot, VectorMixedProduct,
            VectorNorm)
        op = d[0]
        b = self.build
        kw: dict[str, Any] = {} if evaluate is None else {"evaluate": evaluate}
        if op == "V":
            return self.atoms_v[d[1]]
        if op == "S":
            return self.atoms_s[d[1]]
        if op == "num":
            return sympy.Rational(d[1])
        if op == "zero":
            return sympy.S.Zero
        if op == "add":
            return b(d[1], evaluate) + b(d[2], evaluate)
        if op == "neg":
            return -b(d[1], evaluate)
        if op == "scale":
            return b(d[1], evaluate) * b(d[2], evaluate)
        if op == "cross":
            return VectorCross(b(d[1], evaluate), b(d[2], evaluate), **kw)
        if op == "dot":
            return VectorDot(b(d[1], evaluate), b(d[2], evaluate), **kw)
        if op == "mixed":
            return VectorMixedProduct(b(d[1], evaluate), b(d[2], evaluate), b(d[3], evaluate), **kw)
        if op == "norm":
            return VectorNorm(b(d[1], evaluate), **kw)
        if op == "mul":
            return b(d[1], evaluate) * b(d[2], evaluate)
        if op == "addS":
            return b(d[1], evaluate) + b(d[2], evaluate)
        if op == "negS":
            return -b(d[1], evaluate)
        if op == "pow2":
            return b(d[1], evaluate)**2
        raise ValueError(op)

    def envs(self, case: dict[str, Any], a: dict[str, Any]) -> tuple[dict[str, Any], dict[Any, Any]]:
        """(model env, library env) for one assignment."""
        import sympy
        from symplyphysics.core.experimental.vectors import VectorDerivative
        k = case["k"]
        deriv = bool(case.get("deriv"))
        funv = case.get("funV", [False] * k)
        funs = case.get("funS", [False] * NS)
        menv: dict[str, Any] = {"V": [], "S": []}
        lenv: dict[Any, Any] = {}
        for i in range(k):
            val = [r3.frac(x) for x in a["V"][i]]
            dv = [r3.frac(x) for x in a["dV"][i]] if deriv and funv[i] else [0, 0, 0]
            menv["V"].append(tuple(r3.Dual(v, d) for v, d in zip(val, dv)))
            atom = self.atoms_v[i]
            lenv[atom] = tuple(val)
            if deriv and funv[i]:
                lenv[VectorDerivative(atom, self.t)] = tuple(r3.mpf(x) for x in dv)
        for j in range(NS):
            val = r3.frac(a["S"][j])
            dv = r3.frac(a["dS"][j]) if deriv and funs[j] else 0
            menv["S"].append(r3.Dual(val, dv))
            atom = self.atoms_s[j]
            lenv[atom] = val
            if deriv and funs[j]:
                lenv[sympy.Derivative(atom, self.t)] = r3.mpf(dv)
        return menv, lenv


def _eval_lib(e: Any, lenv: dict[Any, Any]) -> Any:
    import sympy
    # sign()/Derivative nodes may appear in derivatives of |k|
    if e.has(sympy.sign) or e.has(sympy.Piecewise):
        rep = {}
        for s in e.atoms(sympy.sign):
            v = r3.eval_lib(s.args[0], lenv)
            rep[s] = sympy.Integer(1 if v > 0 else (-1 if v < 0 else 0))
        e = e.xreplace(rep)
    return r3.eval_lib(e, lenv)


def _exc_key(exc: BaseException) -> str:
    tb = traceback.extract_tb(exc.__traceback__)
    frame = "?"
    for fr in tb:
        if "symplyphysics" in fr.filename:
            frame = f"{fr.filename.split('symplyphysics/')[-1]}:{fr.name}"
    return f"exception:{type(exc).__name__}@{frame}"


def judge(case: dict[str, Any], hang_s: int = 30) -> list[tuple[str, str]]:
    """Run one case; returns [(key, what)] violations, or [("__inconclusive__", why)]."""
    _guard.install(_alarm)
    _guard.arm(hang_s)
    try:
        return _judge(case)
    except _Hang:
        return [("__inconclusive__", "hang guard expired")]
    finally:
        signal.alarm(0)


def _judge(case: dict[str, Any]) -> list[tuple[str, str]]:
    # pylint: disable=too-many-locals,too-many-branches,too-many-statements
    out: list[tuple[str, str]] = []
    bt = Built(case)
    d = case["expr"]
    deriv = bool(case.get("deriv"))
    routes: list[tuple[str, Any]] = []
    try:
        auto = bt.build(d, None)
        if deriv:
            from symplyphysics.core.experimental.vectors import vector_diff
            try:
                routes.append(("diff", auto.diff(bt.t) if hasattr(auto, "diff") else 0))
            except NotImplementedError:
                return [("__unsupported__", "NotImplementedError (documented unsupported derivative shape)")]
            if r3.is_vector_desc(d):
                try:
                    routes.append(("vector_diff", vector_diff(auto, bt.t)))
                except NotImplementedError:
                    pass
        else:
            routes.append(("auto", auto))
            uneval = bt.build(d, False)
            routes.append(("uneval", uneval))  # interpreter self-check: must equal the model too
            routes.append(("doit", uneval.doit() if hasattr(uneval, "doit") else uneval))
    except RecursionError as exc:
        return [("exception:RecursionError", f"RecursionError while evaluating {d}: {exc}")]
    except _Hang:
        raise
    except Exception as exc:  # pylint: disable=broad-except
        return [(_exc_key(exc), f"{type(exc).__name__}: {exc} on well-typed tree {d}")]
    for a in case["assign"]:
        menv, lenv = bt.envs(case, a)
        try:
            r3.STRICT_KINK = bool(deriv)
            mval = r3.eval_desc(d, menv)
        except ZeroDivisionError:
            return [("__discard__", "model division by zero")]
        finally:
            r3.STRICT_KINK = False
        want = r3.deriv(mval) if deriv else r3.plain(mval)
        uneval_bad = ""
        for name, obj in routes:
            try:
                got = _eval_lib(obj, lenv) if not isinstance(obj, int) else r3.mpf(obj)
            except r3.Uninterpretable as exc:
                if name == "uneval":
                    raise
                return [("__uninterpretable__", str(exc)[:200])]
            except ZeroDivisionError:
                return [("__discard__", "division by zero at the assignment (norm of zero vector)")]
            if not r3.close(got, want):
                if name == "uneval":
                    # the unevaluated tree, read by the harness interpreter, should be the model's value: a disagreement
                    # is a harness error - unless the evaluated routes of the same case disagree with the model too (then
                    # the library's own equality/merging has already changed the tree while it was being built)
                    uneval_bad = f"harness self-check failed: interpreter != model on {d}"
                    continue
                sig = _blame(bt, case, d, a) if not deriv else _skeleton(d, 2)
                out.append((f"mismatch:{name}:{sig}",
                    f"route={name} tree={d} idrank={case['perm']} library={obj} "
                    f"value={r3.show(got)} model={r3.show(want)}"))
        if uneval_bad and not out:
            raise AssertionError(uneval_bad)
        if out:
            break
    return out


def _blame(bt: Built, case: dict[str, Any], d: Any, a: dict[str, Any]) -> str:
    """Skeleton of a deepest sub-tree whose auto-evaluated form disagrees with the model."""
    menv, lenv = bt.envs(case, a)
    best = [None]

    def walk(x: Any) -> bool:
        """True iff x or something below it mismatches; records the deepest."""
        kids = [c for c in x[1:] if isinstance(c, list)]
        bad_below = False
        for c in kids:
            if walk(c):
                bad_below = True
        if bad_below:
            return True
        try:
            got = _eval_lib(bt.build(x, None), lenv)
            want = r3.plain(r3.eval_desc(x, menv))
            ok = r3.close(got, want)
        except Exception:  # pylint: disable=broad-except
            ok = False
        if not ok and best[0] is None:
            best[0] = x
        return not ok

    walk(d)
    return _skeleton(best[0] if best[0] is not None else d, 2)


# ------------------------------------------------------------------------------------------------
# driver


def _shard(task: dict[str, Any]) -> Recorder:
    rec = Recorder()
    deriv = task["deriv"]

    def body(case: dict[str, Any]) -> None:
        res = judge(case)
        nt = nontrivial(case["expr"])
        labels = ["deriv" if deriv else "algebra"]
        labels.append("idorder01=" + ("lt" if case["perm"][0] < case["perm"][1] else "gt"))
        labels.append("idorder12=" + ("lt" if case["perm"][1] < case["perm"][2] else "gt"))
        ops: list[str] = []
        _ops(case["expr"], ops)
        for o in set(ops) & {"cross", "dot", "mixed", "norm"}:
            labels.append("has_" + o)
        for key, what in res:
            if key == "__inconclusive__":
                rec.inconclusive += 1
                labels.append("hang_guard")
            elif key.startswith("__"):
                labels.append(key.strip("_"))
            else:
                rec.violation(key, what, case)
        rec.case({"e": case["expr"], "p": case["perm"], "d": deriv}, nontrivial=nt, labels=labels)

    hyp_run(case_strategy(deriv=deriv), body, task["n"], task["seed"])
    return rec


def run(ctx: Ctx) -> None:
    n_alg = ctx.pick(8000, 300000)
    n_der = ctx.pick(1000, 30000)
    shards = 16
    tasks = []
    for i, n in enumerate(shard_counts(n_alg, shards)):
        tasks.append({"deriv": False, "n": n, "seed": ctx.seed * 1000 + i})
    for i, n in enumerate(shard_counts(n_der, shards)):
        tasks.append({"deriv": True, "n": n, "seed": ctx.seed * 1000 + 500 + i})
    import symplyphysics.core.experimental.vectors  # noqa: F401  pylint: disable=unused-import
    for status, val in run_tasks(_shard, tasks):
        if status != "ok":
            raise RuntimeError(f"C14 shard failed: {status}: {val}")
        ctx.merge(val)
    ctx.assumptions += [
        "R^3 component formulas of the harness model (vp/model/r3.py) are the meaning of dot/cross/mixed/norm",
        "relative id() order of atoms is controlled by sorting freshly created VectorSymbols by id and assigning roles by a generated permutation",
        "cases whose assignment makes a norm vanish (division by zero in a derivative) are discarded and counted",
    ]
    # minimise each new bucket (bounded)
    known = {k["key"] for k in ctx.known if k.get("status") == "open"}
    seen: set[str] = set()
    for v in list(ctx.violations):
        key = v["key"]
        if key in seen or key in known:
            continue
        seen.add(key)
        small = shrink(v["case"], _candidates, lambda c, key=key: any(k == key for k, _ in judge(c)),
            budget_s=ctx.pick(20, 90))
        res = [w for k, w in judge(small) if k == key]
        if res:
            ctx.violation(key, res[0], small)


def _candidates(case: dict[str, Any]) -> Any:
    expr = case["expr"]
    for p in paths(expr):
        node = get_at(expr, p)
        if not isinstance(node, list) or node[0] in ("V", "S", "num", "zero"):
            continue
        vec = r3.is_vector_desc(node)
        repl = [c for c in node[1:] if isinstance(c, list) and r3.is_vector_desc(c) == vec]
        repl.append(["V", 0] if vec else ["num", "1/1"])
        for r in repl:
            if p == () and r3.is_vector_desc(r) != r3.is_vector_desc(expr):
                continue
            yield {**case, "expr": replace_at(expr, p, r)}
    if len(case["assign"]) > 1:
        yield {**case, "assign": case["assign"][:1]}
        yield {**case, "assign": case["assign"][1:]}


def replay(case: dict[str, Any]) -> list[tuple[str, str]]:
    return [(k, w) for k, w in judge(case) if not k.startswith("__")]
