"""C02, vector laws: "where a vector law is offered solved for different unknowns, the forms are mutual inverses".

Programs: every pair (f, g) of public law-functions of one module where f is named <X>_law/<X>_definition and takes a
Vector parameter <Y>_, g is named <Y>_law/<Y>_definition and takes <X>_, and all other parameters coincide by name
(exhaustive over the catalogue); likewise pairs of calculate_<X> / calculate_<Y>.
Inputs: generated rational components for the vector and the remaining vector/scalar parameters and for every free
module-level symbol (mass, charge, ...), generated units/prefixes at the calculate level.
Oracle: round trip g(f(v, rest), rest) == v component-wise (30 digits, 1e-20; SI values rel 1e-9 at the calculate level).
"""
from __future__ import annotations

import inspect
from typing import Any

from ..boot import Recorder
from ..catalogue import decorator_specs, import_module, public_functions, short
from ..model import dims, units as MU

SUFFIXES = ("_law", "_definition")
# irregular names in the catalogue: function stem -> parameter stem it corresponds to
ALIASES = {
    "centrifugal": "centrifugal_acceleration",
    "centripetal": "centripetal_acceleration",
    "acceleraton_due_to_gravity": "acceleration_due_to_gravity",
}


def _inner(fn: Any) -> Any:
    while hasattr(fn, "__wrapped__"):
        fn = fn.__wrapped__
    return fn


def _stem(name: str) -> str | None:
    for suf in SUFFIXES:
        if name.endswith(suf):
            st_ = name[:-len(suf)]
            return ALIASES.get(st_, st_)
    return None


def _ann(p: inspect.Parameter) -> str:
    a = p.annotation
    return a if isinstance(a, str) else getattr(a, "__name__", str(a))


def law_pairs(mod: Any) -> list[tuple[str, Any, str, Any, str, str, list[tuple[str, str]]]]:
    """(fname, f, gname, g, f's param holding g's output, g's param holding f's output, shared params)."""
    funcs = []
    for name, fn in public_functions(mod):
        st_ = _stem(name)
        if st_ is None:
            continue
        sig = inspect.signature(_inner(fn))
        if _ann_ret(sig) != "Vector":
            continue
        funcs.append((name, fn, st_, sig))
    out = []
    for fname, f, fx, fsig in funcs:
        for gname, g, gy, gsig in funcs:
            if fname == gname:
                continue
            fparams = {p.name: _ann(p) for p in fsig.parameters.values()}
            gparams = {p.name: _ann(p) for p in gsig.parameters.values()}
            py, px = gy + "_", fx + "_"
            if fparams.get(py) != "Vector" or gparams.get(px) != "Vector":
                continue
            rest_f = {k: v for k, v in fparams.items() if k != py}
            rest_g = {k: v for k, v in gparams.items() if k != px}
            if rest_f != rest_g:
                continue
            out.append((fname, f, gname, g, py, px, sorted(rest_f.items())))
    return out


def _ann_ret(sig: inspect.Signature) -> str:
    a = sig.return_annotation
    return a if isinstance(a, str) else getattr(a, "__name__", str(a))


def _values(nums: list[Any], k: int) -> list[Any]:
    import sympy
    out = []
    for i in range(k):
        num, den = nums[i % len(nums)][0], nums[i % len(nums)][1]
        out.append(sympy.Rational(num, den * 3) * (-1 if nums[i % len(nums)][3] % 4 == 0 else 1))
    return out


_NCOMP = (3, 2, 3, 2, 1, 3)


def _ncomp(recipe: list[Any], idx: int) -> int:
    """Number of components written out for the idx-th generated vector (shorter vectors are zero-padded by the library)."""
    return _NCOMP[(recipe[idx % len(recipe)][3] + idx) % len(_NCOMP)]


def judge_law_pair(mod: Any, pair: Any, recipe: list[Any]) -> tuple[list[tuple[str, str]], dict[str, Any]]:
    # pylint: disable=too-many-locals
    import sympy
    from symplyphysics import Vector
    fname, f, gname, g, py, px, rest = pair
    site = f"{short(mod.__name__)}:{gname}({fname})"
    vals = _values(recipe, 3 + 3 * len(rest) + 2)
    n0 = _ncomp(recipe, 0)
    vals[n0:3] = [sympy.S.Zero] * (3 - n0)
    v = Vector(vals[:n0])
    kwargs: dict[str, Any] = {}
    pos = 3
    for name, ann in rest:
        if ann == "Vector":
            kwargs[name] = Vector(vals[pos:pos + _ncomp(recipe, pos)])
            pos += 3
        else:
            kwargs[name] = abs(vals[pos]) + 1
            pos += 1
    try:
        w = f(**{py: v}, **kwargs)
        back = g(**{px: w}, **kwargs)
    except Exception as exc:  # pylint: disable=broad-except
        return [], {"status": f"raised:{type(exc).__name__}"}
    comps = list(back.components) + [0] * (3 - len(back.components))
    free: set[Any] = set()
    for c in comps:
        free |= sympy.sympify(c).free_symbols
    sub = {}
    for i, s in enumerate(sorted(free, key=lambda x: str(getattr(x, "display_name", x)) + x.name)):
        sub[s] = sympy.Rational(recipe[(i + 5) % len(recipe)][0], recipe[(i + 5) % len(recipe)][1] * 5) + 1
    out = []
    from sympy.physics.units import Quantity as SymQuantity
    from .c02 import si_value
    for i, (c, want) in enumerate(zip(comps[:3], vals[:3])):
        try:
            cc = sympy.sympify(c).xreplace(sub)
            cc = cc.xreplace({q: si_value(q) for q in cc.atoms(SymQuantity)})
            got = sympy.N(cc, 30)
        except Exception:  # pylint: disable=broad-except
            return [], {"status": "unevaluable"}
        if not got.is_number:
            return [], {"status": "unevaluable"}
        if abs(got - want) > sympy.Float("1e-20") * (abs(got) + abs(want) + 1):
            out.append((f"not-inverse:{site}",
                f"{short(mod.__name__)}: {gname}({fname}(v, rest), rest) != v for v={vals[:3]}, rest={ {k: str(x) for k, x in kwargs.items()} }, "
                f"module symbols={ {str(k): str(x) for k, x in sub.items()} }: component {i} is {got}, expected {want}"))
            break
    return out, {"status": "ok", "free_symbols": len(sub)}


# ---- calculate level ------------------------------------------------------------------------------


def calc_pairs(mod: Any) -> list[Any]:
    funcs = []
    for name, fn in public_functions(mod):
        if not name.startswith("calculate_"):
            continue
        sig = inspect.signature(_inner(fn))
        if _ann_ret(sig) != "QuantityVector":
            continue
        funcs.append((name, fn, ALIASES.get(name[len("calculate_"):], name[len("calculate_"):]), sig))
    out = []
    for fname, f, fx, fsig in funcs:
        for gname, g, gy, gsig in funcs:
            if fname == gname:
                continue
            fparams = {p.name: _ann(p) for p in fsig.parameters.values()}
            gparams = {p.name: _ann(p) for p in gsig.parameters.values()}
            py, px = gy + "_", fx + "_"
            if fparams.get(py) != "QuantityVector" or gparams.get(px) != "QuantityVector":
                continue
            rest_f = {k: v for k, v in fparams.items() if k != py}
            rest_g = {k: v for k, v in gparams.items() if k != px}
            if rest_f != rest_g:
                continue
            out.append((fname, f, gname, g, py, px, sorted(rest_f.items())))
    return out


def _quantity(dimension: Any, val: Any, pick: int, pre: int) -> Any:
    import sympy
    from symplyphysics import Quantity
    dv = dims.from_lib(dimension)
    names = MU.names_of_dim(dv)
    if names and pick % 2:
        u = names[pick % len(names)]
        f = MU.factor(u)
        q = val / f
        if not MU.exact(u):
            q = sympy.Rational(sympy.nsimplify(q, rational=True))
        return Quantity(q * MU.lib_unit(u)), q * f
    prefixes = [None, "kilo", "milli", "micro", "centi"]
    pn = prefixes[pre % len(prefixes)]
    if pn is None:
        return Quantity(val * dv.si_unit()), val
    pf = MU.prefix_factor(pn)
    from symplyphysics import prefixes as lp
    return Quantity((val / pf) * getattr(lp, pn) * dv.si_unit()), val


def judge_calc_pair(mod: Any, pair: Any, recipe: list[Any]) -> tuple[list[tuple[str, str]], dict[str, Any]]:
    # pylint: disable=too-many-locals
    import sympy
    from symplyphysics import QuantityVector
    from symplyphysics.core.symbols.symbols import DimensionSymbol
    from .c02 import si_value
    fname, f, gname, g, py, px, rest = pair
    site = f"{short(mod.__name__)}:{gname}({fname})"
    fspec = decorator_specs(f)["inputs"]

    def dim_of(spec: dict[str, Any], pname: str) -> Any:
        gd = spec.get(pname)
        if gd is None:
            return None
        return gd.dimension if isinstance(gd, DimensionSymbol) else gd

    vals = _values(recipe, 3 + 3 * len(rest) + 2)
    dy = dim_of(fspec, py)
    if dy is None:
        return [], {"status": "unguarded-vector"}
    comps, si_in = [], []
    for i in range(_ncomp(recipe, 0)):
        q, si = _quantity(dy, vals[i], recipe[i][4], recipe[i][6])
        comps.append(q)
        si_in.append(si)
    si_in += [sympy.S.Zero] * (3 - len(si_in))
    kwargs: dict[str, Any] = {}
    pos = 3
    for name, ann in rest:
        d = dim_of(fspec, name)
        if d is None:
            return [], {"status": "unguarded-parameter"}
        if ann == "QuantityVector":
            kwargs[name] = QuantityVector([_quantity(d, vals[pos + j], recipe[(pos + j) % len(recipe)][5], recipe[(pos + j) % len(recipe)][7])[0]
                for j in range(_ncomp(recipe, pos))])
            pos += 3
        elif ann == "Quantity":
            kwargs[name] = _quantity(d, abs(vals[pos]) + 1, recipe[pos % len(recipe)][4], recipe[pos % len(recipe)][6])[0]
            pos += 1
        else:
            return [], {"status": "unsupported-parameter"}
    try:
        w = f(**{py: QuantityVector(comps)}, **kwargs)
        back = g(**{px: w}, **kwargs)
    except Exception as exc:  # pylint: disable=broad-except
        return [], {"status": f"raised:{type(exc).__name__}"}
    out = []
    got = [si_value(c) for c in back.components] + [sympy.S.Zero] * 3
    vscale = max([abs(sympy.N(x, 30)) for x in got[:3]] + [abs(sympy.N(x, 30)) for x in si_in[:3]])
    for i in range(3):
        gv = sympy.N(got[i], 30)
        if abs(gv - si_in[i]) > sympy.Float("1e-9") * vscale + sympy.Float("1e-25"):
            out.append((f"not-inverse:{site}",
                f"{short(mod.__name__)}: {gname}({fname}(v, rest), rest) != v: SI component {i} is {gv}, expected {sympy.N(si_in[i], 15)} "
                f"(v={[str(c.scale_factor) + ' ' + str(c.dimension.name) for c in comps]})"))
            break
    return out, {"status": "ok"}


# ---- calculate function against the module's own law function ---------------------------------------


def calc_law_links(mod: Any) -> list[Any]:
    """(cname, calc, lname, law, vector/shared params, scalar params held by module-level symbols).

    calculate_<X> is linked to <X>_law / <X>_definition when every parameter of the law function is a parameter of the
    calculate function (same name) and every other calculate parameter <s>_ is a Quantity whose module attribute <s> is
    the symbol the law function leaves free."""
    import sympy
    funcs = dict(public_functions(mod))
    out = []
    for cname, calc in funcs.items():
        if not cname.startswith("calculate_"):
            continue
        csig = inspect.signature(_inner(calc))
        cparams = {p.name: p for p in csig.parameters.values()}
        anns = {n: _ann(p) for n, p in cparams.items()}
        if "QuantityVector" not in anns.values() and _ann_ret(csig) != "QuantityVector":
            continue
        stem = cname[len("calculate_"):]
        stem = ALIASES.get(stem, stem)
        for lname, law in funcs.items():
            if _stem(lname) != stem:
                continue
            lsig = inspect.signature(_inner(law))
            lparams = list(lsig.parameters)
            if not lparams or any(lp not in cparams for lp in lparams):
                continue
            scalars, ok = [], True
            for n, p in cparams.items():
                if n in lparams:
                    continue
                if p.default is not inspect.Parameter.empty:
                    continue
                sym = getattr(mod, n.rstrip("_"), None)
                if anns[n] != "Quantity" or not isinstance(sym, sympy.Symbol):
                    ok = False
                    break
                scalars.append((n, sym))
            if ok:
                out.append((cname, calc, lname, law, [(n, anns[n]) for n in lparams], scalars))
    return out


def judge_calc_vs_law(mod: Any, link: Any, recipe: list[Any]) -> tuple[list[tuple[str, str]], dict[str, Any]]:
    # pylint: disable=too-many-locals,too-many-branches
    import sympy
    from sympy.physics.units import Quantity as SymQuantity
    from symplyphysics import QuantityVector, Vector
    from symplyphysics.core.symbols.symbols import DimensionSymbol
    from .c02 import si_value
    cname, calc, lname, law, lparams, scalars = link
    site = f"{short(mod.__name__)}:{cname}~{lname}"
    spec = decorator_specs(calc)["inputs"]

    def dim_of(pname: str) -> Any:
        gd = spec.get(pname)
        if gd is None:
            return None
        return gd.dimension if isinstance(gd, DimensionSymbol) else gd

    vals = _values(recipe, 3 * len(lparams) + len(scalars) + 2)
    pos = 0
    cargs: dict[str, Any] = {}
    largs: dict[str, Any] = {}
    shown: dict[str, str] = {}
    for n, ann in lparams:
        d = dim_of(n)
        if d is None:
            return [], {"status": "unguarded-parameter"}
        if ann == "QuantityVector":
            comps, sis = [], []
            for j in range(_ncomp(recipe, pos)):
                q, si = _quantity(d, vals[pos + j], recipe[(pos + j) % len(recipe)][4], recipe[(pos + j) % len(recipe)][6])
                comps.append(q)
                sis.append(si)
            pos += 3
            cargs[n] = QuantityVector(comps)
            largs[n] = Vector(sis)
            shown[n] = str([str(c.scale_factor) + " " + str(c.dimension.name) for c in comps])
        elif ann == "Quantity":
            q, si = _quantity(d, abs(vals[pos]) + 1, recipe[pos % len(recipe)][4], recipe[pos % len(recipe)][6])
            pos += 1
            cargs[n] = q
            largs[n] = si
            shown[n] = f"{q.scale_factor} {q.dimension.name}"
        else:
            return [], {"status": "unsupported-parameter"}
    sub: dict[Any, Any] = {}
    for n, sym in scalars:
        d = dim_of(n)
        if d is None:
            return [], {"status": "unguarded-parameter"}
        q, si = _quantity(d, abs(vals[pos]) + 1, recipe[pos % len(recipe)][5], recipe[pos % len(recipe)][7])
        pos += 1
        cargs[n] = q
        sub[sym] = si
        shown[n] = f"{q.scale_factor} {q.dimension.name}"
    try:
        got = calc(**cargs)
    except Exception as exc:  # pylint: disable=broad-except
        return [], {"status": f"raised:{type(exc).__name__}"}
    try:
        want = law(**largs)
    except Exception as exc:  # pylint: disable=broad-except
        return [], {"status": f"law-raised:{type(exc).__name__}"}
    gcomps = list(got.components) if hasattr(got, "components") else [got]
    wcomps = list(want.components) if hasattr(want, "components") else [want]
    n = max(len(gcomps), len(wcomps))
    gcomps += [sympy.S.Zero] * (n - len(gcomps))
    wcomps += [sympy.S.Zero] * (n - len(wcomps))
    pairs = []
    for g, w in zip(gcomps, wcomps):
        try:
            ww = sympy.sympify(w).xreplace(sub)
            ww = ww.xreplace({q: si_value(q) for q in ww.atoms(SymQuantity)})
            wv = sympy.N(ww, 30)
            gv = sympy.N(si_value(g), 30)
        except Exception:  # pylint: disable=broad-except
            return [], {"status": "unevaluable"}
        if not wv.is_number or not gv.is_number or wv.has(sympy.nan, sympy.zoo, sympy.oo) or gv.has(sympy.nan, sympy.zoo, sympy.oo):
            return [], {"status": "unevaluable"}
        pairs.append((gv, wv))
    # the calculate function works in double precision: a component that is a small difference of large terms (a
    # relativistic correction of order v^2/c^2 beside components of order 1) carries the rounding noise of the whole
    # vector, so the tolerance is relative to the largest component
    vscale = max([abs(x) for gw in pairs for x in gw] + [sympy.Float(0)])
    for i, (gv, wv) in enumerate(pairs):
        if abs(gv - wv) > sympy.Float("1e-9") * vscale + sympy.Float("1e-25"):
            return [(f"calc-differs-from-law:{site}",
                f"{short(mod.__name__)}: {cname}({shown}) has SI component {i} = {sympy.N(gv, 15)}, but {lname} on the same SI "
                f"values gives {sympy.N(wv, 15)}")], {"status": "ok"}
    return [], {"status": "ok"}


def run_module(modname: str, recipes: list[Any], rec: Recorder) -> None:
    try:
        mod = import_module(modname)
    except Exception:  # pylint: disable=broad-except
        return
    for kind, pairs, judge in (("law", law_pairs(mod), judge_law_pair), ("calc", calc_pairs(mod), judge_calc_pair),
        ("calc-vs-law", calc_law_links(mod), judge_calc_vs_law)):
        for pair in pairs:
            rec.count(f"vector-{kind}-pairs")
            for recipe in recipes:
                res, info = judge(mod, pair, [tuple(r) for r in recipe])
                for key, what in res:
                    rec.violation(key, what, {"kind": "vector-" + kind, "module": modname, "f": pair[0], "g": pair[2], "recipe": recipe})
                site = f"{short(modname)}:{pair[2]}({pair[0]})"
                if info.get("status") == "ok":
                    for fn_name in (pair[0], pair[2]):
                        cov = rec.notes.setdefault("vector_covered_functions", [])
                        if f"{short(modname)}:{fn_name}" not in cov:
                            cov.append(f"{short(modname)}:{fn_name}")
                rec.case({"pair": site, "r": recipe}, nontrivial=info.get("status") == "ok",
                    labels=[f"vector-{kind}", f"vector-{kind}:" + str(info.get("status")).split(":")[0]],
                    sample={"pair": site, "kind": kind} if info.get("status") == "ok" and len(rec.samples) < 2 else None)


def replay(case: dict[str, Any]) -> list[tuple[str, str]]:
    mod = import_module(case["module"])
    finder, judge = {"vector-law": (law_pairs, judge_law_pair), "vector-calc": (calc_pairs, judge_calc_pair),
        "vector-calc-vs-law": (calc_law_links, judge_calc_vs_law)}[case["kind"]]
    for pair in finder(mod):
        if pair[0] == case["f"] and pair[2] == case["g"]:
            return judge(mod, pair, [tuple(r) for r in case["recipe"]])[0]
    return []
