"""C04 - the dimension gate admits exactly dimensionally equivalent arguments and results.

Part (a) "gate", generated: for every case a fresh function is synthesised (exec of a generated `def`),
decorated with validate_input / validate_output / validate_output_same, and called with a value whose
dimension vector `A` stands in a generated relation (equal / equal up to an angle factor / re-associated /
provably different) to the declared vector `D`.  The expected verdict comes from the M-dim model only.
Part (b) "sweep", exhaustive: every decorated function of every module under symplyphysics.laws,
.definitions, .conditions; decorator specifications are recovered by closure introspection.

Case descriptions are plain JSON; `replay(case)` rebuilds library objects and model verdict from them.
"""
from __future__ import annotations

import functools
import importlib
import inspect
import json
import os
import pkgutil
import re
import sys
import time
from typing import Any, Iterator

import sympy
from hypothesis import strategies as st

from ..boot import Ctx, Recorder, log
from ..hyp import hyp_run
from ..model import dims as md
from ..model import units as mu
from ..pool import run_tasks, shard_counts
from ..shrink import shrink

PID = "C04"
RULE = (
    "(a) gate: Hypothesis-generated cases = (actual vector A, declared vector D) over the 7 SI base dimensions with "
    "exponents in {-3..3} and halves, related as equal / equal up to an angle factor / re-associated (named derived "
    "dimension, split product, power; tabled unit x SI remainder) / different (one exponent changed, or dimensionless on "
    "one side only); values are Quantity (generated magnitude int/rational/float/complex, one of 20 prefixes, unit route), "
    "raw unit expressions, bare numbers, or 0 / 0.0 / +-oo / NaN / zoo; declared side carried by Dimension / Symbol / "
    "Function / IndexedSymbol / Symbolic / tuple; shapes scalar, list|tuple of 1-4 (bad element at a generated position), "
    "QuantityVector (cartesian/cylindrical/spherical); validators validate_input (guarded parameter at a generated position "
    "among unguarded and one other guarded parameter, positional/keyword/mixed call), validate_output, validate_output_same; "
    "2-3 variants per case differing only in magnitude/prefix/call style. Oracle (M-dim): accepted iff A==D after angle erasure "
    "or value is 0/+-oo/NaN, else TypeError iff A dimensionless (non-zero number/quantity) and D not, else UnitsError; body "
    "ran iff accepted; message names the parameter; verdict equal over variants. "
    "(b) sweep: every guard of every decorated catalogue function: guard names subset of signature; all-valid baseline "
    "call reaches the body; a wrong-dimension value (2 per guard quick, 6 thorough; valid values elsewhere) raises "
    "TypeError/UnitsError (type per the same oracle) naming the parameter before the body is entered. "
    "Non-trivial = both A and D derived (>=2 non-zero exponents), or a sequence/vector whose bad element is not first, or "
    "(sweep) a guard whose declared dimension is derived; distinct by hash of (A, D, relation, shape, carrier, route, "
    "validator, bad position) resp. (call site, wrong kind).")

KEY_FZERO = "gate:float-zero-not-wildcard"
KEY_WILDVEC = "gate:all-wildcard-vector-refused"
EXCLUDABLE = (KEY_FZERO, KEY_WILDVEC)

# ------------------------------------------------------------------------------------------------
# small tables (hand-typed; verified against SymPy leaves by _selfcheck)

NAMED: dict[str, md.DimVec] = {
    "velocity": mu.L / mu.T,
    "acceleration": mu.L / mu.T**2,
    "momentum": mu.M * mu.L / mu.T,
    "force": mu.FORCE,
    "energy": mu.ENERGY,
    "power": mu.POWER,
    "pressure": mu.PRESSURE,
    "frequency": mu.ONE / mu.T,
    "action": mu.ENERGY * mu.T,
    "area": mu.L**2,
    "volume": mu.L**3,
    "charge": mu.CHARGE,
    "voltage": mu.VOLTAGE,
    "impedance": mu.RESIST,
    "conductance": mu.ONE / mu.RESIST,
    "capacitance": mu.CHARGE / mu.VOLTAGE,
    "inductance": mu.VOLTAGE * mu.T / mu.I,
    "magnetic_density": mu.VOLTAGE * mu.T / mu.L**2,
    "magnetic_flux": mu.VOLTAGE * mu.T,
}
UNIT_NAMES = sorted(mu.TABLE)
PREFIX_NAMES = sorted(mu.PREFIXES)
_EXP_POOL = ["-3", "-2", "-1", "1", "2", "3", "-1", "1", "2", "-2", "-5/2", "-3/2", "-1/2", "1/2", "3/2", "5/2"]
SPECIALS_ANY = ("zero", "oo", "-oo", "nan", "pyinf", "pynan")
SPECIALS_FZERO = ("fzero", "nfzero")
SYSTEMS = ("cartesian", "cylindrical", "spherical")
_ANGLE_IDX = {"cartesian": (), "cylindrical": (1,), "spherical": (1, 2)}

_checked = [False]


def _selfcheck() -> None:
    if _checked[0]:
        return
    from sympy.physics import units as U
    mu.selfcheck()
    for name, vec in NAMED.items():
        got = md.from_lib(getattr(U, name))
        if not got.same(vec):
            raise RuntimeError(f"C04 self-check: named dimension {name}: table {vec.text()} vs sympy {got.text()}")
    for p, e in mu.PREFIXES.items():
        if getattr(U, p).scale_factor != sympy.Integer(10)**e:
            raise RuntimeError(f"C04 self-check: prefix {p}")
    _checked[0] = True


# ------------------------------------------------------------------------------------------------
# JSON -> library objects


def _vec(exps: list[str]) -> md.DimVec:
    return md.from_json(exps)


def _lib_dim(exps: list[str], angle: int = 0) -> Any:
    d = _vec(exps).to_lib()
    if angle:
        d = d * md.angle_dimension()**angle
    return d


def _mag_sym(mag: list[str]) -> Any:
    """Magnitude as a SymPy number (for use inside unit expressions)."""
    k = mag[0]
    if k == "int":
        return sympy.Integer(int(mag[1]))
    if k == "rat":
        return sympy.Rational(mag[1])
    if k == "float":
        return sympy.Float(float(mag[1]))
    if k == "complex":
        return sympy.Rational(mag[1]) + sympy.Rational(mag[2]) * sympy.I
    raise ValueError(mag)


def _mag_bare(mag: list[str]) -> Any:
    """Magnitude as the bare number a caller would pass (python int/float/complex, sympy Rational/Float)."""
    k = mag[0]
    if k == "int":
        return int(mag[1])
    if k == "rat":
        return sympy.Rational(mag[1])
    if k == "float":
        return float(mag[1])
    if k == "sfloat":
        return sympy.Float(float(mag[1]))
    if k == "complex":
        return complex(float(sympy.Rational(mag[1])), float(sympy.Rational(mag[2])))
    raise ValueError(mag)


def _special(v: str) -> Any:
    return {
        "zero": sympy.S.Zero,
        "fzero": 0.0,
        "nfzero": -0.0,
        "oo": sympy.oo,
        "-oo": -sympy.oo,
        "nan": sympy.nan,
        "zoo": sympy.zoo,
        "pyinf": float("inf"),
        "pynan": float("nan"),
    }[v]


def _unit_expr(leaf: dict[str, Any]) -> Any:
    """Unit part of a quantity leaf: tabled unit x coherent SI remainder x radian/degree power."""
    from sympy.physics import units as U
    vec = _vec(leaf["exps"])
    route = leaf.get("route", ["si"])
    if route[0] == "unit":
        u = mu.lib_unit(route[1])
        k = sympy.Rational(route[2]) if len(route) > 2 else sympy.Integer(1)
        rest = vec / (mu.dim(route[1])**k)
        expr = u**k * rest.si_unit()
    else:
        expr = vec.si_unit()
    ang = leaf.get("angle", 0)
    if ang:
        expr = expr * (U.degree if leaf.get("angunit") == "degree" else U.radian)**ang
    return expr


def build_value(leaf: dict[str, Any], variant: int = 0) -> Any:
    """Library-side object for a scalar value leaf."""
    from sympy.physics import units as U
    from symplyphysics import Quantity
    k = leaf["k"]
    if k == "num":
        return _mag_bare(leaf["mags"][variant % len(leaf["mags"])])
    if k == "special":
        val = _special(leaf["v"])
        how = leaf.get("as", "bare")
        if how == "bare":
            return val
        if how == "dimkw":
            return Quantity(val, dimension=_lib_dim(leaf["exps"]))
        return Quantity(val * _vec(leaf["exps"]).si_unit())
    if k == "qty":
        mag = _mag_sym(leaf["mags"][variant % len(leaf["mags"])])
        prefix = leaf["prefixes"][variant % len(leaf["prefixes"])]
        if prefix:
            mag = mag * getattr(U, prefix)
        route = leaf.get("route", ["si"])
        if route[0] == "dimkw":
            return Quantity(mag, dimension=_lib_dim(leaf["exps"], leaf.get("angle", 0)))
        expr = mag * _unit_expr(leaf)
        return Quantity(expr) if leaf.get("wrap", "Quantity") == "Quantity" else expr
    raise ValueError(k)


_COORD: dict[str, Any] = {}
_uniq = [0]


def _coord(sysname: str) -> Any:
    if sysname not in _COORD:
        from symplyphysics import CoordinateSystem
        _COORD[sysname] = CoordinateSystem(getattr(CoordinateSystem.System, sysname.upper()))
    return _COORD[sysname]


def build_declared(decl: dict[str, Any]) -> Any:
    from sympy.physics import units as U
    vec = _vec(decl["exps"])
    route = decl.get("route", ["product"])
    if route[0] == "named":
        k = sympy.Rational(route[2]) if len(route) > 2 else sympy.Integer(1)
        d = getattr(U, route[1])**k * (vec / NAMED[route[1]]**k).to_lib()
    elif route[0] == "split":
        p = _vec(route[1])
        d = p.to_lib() * (vec / p).to_lib()
    elif route[0] == "pow":
        k = sympy.Rational(route[1])
        d = (vec**(1 / k)).to_lib()**k
    else:
        d = vec.to_lib()
    ang = decl.get("angle", 0)
    if ang:
        d = d * md.angle_dimension()**ang
    carrier = decl.get("carrier", "Dimension")
    if carrier == "Dimension":
        return d
    from symplyphysics import Function, IndexedSymbol, Symbol
    if carrier == "Symbol":
        return Symbol("s", d)
    if carrier == "Function":
        return Function("f", dimension=d)
    if carrier == "IndexedSymbol":
        return IndexedSymbol("x", dimension=d)
    if carrier == "Symbolic":
        # Symbolic wrappers are SymPy Symbols cached by printed name, so the inner display name must be unique
        # (two FiniteDifference(Symbol("s", ...)) are ONE object whose dimension is the last one assigned)
        from symplyphysics.core.operations.symbolic import FiniteDifference
        _uniq[0] += 1
        return FiniteDifference(Symbol(f"s{_uniq[0]}", d))
    raise ValueError(carrier)


# ------------------------------------------------------------------------------------------------
# model (M-dim): expected verdicts


def leaf_class(leaf: dict[str, Any]) -> str:
    """normal | any | fzero | zoo"""
    if leaf["k"] != "special":
        return "normal"
    v = leaf["v"]
    if v in SPECIALS_ANY:
        return "any"
    if v in SPECIALS_FZERO:
        return "fzero"
    return "zoo"


def leaf_vec(leaf: dict[str, Any]) -> md.DimVec:
    if leaf["k"] == "qty":
        return _vec(leaf["exps"])
    if leaf["k"] == "special" and leaf.get("as", "bare") != "bare":
        return _vec(leaf["exps"])
    return md.ONE


def verdict_scalar(avec: md.DimVec, dvec: md.DimVec) -> str:
    if avec.same(dvec):
        return "ok"
    if avec.is_dimensionless and not dvec.is_dimensionless:
        return "TypeError"
    return "UnitsError"


def expect_leaf(leaf: dict[str, Any], dvec: md.DimVec) -> tuple[str, set[str]]:
    """(expected verdict, tags). Tags: 'fzero' when the verdict relies on a float zero being a zero,
    'zoo' when the case must not be judged."""
    cls = leaf_class(leaf)
    if cls == "any":
        return "ok", set()
    if cls == "zoo":
        return "ok", {"zoo"}
    if cls == "fzero":
        return "ok", (set() if leaf_vec(leaf).same(dvec) else {"fzero"})
    return verdict_scalar(leaf_vec(leaf), dvec), set()


def _decl_vecs(declared: Any, n: int) -> list[md.DimVec]:
    if isinstance(declared, list):
        return [_vec(d["exps"]) for d in declared]
    return [_vec(declared["exps"])] * n


def expect_value(case: dict[str, Any]) -> dict[str, Any]:
    """Model verdict for the guarded value of a gate case.
    {'stage': 'call'|'construct', 'verdict': ok|TypeError|UnitsError, 'tags': set, 'either': bool}"""
    shape = case["shape"]
    val = case["value"]
    declared = case["declared"]
    if case["io"] == "output_same":
        dv = [leaf_vec(case["ref"])]
    else:
        dv = _decl_vecs(declared, len(val["items"]) if shape == "seq" else 1)
    if shape == "scalar":
        v, tags = expect_leaf(val, dv[0])
        return {"stage": "call", "verdict": v, "tags": tags, "either": False}
    if shape == "seq":
        tags: set[str] = set()
        for i, (leaf, d) in enumerate(zip(val["items"], dv)):
            v, t = expect_leaf(leaf, d)
            tags |= t
            if v != "ok":
                return {"stage": "call", "verdict": v, "tags": tags, "either": False, "index": i}
        return {"stage": "call", "verdict": "ok", "tags": tags, "either": False}
    # vector
    comps = val["comps"]
    ang = _ANGLE_IDX[val["sys"]]
    explicit = _vec(val["dimkw"]["exps"]) if val.get("dimkw") else None
    tags = set()
    classes = [leaf_class(c) for c in comps]
    if "fzero" in classes:
        tags.add("fzero")
    normal_nonangle = [i for i, c in enumerate(comps) if classes[i] == "normal" and i not in ang]

    def comp_vec(i: int) -> md.DimVec:
        c = comps[i]
        if explicit is not None and (c["k"] == "num" or (c["k"] == "qty" and c.get("wrap") == "expr")):
            # components that are not Quantity objects are *given* the explicit dimension
            # (QuantityVector([0, 1, 1], dimension=units.length)); not judged on their own
            return explicit
        return leaf_vec(c)

    required = explicit if explicit is not None else (comp_vec(normal_nonangle[0]) if normal_nonangle else None)
    for i, c in enumerate(comps):
        if classes[i] != "normal":
            continue
        want = md.ONE if i in ang else required
        if want is None:
            continue
        v = verdict_scalar(comp_vec(i), want)
        if v != "ok":
            # which component the library blames (and hence the exception type) is fixed by the property only
            # when the required dimension is explicit; with an inferred dimension either refusal type passes
            return {"stage": "construct", "verdict": v, "tags": tags, "either": explicit is None}
    if required is None:
        # no component carries a dimension: every component matches anything
        v = "ok"
        if not dv[0].is_dimensionless:
            tags.add("wildvec")
        return {"stage": "call", "verdict": v, "tags": tags, "either": False}
    return {"stage": "call", "verdict": verdict_scalar(required, dv[0]), "tags": tags, "either": False}


# ------------------------------------------------------------------------------------------------
# generator (gate)


def _nonzero_int(lo: int, hi: int) -> st.SearchStrategy[int]:
    return st.integers(lo, hi).filter(lambda x: x != 0)


@functools.lru_cache(maxsize=None)
def _mag(bare: bool) -> st.SearchStrategy[list[str]]:
    ints = st.builds(lambda n: ["int", str(n)], st.one_of(_nonzero_int(-9, 9), _nonzero_int(-10**6, 10**6)))
    rats = st.builds(lambda n, d: ["rat", f"{n}/{d}"], _nonzero_int(-50, 50), st.integers(2, 97))
    floats = st.builds(lambda m, e, s: ["sfloat" if (bare and s) else "float", repr(float(f"{m}e{e}"))],
        _nonzero_int(-999, 999), st.integers(-30, 30), st.booleans())
    cplx = st.builds(lambda a, b, d: ["complex", f"{a}/{d}", f"{b}/{d}"], st.integers(-9, 9), _nonzero_int(-9, 9),
        st.sampled_from([1, 2, 4]))
    return st.one_of(ints, ints, rats, floats, floats, cplx)


@functools.lru_cache(maxsize=None)
def _prefix() -> st.SearchStrategy[Any]:
    return st.one_of(st.none(), st.none(), st.sampled_from(PREFIX_NAMES))


@st.composite
def _sparse_vec(draw: Any, lo: int = 1, hi: int = 4) -> list[str]:
    k = draw(st.integers(lo, hi))
    idx = draw(st.lists(st.integers(0, 6), min_size=k, max_size=k, unique=True))
    out = ["0"] * 7
    for i in idx:
        out[i] = draw(st.sampled_from(_EXP_POOL))
    return out


@st.composite
def _actual_vec(draw: Any) -> list[str]:
    mode = draw(st.integers(0, 9))
    if mode <= 3:
        return draw(_sparse_vec())
    if mode <= 6:
        return mu.dim(draw(st.sampled_from(UNIT_NAMES))).to_json()
    if mode <= 8:
        a = mu.dim(draw(st.sampled_from(UNIT_NAMES)))
        b = mu.dim(draw(st.sampled_from(UNIT_NAMES)))
        k = draw(st.sampled_from([-2, -1, 1, 2]))
        return (a * b**k).to_json()
    return ["0"] * 7


def _different(draw: Any, exps: list[str]) -> list[str]:
    """A vector provably different from `exps`."""
    vec = _vec(exps)
    mode = draw(st.integers(0, 9))
    if mode == 0 and not vec.is_dimensionless:
        return ["0"] * 7
    if mode == 1:
        other = _vec(draw(_actual_vec()))
        if not other.same(vec):
            return other.to_json()
    i = draw(st.integers(0, 6))
    delta = sympy.Rational(draw(st.sampled_from(["1/2", "-1/2", "1", "-1", "2", "-2", "3", "-3"])))
    out = list(vec)
    out[i] = out[i] + delta
    return md.DimVec(out).to_json()


@st.composite
def _qty_leaf(draw: Any, exps: list[str], nvar: int, *, fancy: bool, allow_expr: bool = True,
    angle: int = 0) -> dict[str, Any]:
    vec = _vec(exps)
    leaf: dict[str, Any] = {"k": "qty", "exps": list(exps)}
    leaf["mags"] = [draw(_mag(False)) for _ in range(nvar)]
    leaf["prefixes"] = [draw(_prefix()) for _ in range(nvar)]
    route: list[Any] = ["si"]
    if fancy:
        mode = draw(st.integers(0, 5))
        same = mu.names_of_dim(vec)
        if mode <= 1 and same:
            route = ["unit", draw(st.sampled_from(sorted(same)))]
        elif mode <= 3:
            name = draw(st.sampled_from(UNIT_NAMES))
            k = draw(st.sampled_from(["1", "1", "-1", "2", "1/2"]))
            route = ["unit", name] if k == "1" else ["unit", name, k]
        elif mode == 4:
            route = ["dimkw"]
    leaf["route"] = route
    if angle:
        leaf["angle"] = angle
        leaf["angunit"] = draw(st.sampled_from(["radian", "degree"]))
    leaf["wrap"] = "expr" if (allow_expr and route[0] != "dimkw" and draw(st.integers(0, 4)) == 0) else "Quantity"
    return leaf


@st.composite
def _num_leaf(draw: Any, nvar: int) -> dict[str, Any]:
    return {"k": "num", "mags": [draw(_mag(True)) for _ in range(nvar)]}


@st.composite
def _special_leaf(draw: Any, exps: list[str] | None = None, *, zoo: bool = True, nofz: bool = False) -> dict[str, Any]:
    pool = list(SPECIALS_ANY) + ["zero", "zero"] + list(SPECIALS_FZERO) + ["fzero"]
    if zoo:
        pool.append("zoo")
    v = draw(st.sampled_from(pool))
    how = "bare" if v == "zoo" else draw(st.sampled_from(["bare", "dimkw", "dimkw", "expr"]))
    leaf: dict[str, Any] = {"k": "special", "v": v, "as": how}
    if nofz and v in SPECIALS_FZERO:
        leaf.update(v="zero", excl=KEY_FZERO)  # excluded input class: exact zero instead of float zero
    if how != "bare":
        leaf["exps"] = list(exps) if exps is not None else draw(_actual_vec())
    return leaf


@st.composite
def _vec_special(draw: Any, exps: list[str], *, nofz: bool, dimful: bool) -> dict[str, Any]:
    """Wildcard component of a QuantityVector: a zero in any spelling; +-oo/NaN only as quantities carrying the
    component's dimension and only where the vector dimension is already fixed (explicit or by an earlier
    component) - callers do not put bare infinities in front of dimensional components."""
    pool = ["zero", "zero", "zero", "fzero", "nfzero"]
    if dimful:
        pool += ["oo", "-oo", "nan"]
    v = draw(st.sampled_from(pool))
    if v in ("oo", "-oo", "nan"):
        return {"k": "special", "v": v, "as": "dimkw", "exps": list(exps)}
    how = draw(st.sampled_from(["bare", "bare", "dimkw", "expr"]))
    leaf: dict[str, Any] = {"k": "special", "v": v, "as": how}
    if nofz and v in SPECIALS_FZERO:
        leaf.update(v="zero", excl=KEY_FZERO)
    if how != "bare":
        leaf["exps"] = list(exps)
    return leaf


@st.composite
def _decl(draw: Any, exps: list[str], *, fancy: bool, angle: int = 0) -> dict[str, Any]:
    vec = _vec(exps)
    d: dict[str, Any] = {"exps": list(exps)}
    route: list[Any] = ["product"]
    if fancy:
        mode = draw(st.integers(0, 3))
        if mode == 0:
            same = [n for n, v in NAMED.items() if v.same(vec)]
            name = draw(st.sampled_from(sorted(same))) if same and draw(st.booleans()) else draw(
                st.sampled_from(sorted(NAMED)))
            k = draw(st.sampled_from(["1", "1", "1", "-1", "2", "1/2"]))
            route = ["named", name] if k == "1" else ["named", name, k]
        elif mode == 1:
            name = draw(st.sampled_from(sorted(NAMED)))
            route = ["named", name]
        elif mode == 2:
            route = ["split", draw(_sparse_vec(1, 3))]
        else:
            route = ["pow", draw(st.sampled_from(["2", "3", "1/2", "-1", "-2", "3/2"]))]
    d["route"] = route
    if angle:
        d["angle"] = angle
    d["carrier"] = draw(st.sampled_from(
        ["Dimension", "Dimension", "Symbol", "Symbol", "Function", "IndexedSymbol", "Symbolic"]))
    return d


@st.composite
def _variants(draw: Any, nvar: int, names: list[str]) -> list[dict[str, Any]]:
    out = []
    for _ in range(nvar):
        style = draw(st.sampled_from(["pos", "kw", "kw", "mixed"]))
        v: dict[str, Any] = {"style": style}
        if style == "kw":
            v["order"] = list(draw(st.permutations(list(range(len(names))))))
        elif style == "mixed":
            v["npos"] = draw(st.integers(0, len(names) - 1))
            v["order"] = list(draw(st.permutations(list(range(v["npos"], len(names))))))
        out.append(v)
    return out


@st.composite
def gate_case(draw: Any, exclude: tuple[str, ...] = ()) -> dict[str, Any]:
    # pylint: disable=too-many-locals,too-many-branches,too-many-statements
    nofz = KEY_FZERO in exclude
    nowild = KEY_WILDVEC in exclude
    io = draw(st.sampled_from(["input", "input", "input", "output", "output", "output_same"]))
    shape = "scalar" if io == "output_same" else draw(st.sampled_from(["scalar", "scalar", "seq", "seq", "vector"]))
    relation = draw(st.sampled_from(["equal", "angle", "reassoc", "reassoc", "different", "different", "different"]))
    nvar = draw(st.integers(2, 3))
    fancy = relation == "reassoc"
    case: dict[str, Any] = {"part": "gate", "io": io, "shape": shape, "relation": relation}
    excluded: list[str] = []

    # value kind of the "subject" leaf (the one whose dimension is in the generated relation to D)
    kind = draw(st.sampled_from(["qty"] * 6 + ["num", "num"] + ["special"] * 2))
    if shape == "vector" and kind == "special":
        kind = "qty"
    a_exps = ["0"] * 7 if kind == "num" else draw(_actual_vec())
    if relation == "different":
        d_exps = _different(draw, a_exps)
    else:
        d_exps = list(a_exps)
    a_ang = d_ang = 0
    if relation == "angle":
        which = draw(st.integers(0, 2))
        if which in (0, 2) or kind != "qty":
            d_ang = draw(st.sampled_from([-2, -1, 1, 2]))
        if which in (1, 2) and kind == "qty":
            a_ang = draw(st.sampled_from([-2, -1, 1, 2]))
    elif kind == "qty" and draw(st.integers(0, 9)) == 0:
        a_ang = draw(st.sampled_from([-1, 1]))  # angle factors also ride along in the other relations
        d_ang = draw(st.sampled_from([0, 1, -1]))

    def subject() -> dict[str, Any]:
        if kind == "qty":
            return draw(_qty_leaf(a_exps, nvar, fancy=fancy or draw(st.integers(0, 3)) == 0, angle=a_ang))
        if kind == "num":
            return draw(_num_leaf(nvar))
        return draw(_special_leaf(zoo=True, nofz=nofz))

    def good(exps: list[str], allow_special: bool = True) -> dict[str, Any]:
        """A leaf that must be admitted against `exps`."""
        m = draw(st.integers(0, 9))
        if m <= 1 and allow_special:
            return draw(_special_leaf(zoo=False, nofz=nofz))
        if m == 2 and _vec(exps).is_dimensionless:
            return draw(_num_leaf(nvar))
        return draw(_qty_leaf(exps, nvar, fancy=draw(st.booleans())))

    if io == "output_same":
        ref_exps = d_exps
        refkind = "num" if (_vec(ref_exps).is_dimensionless and draw(st.booleans())) else "qty"
        case["ref"] = draw(_num_leaf(1)) if refkind == "num" else draw(
            _qty_leaf(ref_exps, 1, fancy=fancy, allow_expr=False, angle=d_ang))
        case["declared"] = {"exps": list(ref_exps), "carrier": "argument"}
        case["value"] = subject()
        case["badpos"] = 0
    elif shape == "scalar":
        case["declared"] = draw(_decl(d_exps, fancy=fancy, angle=d_ang))
        case["value"] = subject()
        case["badpos"] = 0
    elif shape == "seq":
        n = draw(st.integers(1, 4))
        pos = draw(st.integers(0, n - 1))
        if n > 1 and draw(st.integers(0, 2)) > 0:
            pos = draw(st.integers(1, n - 1))
        tup = draw(st.integers(0, 3)) == 0
        if tup:
            decls = []
            for i in range(n):
                e = d_exps if i == pos else draw(_actual_vec())
                decls.append(draw(_decl(e, fancy=fancy and i == pos, angle=d_ang if i == pos else 0)))
            case["declared"] = decls
            if relation == "different" and n > 1 and kind == "qty" and draw(st.booleans()):
                # the bad element carries the dimension declared for ANOTHER position
                j = draw(st.integers(0, n - 1).filter(lambda x: x != pos))
                if not _vec(decls[j]["exps"]).same(_vec(d_exps)):
                    a_exps = list(decls[j]["exps"])
        else:
            case["declared"] = draw(_decl(d_exps, fancy=fancy, angle=d_ang))
        items = []
        for i in range(n):
            if i == pos:
                items.append(subject())
            else:
                e = case["declared"][i]["exps"] if tup else d_exps
                items.append(good(e))
        case["value"] = {"seq": draw(st.sampled_from(["list", "tuple"])), "items": items}
        case["badpos"] = pos
    else:
        sysname = draw(st.sampled_from(["cartesian", "cartesian", "cylindrical", "spherical"]))
        n = 3 if sysname != "cartesian" else draw(st.sampled_from([1, 2, 3, 3, 3]))
        ang = _ANGLE_IDX[sysname]
        mode = draw(st.sampled_from(["gate", "gate", "gate", "badcomp", "allwild"]))
        if nowild and mode == "allwild":
            excluded.append(KEY_WILDVEC)
            mode = "gate"
        use_kw = draw(st.integers(0, 2)) == 0
        # vector dimension is A; the relation A~D is tested by the gate ("gate"), or one component
        # deviates from A and construction must refuse ("badcomp", D == A), or no component carries a dimension
        comps: list[dict[str, Any]] = []
        pos = 0
        if mode == "badcomp":
            case["relation"] = relation = "different"
            d_exps = list(a_exps)
            pos = draw(st.integers(0, n - 1))
            if n > 1 and draw(st.integers(0, 2)) > 0:
                pos = draw(st.integers(1, n - 1))
        placed_normal = False  # a normal non-angle component already fixes the inferred vector dimension
        for i in range(n):
            want = ["0"] * 7 if i in ang else a_exps
            if mode == "allwild" and i not in ang:
                comps.append(draw(_vec_special(want, nofz=nofz, dimful=False)))
                continue
            if mode == "badcomp" and i == pos:
                bad = _different(draw, want)
                if _vec(bad).is_dimensionless and draw(st.booleans()) and not use_kw:
                    comps.append(draw(_num_leaf(nvar)))
                else:
                    comps.append(draw(_qty_leaf(bad, nvar, fancy=False, allow_expr=not use_kw)))
                placed_normal = placed_normal or i not in ang
                continue
            m = draw(st.integers(0, 9))
            first_slot = i == 0 and sysname != "cartesian" and not use_kw and mode != "allwild"
            if m <= 1 and not first_slot:
                comps.append(draw(_vec_special(want, nofz=nofz, dimful=use_kw or placed_normal)))
                continue
            if m == 2 and i not in ang and (use_kw or _vec(want).is_dimensionless):
                comps.append(draw(_num_leaf(nvar)))
            elif m == 2 and i in ang and not use_kw:
                comps.append(draw(_num_leaf(nvar)))
            else:
                comps.append(draw(_qty_leaf(want, nvar, fancy=fancy or draw(st.integers(0, 3)) == 0,
                    angle=(a_ang if i not in ang else draw(st.sampled_from([0, 1, 1]))))))
            placed_normal = placed_normal or i not in ang
        if nowild and not use_kw and not any(leaf_class(c) == "normal" for i, c in enumerate(comps) if i not in ang):
            # excluded input class: no component carries a dimension -> give the first one a dimension
            excluded.append(KEY_WILDVEC)
            comps[0] = draw(_qty_leaf(a_exps, nvar, fancy=False))
        val: dict[str, Any] = {"sys": sysname, "comps": comps}
        if use_kw and mode != "allwild":
            val["dimkw"] = {"exps": list(a_exps), "angle": a_ang}
        case["value"] = val
        case["vmode"] = mode
        case["declared"] = draw(_decl(d_exps, fancy=fancy, angle=d_ang))
        case["badpos"] = pos
    # signature
    if io == "input":
        n_other = draw(st.integers(0, 3))
        names = [f"u{i}" for i in range(n_other)]
        tname = draw(st.sampled_from(["x_", "mass_", "value", "q1", "arg_"]))
        tpos = draw(st.integers(0, n_other))
        names.insert(tpos, tname)
        sig: dict[str, Any] = {"names": names, "target": tname}
        if n_other and draw(st.booleans()):
            other = draw(st.sampled_from([n for n in names if n != tname]))
            oe = draw(_actual_vec())
            sig["other"] = {"name": other, "declared": draw(_decl(oe, fancy=False)),
                "value": draw(_qty_leaf(oe, nvar, fancy=False))}
        case["sig"] = sig
        case["variants"] = draw(_variants(nvar, names))
    elif io == "output_same":
        names = ["a_", "ref_"] if draw(st.booleans()) else ["ref_"]
        case["sig"] = {"names": names, "target": "ref_"}
        case["variants"] = draw(_variants(nvar, names))
    else:
        case["sig"] = {"names": [], "target": "return"}
        case["variants"] = [{"style": "pos"} for _ in range(nvar)]
    if excluded:
        case["excluded"] = excluded
    return case


# ------------------------------------------------------------------------------------------------
# execution of one gate case


def _synth(names: list[str], ran: list[int], ret: list[Any]) -> Any:
    src = f"def fn({', '.join(names)}):\n    _ran[0] += 1\n    return _ret[0]\n"
    ns: dict[str, Any] = {"_ran": ran, "_ret": ret}
    exec(src, ns)  # pylint: disable=exec-used
    return ns["fn"]


def _call(fn: Any, names: list[str], values: dict[str, Any], var: dict[str, Any]) -> Any:
    style = var.get("style", "pos")
    if style == "pos":
        return fn(*[values[n] for n in names])
    if style == "kw":
        return fn(**{names[i]: values[names[i]] for i in var["order"]})
    npos = var["npos"]
    return fn(*[values[n] for n in names[:npos]], **{names[i]: values[names[i]] for i in var["order"]})


def _build_subject(case: dict[str, Any], variant: int) -> tuple[str, Any, str]:
    """('ok', object, '') or ('TypeError'|'UnitsError'|other, None, message) when construction refuses."""
    shape = case["shape"]
    val = case["value"]
    if shape == "scalar":
        return "ok", build_value(val, variant), ""
    if shape == "seq":
        items = [build_value(x, variant) for x in val["items"]]
        return "ok", (items if val["seq"] == "list" else tuple(items)), ""
    from symplyphysics import QuantityVector
    from symplyphysics.core.errors import UnitsError
    comps = [build_value(c, variant) for c in val["comps"]]
    kw: dict[str, Any] = {}
    if val.get("dimkw"):
        kw["dimension"] = _lib_dim(val["dimkw"]["exps"], val["dimkw"].get("angle", 0))
    try:
        return "ok", QuantityVector(comps, _coord(val["sys"]), **kw), ""
    except UnitsError as exc:
        return "UnitsError", None, str(exc)
    except TypeError as exc:
        return "TypeError", None, str(exc)


def observe(case: dict[str, Any], variant: int) -> dict[str, Any]:
    """Run one variant of a gate case against the library."""
    from symplyphysics import validate_input, validate_output
    from symplyphysics.core.errors import UnitsError
    from symplyphysics.core.quantity_decorator import validate_output_same
    io = case["io"]
    sig = case["sig"]
    names = list(sig["names"])
    var = case["variants"][variant % len(case["variants"])]
    stage, subj, msg = _build_subject(case, variant)
    if stage != "ok":
        return {"stage": "construct", "verdict": stage, "msg": msg, "ran": 0, "returned": False}
    ran = [0]
    ret: list[Any] = [None]
    values: dict[str, Any] = {}
    if io == "input":
        fn = _synth(names, ran, ret)
        declared = case["declared"]
        guards = {sig["target"]: tuple(build_declared(d) for d in declared) if isinstance(declared, list) else
            build_declared(declared)}
        fillers = ["unguarded", 7, None, 2.5]
        for i, n in enumerate(names):
            values[n] = fillers[i % len(fillers)]
        values[sig["target"]] = subj
        if sig.get("other"):
            guards[sig["other"]["name"]] = build_declared(sig["other"]["declared"])
            values[sig["other"]["name"]] = build_value(sig["other"]["value"], variant)
        ret[0] = "body-result"
        wrapped = validate_input(**guards)(fn)
        pname = sig["target"]
    elif io == "output":
        fn = _synth([], ran, ret)
        declared = case["declared"]
        spec = tuple(build_declared(d) for d in declared) if isinstance(declared, list) else build_declared(declared)
        ret[0] = subj
        wrapped = validate_output(spec)(fn)
        pname = "return"
    else:
        fn = _synth(names, ran, ret)
        for n in names:
            values[n] = 11
        values["ref_"] = build_value(case["ref"], 0)
        ret[0] = subj
        wrapped = validate_output_same("ref_")(fn)
        pname = "return"
    out: dict[str, Any] = {"stage": "call", "pname": pname}
    try:
        got = _call(wrapped, names, values, var)
        out.update(verdict="ok", msg="", returned=got is ret[0])
    except UnitsError as exc:
        out.update(verdict="UnitsError", msg=str(exc), returned=False)
    except TypeError as exc:
        out.update(verdict="TypeError", msg=str(exc), returned=False)
    except Exception as exc:  # pylint: disable=broad-except
        out.update(verdict=f"other:{type(exc).__name__}", msg=str(exc)[:200], returned=False)
    out["ran"] = ran[0]
    return out


def _names_param(msg: str, pname: str) -> bool:
    return f"'{pname}'" in msg or f"'{pname}[" in msg


def judge_gate(case: dict[str, Any]) -> tuple[list[tuple[str, str]], list[str]]:
    """-> (violations [(key, what)], labels)."""
    # pylint: disable=too-many-branches,too-many-locals
    _selfcheck()
    exp = expect_value(case)
    io, shape, relation = case["io"], case["shape"], case["relation"]
    labels = [f"gate:{relation}:{shape}:{io}", f"expect:{exp['verdict']}", f"stage:{exp['stage']}"]
    tags = exp["tags"]
    if "zoo" in tags:
        labels.append("unjudged:zoo")
    out: list[tuple[str, str]] = []
    seen: list[str] = []
    prefix = f"gate:{io}:{shape}"
    nvar = len(case["variants"])
    for v in range(nvar):
        obs = observe(case, v)
        seen.append(obs["verdict"])
        if "zoo" in tags:
            continue
        desc = (f"{io} {shape} relation={relation} variant={v} declared={_show_decl(case)} value={_show_val(case)} "
            f"model={exp['verdict']}@{exp['stage']} library={obs['verdict']}@{obs['stage']} ({obs['msg'][:120]})")
        ok_type = obs["verdict"] == exp["verdict"] or (exp["either"] and exp["verdict"] != "ok" and
            obs["verdict"] in ("TypeError", "UnitsError"))
        if not ok_type or (exp["verdict"] != "ok" and obs["stage"] != exp["stage"]):
            if "fzero" in tags:
                key = KEY_FZERO
            elif "wildvec" in tags and exp["verdict"] == "ok":
                key = KEY_WILDVEC
            else:
                key = f"{prefix}:{relation}:want={exp['verdict']}@{exp['stage']}:got={obs['verdict']}@{obs['stage']}"
            out.append((key, desc))
            continue
        if obs["stage"] == "construct":
            continue
        if io == "input":
            want_ran = 1 if obs["verdict"] == "ok" else 0
            if obs["ran"] != want_ran:
                out.append((f"{prefix}:body-ran-{obs['ran']}-times-on-{obs['verdict']}", desc))
        else:
            if obs["ran"] != 1:
                out.append((f"{prefix}:body-ran-{obs['ran']}-times", desc))
            if (obs["verdict"] == "ok") != bool(obs["returned"]):
                out.append((f"{prefix}:result-not-returned", desc))
        if obs["verdict"] != "ok" and not _names_param(obs["msg"], obs["pname"]):
            out.append((f"{prefix}:message-lacks-parameter-name", desc))
        if obs["verdict"] != "ok" and shape == "seq":
            # the refusal must be about the first offending element (only judged when the message carries an index)
            m = re.search(r"'" + re.escape(obs["pname"]) + r"\[(\d+)\]'", obs["msg"])
            if m is None:
                labels.append("seq-index-not-in-message")
            elif int(m.group(1)) == exp.get("index"):
                labels.append("seq-index-named")
            else:
                labels.append("seq-index-other-element")
                blamed = case["value"]["items"][int(m.group(1))] if int(m.group(1)) < len(case["value"]["items"]) else None
                key = KEY_FZERO if (blamed is not None and leaf_class(blamed) == "fzero") else f"{prefix}:wrong-element-blamed"
                out.append((key, desc + f" [model: first offending element is #{exp.get('index')}]"))
    if "zoo" not in tags and len(set(seen)) > 1 and not exp["either"]:
        out.append((f"{prefix}:verdict-depends-on-magnitude-prefix-or-call-style",
            f"{io} {shape} verdicts over variants {seen} declared={_show_decl(case)} value={_show_val(case)}"))
    return out, labels


def _show_decl(case: dict[str, Any]) -> str:
    d = case["declared"]
    ds = d if isinstance(d, list) else [d]
    return "(" + ", ".join(f"{x.get('carrier', 'Dimension')}[{_vec(x['exps']).text()}"
        f"{'*angle^%d' % x['angle'] if x.get('angle') else ''} via {x.get('route', ['product'])[0]}]" for x in ds) + ")"


def _show_leaf(x: dict[str, Any]) -> str:
    if x["k"] == "qty":
        return (f"qty[{_vec(x['exps']).text()}{'*angle^%d' % x['angle'] if x.get('angle') else ''} "
            f"{x['mags'][0]} {x['prefixes'][0]} {x.get('route', ['si'])} {x.get('wrap', 'Quantity')}]")
    if x["k"] == "num":
        return f"num{x['mags'][0]}"
    return f"special[{x['v']} as {x.get('as', 'bare')} {_vec(x['exps']).text() if 'exps' in x else ''}]"


def _show_val(case: dict[str, Any]) -> str:
    v = case["value"]
    if case["shape"] == "scalar":
        return _show_leaf(v)
    if case["shape"] == "seq":
        return v["seq"] + "[" + ", ".join(_show_leaf(x) for x in v["items"]) + f"] bad@{case['badpos']}"
    return (f"QuantityVector[{v['sys']} " + ", ".join(_show_leaf(x) for x in v["comps"]) +
        (f" dimension={_vec(v['dimkw']['exps']).text()}" if v.get("dimkw") else "") + "]")


def _leaves(case: dict[str, Any]) -> list[dict[str, Any]]:
    v = case["value"]
    if case["shape"] == "scalar":
        return [v]
    return list(v["items"] if case["shape"] == "seq" else v["comps"])


def gate_nontrivial(case: dict[str, Any]) -> bool:
    d = case["declared"]
    dvec = _vec((d[case["badpos"]] if isinstance(d, list) else d)["exps"])
    leaves = _leaves(case)
    subj = leaves[min(case["badpos"], len(leaves) - 1)]
    derived = leaf_vec(subj).n_nonzero >= 2 and dvec.n_nonzero >= 2
    notfirst = case["shape"] in ("seq", "vector") and case["relation"] == "different" and case["badpos"] > 0
    return bool(derived or notfirst)


def gate_identity(case: dict[str, Any]) -> Any:
    def lid(x: dict[str, Any]) -> Any:
        return [x["k"], x.get("exps"), x.get("angle", 0), x.get("route"), x.get("v"), x.get("as"), x.get("wrap")]

    d = case["declared"]
    ds = d if isinstance(d, list) else [d]
    return ["gate", case["io"], case["shape"], case["relation"], case["badpos"],
        [[x["exps"], x.get("angle", 0), x.get("carrier"), x.get("route")] for x in ds], [lid(x) for x in _leaves(case)],
        case["value"].get("sys") if case["shape"] == "vector" else None]


def gate_labels(case: dict[str, Any]) -> list[str]:
    labs = []
    d = case["declared"]
    ds = d if isinstance(d, list) else [d]
    labs.append("declared:tuple" if isinstance(d, list) else f"carrier:{ds[0].get('carrier')}")
    for x in ds:
        labs.append(f"declroute:{x.get('route', ['product'])[0]}")
    for x in _leaves(case):
        if x["k"] == "special":
            labs.append(f"value:special:{x['v']}:{x.get('as', 'bare')}")
        elif x["k"] == "num":
            labs.append(f"value:num:{x['mags'][0][0]}")
        else:
            labs.append(f"value:qty:{x.get('route', ['si'])[0]}:{x.get('wrap', 'Quantity')}")
            labs.append(f"mag:{x['mags'][0][0]}")
            labs.append("prefix:yes" if any(x["prefixes"]) else "prefix:no")
            if any(sympy.Rational(e).q != 1 for e in x["exps"]):
                labs.append("halves")
    if case["io"] == "input":
        for v in case["variants"]:
            labs.append(f"style:{v['style']}")
        labs.append(f"nparams:{len(case['sig']['names'])}")
        labs.append("second-guard:" + ("yes" if case["sig"].get("other") else "no"))
    if case["shape"] in ("seq", "vector"):
        labs.append(f"{case['shape']}:badpos:{case['badpos']}" if case["relation"] == "different" else
            f"{case['shape']}:all-good")
    if case["shape"] == "vector":
        labs.append(f"vector:{case['value']['sys']}:{case.get('vmode')}:{'dimkw' if case['value'].get('dimkw') else 'inferred'}")
    for k in case.get("excluded", []):
        labs.append(f"excluded:{k}")
    for x in _leaves(case):
        if x.get("excl"):
            labs.append(f"excluded:{x['excl']}")
    return labs


# ------------------------------------------------------------------------------------------------
# catalogue sweep

ROOTS = ("symplyphysics.laws", "symplyphysics.definitions", "symplyphysics.conditions")
WRONG_KINDS = ("mul-length", "bare-number", "div-time", "half-mass", "list-second-bad", "vector")


def list_catalogue() -> tuple[list[str], list[list[str]]]:
    """Module names (packages excluded) and package-walk failures. Imports packages only."""
    names: list[str] = []
    fails: list[list[str]] = []
    for root in ROOTS:
        pkg = importlib.import_module(root)

        def onerror(name: str) -> None:
            fails.append([name, "package import failed during walk"])

        for m in pkgutil.walk_packages(pkg.__path__, root + ".", onerror=onerror):
            if not m.ispkg:
                names.append(m.name)
    return sorted(names), fails


def _cells(f: Any) -> dict[str, Any]:
    if getattr(f, "__closure__", None) is None:
        return {}
    return dict(zip(f.__code__.co_freevars, [c.cell_contents for c in f.__closure__]))


def decorator_chain(f: Any) -> tuple[Any, list[tuple[str, Any]]]:
    """(innermost function, [(kind, spec)]) recovered by walking __wrapped__ and reading closures."""
    specs: list[tuple[str, Any]] = []
    while hasattr(f, "__wrapped__"):
        c = _cells(f)
        if "decorator_kwargs" in c:
            specs.append(("input", c["decorator_kwargs"]))
        elif "expected_unit" in c:
            specs.append(("output", c["expected_unit"]))
        elif "param_name" in c:
            specs.append(("output_same", c["param_name"]))
        else:
            specs.append(("unknown", f.__code__.co_name))
        f = f.__wrapped__
    return f, specs


def decorated_functions(mod: Any) -> Iterator[tuple[str, Any]]:
    for name, obj in sorted(vars(mod).items()):
        if inspect.isfunction(obj) and hasattr(obj, "__wrapped__") and obj.__module__ == mod.__name__:
            yield name, obj


def _spec_dims(spec: Any) -> list[Any]:
    """Declared library dimensions of one guard spec (tuple -> several)."""
    from sympy.physics.units import Dimension
    items = list(spec) if isinstance(spec, (tuple, list)) else [spec]
    return [s if isinstance(s, Dimension) else s.dimension for s in items]


def _is_any(d: Any) -> bool:
    return type(d).__name__ == "AnyDimension"


def _valid_for(spec: Any) -> Any:
    """A value every element of which has exactly the declared dimension (model-built coherent SI quantity)."""
    from symplyphysics import Quantity
    out = []
    for d in _spec_dims(spec):
        if _is_any(d):
            out.append(Quantity(3))
        else:
            out.append(Quantity(sympy.Integer(3) * md.from_lib(d).si_unit()))
    return out if isinstance(spec, (tuple, list)) else out[0]


def _wrong_for(spec: Any, kind: str) -> tuple[Any, str] | None:
    """(value, expected exception) or None when this kind does not apply to this guard."""
    from symplyphysics import Quantity, QuantityVector
    ds = _spec_dims(spec)
    istuple = isinstance(spec, (tuple, list))
    idx = len(ds) - 1 if istuple else 0
    if _is_any(ds[idx]):
        return None
    dvec = md.from_lib(ds[idx])
    if kind == "bare-number":
        if dvec.is_dimensionless:
            wvec = mu.T
            wrong: Any = Quantity(sympy.Integer(5) * wvec.si_unit())
        else:
            wvec = md.ONE
            wrong = 5
    else:
        delta = {"mul-length": mu.L, "div-time": mu.ONE / mu.T, "half-mass": mu.M**sympy.Rational(1, 2),
            "list-second-bad": mu.I, "vector": mu.K}[kind]
        wvec = dvec * delta
        if kind == "vector":
            unit = wvec.si_unit()
            wrong = QuantityVector([Quantity(2 * unit), Quantity(-1 * unit), Quantity(4 * unit)])
        else:
            wrong = Quantity(sympy.Rational(7, 2) * wvec.si_unit())
    expected = verdict_scalar(wvec, dvec)
    if istuple:
        valid = _valid_for(spec)
        return valid[:idx] + [wrong], expected
    if kind == "list-second-bad":
        return [_valid_for(spec), wrong], expected
    return wrong, expected


class _BodyEntered(Exception):
    pass


def _guarded_call(fn: Any, inner: Any, names: list[str], values: dict[str, Any], positional: bool) -> tuple[str, str]:
    """Call `fn`; the call is aborted the moment the innermost (undecorated) body is entered.
    -> ('entered'|'returned'|exception type name, message)"""
    code = inner.__code__

    def prof(frame: Any, event: str, _arg: Any) -> None:
        if event == "call" and frame.f_code is code:
            raise _BodyEntered()

    args = [values[n] for n in names] if positional else []
    kwargs = {} if positional else dict(values)
    sys.setprofile(prof)
    try:
        try:
            fn(*args, **kwargs)
        finally:
            sys.setprofile(None)
    except _BodyEntered:
        return "entered", ""
    except Exception as exc:  # pylint: disable=broad-except
        return type(exc).__name__, str(exc)
    return "returned", ""


def sweep_function(modname: str, fname: str, fn: Any, kinds: list[str] | None, rot: int, nwrong: int,
    only_param: str | None = None) -> tuple[list[dict[str, Any]], list[tuple[str, str, dict[str, Any]]], dict[str, int]]:
    """-> (evaluated case records, violations [(key, what, case)], counters)."""
    # pylint: disable=too-many-locals,too-many-branches,too-many-statements
    inner, specs = decorator_chain(fn)
    sig = inspect.signature(inner)
    params = list(sig.parameters)
    cases: list[dict[str, Any]] = []
    viols: list[tuple[str, str, dict[str, Any]]] = []
    counts: dict[str, int] = {"sweep:functions": 1}
    guards: dict[str, Any] = {}
    for kind, spec in specs:
        counts[f"sweep:decorator:{kind}"] = counts.get(f"sweep:decorator:{kind}", 0) + 1
        if kind == "input":
            for gname, gspec in spec.items():
                counts["sweep:guards"] = counts.get("sweep:guards", 0) + 1
                case = {"part": "sweep-names", "module": modname, "function": fname, "guard": gname}
                ok = gname in params
                cases.append({"case": case, "nontrivial": False, "labels": ["sweep:name-subset:" + ("ok" if ok else "BAD")]})
                if ok:
                    guards[gname] = gspec
                elif only_param in (None, gname):
                    viols.append((f"{modname}:{fname}:{gname}",
                        f"validate_input of {modname}.{fname} guards '{gname}', which is not a parameter "
                        f"(signature: {', '.join(params)}); unguarded parameters: "
                        f"{[p for p in params if p not in spec]}", case))
        elif kind == "output_same":
            case = {"part": "sweep-names", "module": modname, "function": fname, "guard": spec}
            ok = spec in params
            cases.append({"case": case, "nontrivial": False, "labels": ["sweep:name-subset:" + ("ok" if ok else "BAD")]})
            if not ok and only_param in (None, spec):
                viols.append((f"{modname}:{fname}:{spec}",
                    f"validate_output_same of {modname}.{fname} refers to '{spec}', not a parameter ({params})", case))
    # values: model-built valid quantity for every guarded parameter, an inert filler for the others
    try:
        valid = {p: (_valid_for(guards[p]) if p in guards else sympy.Integer(1)) for p in params}
    except md.NotADimension as exc:
        counts["sweep:skipped:non-SI-dimension"] = 1
        cases.append({"case": {"part": "sweep", "module": modname, "function": fname, "skip": str(exc)},
            "nontrivial": False, "labels": ["sweep:skipped:non-SI-dimension"]})
        return cases, viols, counts
    allpos = all(p.kind == inspect.Parameter.POSITIONAL_OR_KEYWORD for p in sig.parameters.values())
    status, msg = _guarded_call(fn, inner, params, valid, False)
    case = {"part": "sweep", "module": modname, "function": fname, "param": None, "wrong": "baseline"}
    cases.append({"case": case, "nontrivial": False, "labels": [f"sweep:baseline:{status}"]})
    if status != "entered" and only_param is None:
        viols.append((f"{modname}:{fname}:<baseline>",
                f"{modname}.{fname}: coherent-SI quantities of exactly the declared dimension for every guarded "
                f"parameter did not reach the body: {status}: {msg[:200]}", case))
    ordinal = 0
    for p in params:
        if p not in guards or (only_param is not None and p != only_param):
            continue
        ordinal += 1
        dvecs = [None if _is_any(d) else md.from_lib(d) for d in _spec_dims(guards[p])]
        if all(d is None for d in dvecs):
            counts["sweep:any_dimension-guards"] = counts.get("sweep:any_dimension-guards", 0) + 1
            continue
        use = list(kinds) if kinds is not None else _pick_kinds(rot + ordinal, nwrong)
        for j, wk in enumerate(use):
            made = _wrong_for(guards[p], wk)
            if made is None:
                continue
            wrong, expected = made
            values = dict(valid)
            values[p] = wrong
            positional = allpos and (j % 2 == 1)
            status, msg = _guarded_call(fn, inner, params, values, positional)
            case = {"part": "sweep", "module": modname, "function": fname, "param": p, "wrong": wk}
            d0 = dvecs[-1]
            nt = bool(d0 is not None and d0.n_nonzero >= 2)
            labels = [f"sweep:wrong:{wk}", f"sweep:expect:{expected}", "sweep:call:" + ("pos" if positional else "kw"),
                f"sweep:declared-nz:{d0.n_nonzero if d0 is not None else 'any'}"]
            key = f"{modname}:{fname}:{p}"
            if status == "entered" or status == "returned":
                viols.append((key, f"{modname}.{fname}: wrong-dimension value ({wk}) for guarded parameter '{p}' "
                    f"(declared {d0.text() if d0 is not None else '?'}) was admitted: body {status}", case))
                labels.append("sweep:result:ADMITTED")
            elif status not in ("TypeError", "UnitsError"):
                viols.append((key, f"{modname}.{fname}: wrong-dimension value ({wk}) for '{p}' raised {status}: "
                    f"{msg[:200]} instead of TypeError/UnitsError", case))
                labels.append(f"sweep:result:{status}")
            elif not _names_param(msg, p):
                viols.append((key, f"{modname}.{fname}: wrong-dimension value ({wk}) for '{p}' refused, but the "
                    f"message does not name the parameter: {status}: {msg[:200]}", case))
                labels.append("sweep:result:unnamed")
            elif status != expected:
                viols.append((key, f"{modname}.{fname}: wrong-dimension value ({wk}) for '{p}' refused with {status}, "
                    f"model expects {expected}: {msg[:200]}", case))
                labels.append("sweep:result:wrong-type")
            else:
                labels.append("sweep:result:refused")
            cases.append({"case": case, "nontrivial": nt, "labels": labels})
    return cases, viols, counts


def _pick_kinds(rot: int, nwrong: int) -> list[str]:
    if nwrong >= len(WRONG_KINDS):
        return list(WRONG_KINDS)
    a = ("mul-length", "div-time", "half-mass")
    b = ("bare-number", "list-second-bad", "vector")
    out = [a[rot % 3], b[(rot // 3) % 3]]
    return out[:nwrong]


def _sweep_shard(task: dict[str, Any]) -> Recorder:
    rec = Recorder()
    _selfcheck()
    t0 = time.time()
    fails: list[list[str]] = []
    for i, modname in enumerate(task["modules"]):
        try:
            mod = importlib.import_module(modname)
        except Exception as exc:  # pylint: disable=broad-except
            # import failures belong to another property (C03); recorded and skipped
            fails.append([modname, f"{type(exc).__name__}: {str(exc)[:160]}"])
            rec.count("sweep:module-import-failed")
            continue
        rec.count("sweep:modules")
        for fname, fn in decorated_functions(mod):
            cases, viols, counts = sweep_function(modname, fname, fn, None, task["rot"] + i, task["nwrong"])
            for c in cases:
                rec.case(c["case"], nontrivial=c["nontrivial"], labels=c["labels"])
            for key, what, case in viols:
                rec.violation(key, what, case)
            for k, n in counts.items():
                rec.count(k, n)
    if fails:
        rec.notes["sweep_import_failures"] = fails
    rec.notes["sweep_shard_seconds"] = [[task["name"], round(time.time() - t0, 1)]]
    rec.samples = rec.samples[:1]
    return rec


# ------------------------------------------------------------------------------------------------
# driver


def _gate_shard(task: dict[str, Any]) -> Recorder:
    rec = Recorder()
    _selfcheck()
    exclude = tuple(task.get("exclude", ()))

    def body(case: dict[str, Any]) -> None:
        viols, labels = judge_gate(case)
        labels += gate_labels(case)
        for key, what in viols:
            rec.violation(key, what, case)
            labels.append("VIOLATION:" + key)
        nt = gate_nontrivial(case)
        rec.case(gate_identity(case), nontrivial=nt, labels=labels)
        if nt and len(keep) < 1:
            keep.append(case)

    keep: list[Any] = []
    hyp_run(gate_case(exclude), body, task["n"], task["seed"])
    rec.samples = keep
    return rec


def _task(task: dict[str, Any]) -> Recorder:
    return _sweep_shard(task) if task["kind"] == "sweep" else _gate_shard(task)


def _sweep_tasks(names: list[str], rot: int, nwrong: int, chunk: int = 24) -> list[dict[str, Any]]:
    groups: dict[str, list[str]] = {}
    for n in names:
        parts = n.split(".")
        pkg = ".".join(parts[:3]) if len(parts) > 3 else ".".join(parts[:2])
        groups.setdefault(pkg, []).append(n)
    tasks = []
    for pkg in sorted(groups):
        mods = groups[pkg]
        for j in range(0, len(mods), chunk):
            tasks.append({"kind": "sweep", "name": f"{pkg}[{j}:{j + chunk}]", "modules": mods[j:j + chunk], "rot": rot + j,
                "nwrong": nwrong})
    tasks.sort(key=lambda t: -len(t["modules"]))
    return tasks


def run(ctx: Ctx) -> None:
    import symplyphysics  # noqa: F401  pylint: disable=unused-import,import-outside-toplevel
    _selfcheck()
    exclude = [k["key"] for k in ctx.known if k.get("status") == "open" and k["key"] in EXCLUDABLE]
    # testing aid (mutation runs): VERIF_C04_EXCLUDE=key,key excludes the same input classes by construction
    exclude += [k for k in os.environ.get("VERIF_C04_EXCLUDE", "").split(",") if k in EXCLUDABLE and k not in exclude]
    n_gate = ctx.pick(4000, 60000)
    nwrong = ctx.pick(2, 6)
    names, walk_fails = list_catalogue()
    tasks = _sweep_tasks(names, ctx.seed, nwrong)
    shards = 16
    for i, n in enumerate(shard_counts(n_gate, shards)):
        tasks.append({"kind": "gate", "n": n, "seed": ctx.seed * 1000 + i, "exclude": exclude})
    results = run_tasks(_task, tasks, timeout=ctx.pick(600, 1500))
    pairs = sorted(zip(tasks, results), key=lambda tr: (tr[0].get("seed", 0) % 1000 if tr[0]["kind"] == "gate" else
        tasks.index(tr[0])) * 2 + (0 if tr[0]["kind"] == "gate" else 1))
    for task, (status, val) in pairs:
        if status == "timeout":
            ctx.inconclusive += 1
            ctx.notes.setdefault("timeouts", []).append(task.get("name", f"gate-{task.get('seed')}"))
            continue
        if status != "ok":
            raise RuntimeError(f"C04 shard {task.get('name', task.get('seed'))} failed: {status}: {val}")
        ctx.merge(val)
    if walk_fails:
        ctx.notes.setdefault("sweep_import_failures", []).extend(walk_fails)
    ctx.notes["sweep_modules_listed"] = len(names)
    ctx.notes["catalogue_sweep_exhaustive"] = "timeouts" not in ctx.notes
    ctx.notes["excluded_input_classes"] = exclude
    secs = ctx.notes.get("sweep_shard_seconds")
    if isinstance(secs, list):
        secs.sort(key=lambda x: -x[1])
        ctx.notes["sweep_shard_seconds"] = secs[:5]
    ctx.assumptions += [
        "M-dim: dimension vectors are compared by the harness' own exponent arithmetic; SymPy is consulted only for the "
        "dimension of single leaves (tabled units, named dimensions, declared guard dimensions), checked at start-up",
        "decorator specifications are read from wrapper closures (decorator_kwargs / expected_unit / param_name); the "
        "undecorated body is detected by a sys.setprofile hook on its code object and the call is aborted at entry",
        "zoo (complex infinity) is generated but not judged; validate_output_same is exercised with non-zero reference "
        "arguments only; curvilinear QuantityVectors without explicit dimension have a non-wildcard first component",
        "modules that fail to import are listed in coverage.sweep_import_failures and skipped (import health is C03's)",
    ]
    # minimise one case per new gate key
    known = {k["key"] for k in ctx.known}
    seen: set[str] = set()
    for v in sorted(ctx.violations, key=lambda v: len(json.dumps(v["case"], default=str))):
        key = v["key"]
        if key in seen or key in known or v["case"].get("part") != "gate":
            continue
        seen.add(key)
        small = shrink(v["case"], _candidates, lambda c, key=key: any(k == key for k, _ in judge_gate(c)[0]),
            budget_s=ctx.pick(10, 40))
        res = [w for k, w in judge_gate(small)[0] if k == key]
        if res:
            ctx.violation(key, res[0], small)


def _simpler_leaf(x: dict[str, Any]) -> Iterator[dict[str, Any]]:
    if x["k"] == "qty":
        if x.get("route", ["si"]) != ["si"]:
            yield {**x, "route": ["si"]}
        if x.get("wrap") == "expr":
            yield {**x, "wrap": "Quantity"}
        if any(x["prefixes"]):
            yield {**x, "prefixes": [None] * len(x["prefixes"])}
        if any(m != ["int", "2"] for m in x["mags"]):
            yield {**x, "mags": [["int", "2"]] * len(x["mags"])}
    elif x["k"] == "num":
        if any(m != ["int", "2"] for m in x["mags"]):
            yield {**x, "mags": [["int", "2"]] * len(x["mags"])}
    elif x.get("as", "bare") != "bare":
        yield {"k": "special", "v": x["v"], "as": "bare"}


def _candidates(case: dict[str, Any]) -> Iterator[dict[str, Any]]:
    # pylint: disable=too-many-branches
    if len(case["variants"]) > 1:
        for i in range(len(case["variants"])):
            yield {**case, "variants": [case["variants"][i]]}
    if case["io"] == "input":
        sig = case["sig"]
        if sig.get("other"):
            yield {**case, "sig": {k: v for k, v in sig.items() if k != "other"}}
        if len(sig["names"]) > 1 and not sig.get("other"):
            yield {**case, "sig": {"names": [sig["target"]], "target": sig["target"]},
                "variants": [{"style": "pos"} for _ in case["variants"]]}
        if any(v["style"] != "pos" for v in case["variants"]):
            yield {**case, "variants": [{"style": "pos"} for _ in case["variants"]]}
    d = case["declared"]
    if not isinstance(d, list) and d.get("carrier") != "argument":
        if d.get("carrier") != "Dimension":
            yield {**case, "declared": {**d, "carrier": "Dimension"}}
        if d.get("route", ["product"]) != ["product"]:
            yield {**case, "declared": {**d, "route": ["product"]}}
    val = case["value"]
    if case["shape"] == "scalar":
        for s in _simpler_leaf(val):
            yield {**case, "value": s}
    else:
        field = "items" if case["shape"] == "seq" else "comps"
        items = val[field]
        if case["shape"] == "seq" and not isinstance(d, list) and len(items) > 1:
            for i in range(len(items)):
                if i != case["badpos"]:
                    new = items[:i] + items[i + 1:]
                    yield {**case, "value": {**val, field: new},
                        "badpos": case["badpos"] - (1 if i < case["badpos"] else 0)}
        for i, x in enumerate(items):
            for s in _simpler_leaf(x):
                yield {**case, "value": {**val, field: items[:i] + [s] + items[i + 1:]}}


def replay(case: dict[str, Any]) -> list[tuple[str, str]]:
    _selfcheck()
    part = case.get("part")
    if part == "gate":
        return judge_gate(case)[0]
    mod = importlib.import_module(case["module"])
    fn = getattr(mod, case["function"])
    if part == "sweep-names":
        _c, viols, _n = sweep_function(case["module"], case["function"], fn, [], 0, 0, only_param=case["guard"])
        return [(k, w) for k, w, c in viols if c.get("part") == "sweep-names"]
    if case.get("param") is None:
        _c, viols, _n = sweep_function(case["module"], case["function"], fn, [], 0, 0)
        return [(k, w) for k, w, c in viols if c.get("wrong") == "baseline"]
    _c, viols, _n = sweep_function(case["module"], case["function"], fn, [case["wrong"]], 0, 1,
        only_param=case["param"])
    return [(k, w) for k, w, c in viols if c.get("part") == "sweep"]


__all__ = ["PID", "RULE", "run", "replay", "log"]
