"""C07 - unit conversion is exact, invertible, compositional and scale-consistent.

Three families of generated cases (plain JSON, see `case_strategy`):

 conv     magnitude x source unit expression A, two *independently generated* equivalent targets B and C,
          one inequivalent target D, a linearity factor k.  Judged against the hand-typed unit table
          (vp/model/units.py, true SI / kg) through vp/model/unitexpr.py.
 eval     expression tree over quantities, raw SymPy units, plain symbols and numbers, passed through
          `evaluate_expression` (with and without evaluate=True); judged by an mpmath interpreter of the
          JSON tree fed with the model SI values.
 celsius  Celsius/kelvin helpers: offset 273.15, mutual inverses, quantities written in prefixed kelvin.
"""
from __future__ import annotations

import functools
import os
from typing import Any

import mpmath
import sympy
from hypothesis import strategies as st

from ..boot import Ctx, Recorder
from ..hyp import hyp_run
from ..model import unitexpr as UX
from ..model import units as MU
from ..pool import run_tasks, shard_counts
from ..shrink import get_at, paths, replace_at, shrink

PID = "C07"
RULE = ("Hypothesis-generated cases of three kinds. conv (75%): magnitude (int/rational/float/complex, either sign, "
    "0 and 1 included) x source unit expression of 1-3 terms from the 48-unit table (each term optionally prefixed "
    "by a symplyphysics integer/float prefix or a SymPy Prefix, exponent in +-1,+-2,+-3,1/2), two equivalent "
    "targets generated independently from the dimension vector (named derived unit / derived units completed by "
    "base-unit families / base families only, optional rad/percent factor), one inequivalent target, a rational "
    "factor k; oracle = hand-typed exact SI factors. eval (15%): expression trees (depth<=4) over 1-3 quantities, "
    "raw units, 2 symbols, rationals with add/mul/pow/neg/sin, oracle = mpmath interpretation of the JSON tree at "
    "60 digits. celsius (10%): temperatures in [-1e4,1e4] (ints and floats), prefixed-kelvin quantities, and one Celsius object "
    "converted, set to a second generated temperature through its public value attribute and converted again. "
    "Non-trivial = (conv) source or a target contains a derived or prefixed unit and the magnitude is not 0 or 1; "
    "(eval) at least one quantity/unit leaf with a derived or prefixed unit and magnitude not in {0,1}, and at "
    "least one symbol; (celsius) temperature not in {0,1} (a prefixed kelvin unit is always involved). "
    "Distinct by hash of the whole case description.")

KEY_FZ = "float-zero-not-wildcard"
TOL_INEXACT = sympy.Rational(1, 10**12)
TOL_EXACT = sympy.Rational(1, 10**30)
# a private context: the library under test may use mpmath's global context, whose precision must stay untouched
MPX = mpmath.mp.clone()
MPX.dps = 60

# ------------------------------------------------------------------------------------------------
# generators


def _float_repr(f: float) -> list[Any]:
    return ["float", repr(float(f))]


@functools.lru_cache(maxsize=None)
def mag_st(exact_only: bool = False) -> st.SearchStrategy[Any]:
    ints = st.one_of(st.integers(2, 1000), st.integers(2, 1000), st.integers(-1000, -1),
        st.sampled_from([0, 1, -1, 2, 10, 1000, 10**6, 10**9])).map(lambda n: ["int", n])
    rats = st.builds(lambda p, q: ["rat", f"{p}/{q}"],
        st.integers(-5000, 5000).filter(lambda x: x != 0), st.integers(2, 997))
    decimal = st.builds(lambda m, e, s: _float_repr(s * m * 10.0**e), st.integers(1, 99999), st.one_of(st.integers(-14, 9), st.integers(-40, 30)),
        st.sampled_from([1, 1, 1, -1]))
    anyfloat = st.floats(min_value=1e-12, max_value=1e12, allow_nan=False, allow_infinity=False).flatmap(
        lambda f: st.sampled_from([_float_repr(f), _float_repr(-f)]))
    fzero = st.just(["float", "0.0"])
    cplx = st.builds(lambda a, b, c, d: ["cplx", f"{a}/{b}", f"{c}/{d}"], st.integers(-99, 99), st.integers(1, 9),
        st.integers(-99, 99).filter(lambda x: x != 0), st.integers(1, 9))
    table = {"i": ints, "r": rats, "d": decimal, "f": anyfloat, "z": fzero, "c": cplx}
    # explicit selector (sampled_from is close to uniform; one_of over these branches measured 70% ints)
    codes = "iiirrrc" if exact_only else "iirrdddffzc"

    @st.composite
    def pick(draw: Any) -> Any:
        return draw(table[draw(st.sampled_from(codes))])

    return pick()


@functools.lru_cache(maxsize=None)
def real_mag_st(exact_only: bool = False) -> st.SearchStrategy[Any]:
    return mag_st(exact_only).filter(lambda m: m[0] != "cplx")


_RAT_K = st.builds(lambda p, q: f"{p}/{q}", st.integers(-60, 60).filter(lambda x: x not in (0, )), st.integers(1, 7))


@st.composite
def conv_case(draw: Any) -> dict[str, Any]:
    ex = draw(st.booleans())  # half of the cases all-rational (judged exactly), half with floats somewhere
    mag = draw(mag_st(ex))  # drawn first: late draws of a long composite are biased towards the simplest branch
    k = draw(_RAT_K)
    a = draw(UX.source_st(exact_only=ex))
    d = UX.dim(a)
    b = draw(UX.equivalent_st(d, exact_only=ex))
    c = draw(UX.equivalent_st(d, exact_only=ex))
    lab, dd = draw(UX.inequivalent_st(d, exact_only=ex))
    return {"kind": "conv", "mag": mag, "A": a, "B": b, "C": c, "D": dd, "Dclass": lab, "k": k,
        "raw": draw(st.integers(0, 3)) == 0}


@functools.lru_cache(maxsize=None)
def _tree(depth: int, nq: int, nu: int, symbols_only: bool = False) -> st.SearchStrategy[Any]:
    leaves = [st.builds(lambda j: ["x", j], st.integers(0, 1)),
        st.builds(lambda p, q: ["num", f"{p}/{q}"], st.integers(-9, 9).filter(lambda x: x != 0), st.integers(1, 4))]
    if not symbols_only:
        leaves += [st.builds(lambda i: ["q", i], st.integers(0, nq - 1))] * 2
        if nu:
            leaves.append(st.builds(lambda i: ["u", i], st.integers(0, nu - 1)))
    leaf = st.one_of(*leaves)
    if depth <= 0:
        return leaf
    sub = _tree(depth - 1, nq, nu, symbols_only)
    nodes = [leaf, st.builds(lambda a, b: ["add", a, b], sub, sub), st.builds(lambda a, b: ["mul", a, b], sub, sub),
        st.builds(lambda a, b: ["mul", a, b], sub, sub),
        st.builds(lambda a, n: ["pow", a, n], sub, st.sampled_from([2, 2, 3, -1, -1, -2])),
        st.builds(lambda a: ["neg", a], sub)]
    if not symbols_only:
        nodes.append(st.builds(lambda a: ["sin", a], _tree(min(depth - 1, 2), nq, nu, True)))
    return st.one_of(*nodes)


@st.composite
def eval_case(draw: Any) -> dict[str, Any]:
    nq = draw(st.integers(1, 3))
    ex = draw(st.booleans())
    qs = [{"mag": draw(real_mag_st(ex)), "A": draw(UX.source_st(exact_only=ex))} for _ in range(nq)]
    us = draw(st.lists(st.sampled_from(sorted(MU.TABLE)), min_size=0, max_size=2))
    sub = _tree(draw(st.integers(1, 3)), nq, len(us))
    # the root always combines a quantity with a symbol-bearing sub-tree, so every case has both
    top = draw(st.sampled_from(["mul", "add", "mulx"]))
    q0 = ["q", draw(st.integers(0, nq - 1))]
    if top == "mulx":
        tree = ["add", ["mul", q0, ["pow", ["x", draw(st.integers(0, 1))], 2]], draw(sub)]
    else:
        tree = [top, ["mul", q0, draw(sub)], draw(sub)]
    env = [draw(_RAT_K), draw(_RAT_K)]
    return {"kind": "eval", "Q": qs, "U": us, "tree": tree, "env": env}


@st.composite
def celsius_case(draw: Any) -> dict[str, Any]:
    x = draw(st.one_of(st.integers(-300, 3000).map(lambda n: ["int", n]),
        st.builds(lambda m, e, s: _float_repr(s * m * 10.0**e), st.integers(1, 99999), st.integers(-5, -1),
        st.sampled_from([1, -1])),
        st.floats(min_value=-1e4, max_value=1e4, allow_nan=False).map(_float_repr)))
    pre = draw(st.sampled_from(["S:milli", "S:kilo", "P:milli", "P:kilo", "R:milli", "R:kilo", "S:micro", "P:mega",
        "S:centi", "R:hecto"]))
    # a second temperature the SAME Celsius object is set to (its public `value` attribute) after a first conversion
    x2 = draw(st.one_of(st.integers(-300, 3000).map(lambda n: ["int", n]),
        st.floats(min_value=-1e4, max_value=1e4, allow_nan=False).map(_float_repr)))
    return {"kind": "celsius", "x": x, "prefix": pre, "x2": x2}


@st.composite
def floatexp_case(draw: Any) -> dict[str, Any]:
    """A dimensional unit raised to a non-integral FLOAT exponent (binary-exact, so the model stays exact), converted to
    an inequivalent target (the unit to the truncated / rounded integer power, or a plain number): must be refused."""
    unit = draw(st.sampled_from(["meter", "second", "kilogram", "kilometer", "newton", "kelvin", "ampere", "joule"]))
    exp = draw(st.sampled_from(["1/2", "3/2", "-1/2", "5/2", "-3/2", "1/4"]))
    num = draw(st.integers(2, 60))
    tgt = draw(st.sampled_from(["trunc", "round-away", "number", "same-unit"]))
    return {"kind": "floatexp", "unit": unit, "exp": exp, "num": num, "target": tgt}


@st.composite
def foreignbase_case(draw: Any) -> dict[str, Any]:
    """A quantity whose dimension has a base outside the seven SI base dimensions (information: bit, byte, exported by
    symplyphysics.units): dropping or adding that base is an inequivalent conversion and must be refused; bit <-> byte is
    an equivalent one with the factor 8."""
    return {"kind": "foreignbase", "info": draw(st.sampled_from(["bit", "byte"])), "iexp": draw(st.sampled_from([1, 1, -1, 2])),
        "unit": draw(st.sampled_from(sorted(MU.TABLE))), "uexp": draw(st.sampled_from([-1, 0, 1, 1])),
        "num": draw(st.integers(2, 999)), "mode": draw(st.sampled_from(["drop", "add", "float", "same"]))}


@st.composite
def case_strategy(draw: Any) -> dict[str, Any]:
    kind = draw(st.sampled_from(["conv"] * 12 + ["eval"] * 5 + ["celsius"] * 3 + ["floatexp"] * 2 + ["foreignbase"] * 2))
    if kind == "floatexp":
        return draw(floatexp_case())
    if kind == "foreignbase":
        return draw(foreignbase_case())
    if kind == "conv":
        return draw(conv_case())
    if kind == "eval":
        return draw(eval_case())
    return draw(celsius_case())


# ------------------------------------------------------------------------------------------------
# model helpers


def mag_model(m: Any) -> Any:
    """Exact SymPy number denoted by a magnitude description."""
    if m[0] == "int":
        return sympy.Integer(m[1])
    if m[0] == "rat":
        return sympy.Rational(m[1])
    if m[0] == "float":
        return sympy.Rational(float(m[1]))  # exact binary value of the float
    if m[0] == "cplx":
        return sympy.Rational(m[1]) + sympy.Rational(m[2]) * sympy.I
    raise ValueError(m)


def mag_lib(m: Any) -> Any:
    """The object a caller would write."""
    if m[0] == "int":
        return int(m[1])
    if m[0] == "rat":
        return sympy.Rational(m[1])
    if m[0] == "float":
        return float(m[1])
    if m[0] == "cplx":
        return sympy.Rational(m[1]) + sympy.Rational(m[2]) * sympy.I
    raise ValueError(m)


def mag_is_float(m: Any) -> bool:
    return m[0] == "float"


def mag_trivial(m: Any) -> bool:
    return m[0] != "cplx" and mag_model(m) in (0, 1)


def _close(got: Any, want: Any, tol: Any) -> bool:
    """|got - want| <= tol * |want| evaluated at 50 digits (want == 0 -> got must vanish to tol absolute 0)."""
    try:
        # evaluate each side numerically FIRST (a symbolic Abs of a 15-digit Float expression cancels badly)
        g = sympy.N(sympy.sympify(got), 60)
        w = sympy.N(sympy.sympify(want), 60)
        diff = sympy.Abs(g - w)
        ref = sympy.Abs(w)
    except Exception:  # pylint: disable=broad-except
        return False
    if not (diff.is_number and diff.is_real):
        return False
    return bool(diff <= tol * ref)


def _same_exact(got: Any, want: Any) -> bool:
    got = sympy.sympify(got)
    if got.has(sympy.Float):
        return False
    if got.is_Rational and want.is_Rational:
        return bool(got == want)
    return _close(got, want, TOL_EXACT)


def _refusal(exc: BaseException) -> bool:
    from symplyphysics.core.errors import UnitsError
    return isinstance(exc, (UnitsError, TypeError)) and not isinstance(exc, AssertionError)


def _exc(exc: BaseException) -> str:
    return f"{type(exc).__name__}: {str(exc)[:160]}"


# ------------------------------------------------------------------------------------------------
# conv


def judge_conv(case: dict[str, Any], excluded: frozenset[str] = frozenset()) -> tuple[list[tuple[str, str]], list[str]]:
    # pylint: disable=too-many-locals,too-many-branches,too-many-statements
    from symplyphysics import Quantity
    from symplyphysics.core.convert import convert_to, convert_to_float, convert_to_si
    out: list[tuple[str, str]] = []
    labels: list[str] = []
    mag, A, B, C, D = case["mag"], case["A"], case["B"], case["C"], case["D"]
    m = mag_model(mag)
    d = UX.dim(A)
    fa, fb, fc = UX.factor(A), UX.factor(B), UX.factor(C)
    si = m * fa
    exact = not mag_is_float(mag) and all(UX.is_exact(t) for t in (A, B, C))
    labels.append("conv:exact" if exact else "conv:inexact")
    labels.append("mag:" + ("zero" if m == 0 else mag[0]))
    la, lb, lc = UX.build(A), UX.build(B), UX.build(C)
    desc = f"{mag[1:]} {UX.text(A)}"

    def same(got: Any, want: Any) -> bool:
        if exact:
            return _same_exact(got, want)
        return _close(got, want, TOL_INEXACT)

    def fail(key: str, what: str) -> None:
        out.append((key, what))

    # the source quantity, as real callers build it
    try:
        q = Quantity(mag_lib(mag) * la)
        value: Any = (mag_lib(mag) * la) if case.get("raw") else q
    except Exception as exc:  # pylint: disable=broad-except
        return [("Quantity:exception:" + type(exc).__name__, f"Quantity({desc}) raised {_exc(exc)}")], labels
    labels.append("value:raw-expr" if case.get("raw") else "value:Quantity")

    # (a) n * unit == quantity, for two independent targets
    ns: dict[str, Any] = {}
    for name, terms, lu, f in (("B", B, lb, fb), ("C", C, lc, fc)):
        try:
            n = convert_to(value, lu)
        except Exception as exc:  # pylint: disable=broad-except
            fail("convert_to:exception:" + type(exc).__name__,
                f"convert_to({desc}, {UX.text(terms)}) raised {_exc(exc)} although both have dimension {d.text()}")
            continue
        ns[name] = n
        want = si / f
        if not same(n, want):
            fail("convert_to:value", f"convert_to({desc}, {UX.text(terms)}) = {n}, model {want} "
                f"(= {sympy.N(want, 20)}); exact={exact}")
            continue
        # n * unit equals the quantity (SI value through the library's own SI route)
        try:
            back = convert_to_si(Quantity(n * lu))
            if not same(back, si):
                fail("convert_to:n-times-unit", f"Quantity(convert_to(q,u)*u) has SI value {back}, q has {si}; "
                    f"q={desc} u={UX.text(terms)}")
            # invertible: back to the quantity's own unit returns the original magnitude
            if fa != 0:
                own = convert_to(Quantity(n * lu), la)
                if not same(own, m):
                    fail("convert_to:roundtrip", f"convert_to(convert_to(q,u)*u, own unit) = {own}, magnitude {m}; "
                        f"q={desc} u={UX.text(terms)}")
        except Exception as exc:  # pylint: disable=broad-except
            fail("convert_to:exception:" + type(exc).__name__, f"round trip of {desc} via {UX.text(terms)} raised {_exc(exc)}")
    # (c) composition a->b->c == a->c
    if "B" in ns and "C" in ns:
        try:
            bc = convert_to(lb, lc)
            if not same(ns["B"] * bc, si / fc):
                fail("convert_to:composition", f"convert_to(q,b)*convert_to(b,c) = {ns['B'] * bc} but model a->c = {si / fc}; "
                    f"q={desc} b={UX.text(B)} c={UX.text(C)}")
        except Exception as exc:  # pylint: disable=broad-except
            fail("convert_to:exception:" + type(exc).__name__, f"convert_to({UX.text(B)}, {UX.text(C)}) raised {_exc(exc)}")
    # (h) linearity
    if "B" in ns:
        k = sympy.Rational(case["k"])
        try:
            nk = convert_to(Quantity(k * q), lb)
            if not same(nk, k * si / fb):
                fail("convert_to:linearity", f"convert_to(k*q, u) = {nk}, k*model = {k * si / fb}; k={k} q={desc} u={UX.text(B)}")
        except Exception as exc:  # pylint: disable=broad-except
            fail("convert_to:exception:" + type(exc).__name__, f"convert_to({k}*q, ...) raised {_exc(exc)}; q={desc}")
    # (e) SI value and scale factor
    try:
        got_si = convert_to_si(value)
        if not same(got_si, si):
            fail("convert_to_si:value", f"convert_to_si({desc}) = {got_si}, model {si} (= {sympy.N(si, 20)})")
        want_scale = MU.sympy_scale(si, d)
        if not same(q.scale_factor, want_scale):
            fail("convert_to_si:scale_factor", f"Quantity({desc}).scale_factor = {q.scale_factor}, "
                f"model SI*1000**mass_exponent = {want_scale}")
    except Exception as exc:  # pylint: disable=broad-except
        fail("convert_to_si:exception:" + type(exc).__name__, f"convert_to_si({desc}) raised {_exc(exc)}")
    # (f) convert_to_float
    if mag[0] != "cplx":
        if d.is_dimensionless:
            labels.append("float:dimensionless")
            try:
                fl = convert_to_float(value)
                if not isinstance(fl, float) or not _close(sympy.Rational(fl) if fl == fl and abs(fl) != float("inf")
                    else sympy.nan, si, TOL_INEXACT):
                    fail("convert_to_float:value", f"convert_to_float({desc}) = {fl!r}, model {sympy.N(si, 20)}")
            except Exception as exc:  # pylint: disable=broad-except
                fail("convert_to_float:exception:" + type(exc).__name__, f"convert_to_float({desc}) raised {_exc(exc)}")
        elif m != 0:
            try:
                fl = convert_to_float(value)
                fail("convert_to_float:not-refused", f"convert_to_float({desc}) returned {fl!r} for dimension {d.text()}")
            except Exception as exc:  # pylint: disable=broad-except
                if not _refusal(exc):
                    fail("convert_to_float:wrong-exception:" + type(exc).__name__, f"convert_to_float({desc}) raised {_exc(exc)}")
    # (g) refusal for an inequivalent target
    ld = UX.build(D)
    dd = UX.dim(D)
    assert not dd.same(d)
    labels.append("ineq:" + case.get("Dclass", "?"))
    if m != 0:
        try:
            n = convert_to(value, ld)
            fail("convert_to:not-refused", f"convert_to({desc}, {UX.text(D)}) returned {n}; dimensions {d.text()} vs {dd.text()}")
        except Exception as exc:  # pylint: disable=broad-except
            if _refusal(exc):
                labels.append("refused:" + type(exc).__name__)
            else:
                fail("convert_to:wrong-exception:" + type(exc).__name__,
                    f"convert_to({desc}, {UX.text(D)}) raised {_exc(exc)} instead of UnitsError/TypeError")
    else:
        # zero magnitude: the library-wide wildcard rule lets zero have any dimension, the property
        # text says "refused"; neither outcome is judged.  What IS judged: the outcome must not depend
        # on whether the zero is written 0 or 0.0 (same quantity), and an accepted zero converts to 0.
        labels.append("ineq:zero-magnitude")
        if KEY_FZ in excluded:
            labels.append("excluded:" + KEY_FZ)
        elif not d.is_dimensionless:
            outcomes = {}
            for tag, z in (("int", 0), ("float", 0.0)):
                try:
                    n = convert_to(Quantity(z, dimension=d.to_lib()), ld)
                    outcomes[tag] = "accepted"
                    if n != 0:
                        fail("convert_to:zero-value", f"convert_to(Quantity({z!r}, dimension={d.text()}), {UX.text(D)}) = {n}")
                except Exception as exc:  # pylint: disable=broad-except
                    outcomes[tag] = "refused" if _refusal(exc) else "error:" + type(exc).__name__
            labels.append("zero-int:" + outcomes["int"])
            labels.append("zero-float:" + outcomes["float"])
            if outcomes["int"] != outcomes["float"]:
                fail(KEY_FZ, f"convert_to(Quantity(0, dimension={d.text()}), {UX.text(D)}) is {outcomes['int']} but the same "
                    f"call with 0.0 is {outcomes['float']}: a float zero is not recognised as the any-dimension zero")
    return out, labels


def conv_nontrivial(case: dict[str, Any]) -> bool:
    if mag_trivial(case["mag"]):
        return False
    return any(not UX.is_plain(t) for t in (case["A"], case["B"], case["C"]))


# ------------------------------------------------------------------------------------------------
# eval


class _Discard(Exception):
    pass


def _mp(x: Any) -> Any:
    x = sympy.sympify(x)
    re_, im_ = x.as_real_imag()
    r = MPX.mpf(str(sympy.N(re_, 70)))
    if im_ == 0:
        return r
    return MPX.mpc(r, MPX.mpf(str(sympy.N(im_, 70))))


def _eval_tree(t: Any, qv: list[Any], uv: list[Any], xv: list[Any]) -> tuple[Any, Any]:
    """(value, abs-scale) of the JSON tree; abs-scale bounds the first-order effect of relative leaf errors."""
    op = t[0]
    if op == "q":
        v = qv[t[1]]
        return v, abs(v)
    if op == "u":
        v = uv[t[1]]
        return v, abs(v)
    if op == "x":
        v = xv[t[1]]
        return v, abs(v)
    if op == "num":
        v = _mp(sympy.Rational(t[1]))
        return v, abs(v)
    if op == "neg":
        v, s = _eval_tree(t[1], qv, uv, xv)
        return -v, s
    if op == "add":
        a, sa = _eval_tree(t[1], qv, uv, xv)
        b, sb = _eval_tree(t[2], qv, uv, xv)
        return a + b, sa + sb
    if op == "mul":
        a, sa = _eval_tree(t[1], qv, uv, xv)
        b, sb = _eval_tree(t[2], qv, uv, xv)
        return a * b, sa * sb
    if op == "pow":
        a, sa = _eval_tree(t[1], qv, uv, xv)
        n = t[2]
        if n > 0:
            return a**n, sa**n
        if a == 0 or sa > 1000 * abs(a):
            raise _Discard("zero or cancelling denominator")
        return a**n, abs(a**n) * (sa / abs(a))**(-n)
    if op == "sin":
        a, sa = _eval_tree(t[1], qv, uv, xv)
        if abs(a) > 1000:
            raise _Discard("large sin argument")
        v = MPX.sin(a)
        return v, max(abs(v), sa)
    raise ValueError(op)


def _build_tree(t: Any, ql: list[Any], ul: list[Any], xl: list[Any]) -> Any:
    op = t[0]
    b = lambda s: _build_tree(s, ql, ul, xl)  # noqa: E731  pylint: disable=unnecessary-lambda-assignment
    if op == "q":
        return ql[t[1]]
    if op == "u":
        return ul[t[1]]
    if op == "x":
        return xl[t[1]]
    if op == "num":
        return sympy.Rational(t[1])
    if op == "neg":
        return -b(t[1])
    if op == "add":
        return b(t[1]) + b(t[2])
    if op == "mul":
        return b(t[1]) * b(t[2])
    if op == "pow":
        return b(t[1])**t[2]
    if op == "sin":
        return sympy.sin(b(t[1]))
    raise ValueError(op)


def _leaves(t: Any, out: list[Any]) -> None:
    if t[0] in ("q", "u", "x", "num"):
        out.append(t)
        return
    for c in t[1:]:
        if isinstance(c, list):
            _leaves(c, out)


def judge_eval(case: dict[str, Any]) -> tuple[list[tuple[str, str]], list[str]]:
    # pylint: disable=too-many-locals
    from sympy.physics.units import Quantity as SymQuantity
    from symplyphysics import Quantity, Symbol, units
    from symplyphysics.core.convert import evaluate_expression
    out: list[tuple[str, str]] = []
    labels: list[str] = []
    qs, us, tree = case["Q"], case["U"], case["tree"]
    ql = [Quantity(mag_lib(q["mag"]) * UX.build(q["A"])) for q in qs]
    ul = [MU.lib_unit(n) for n in us]
    xl = [sympy.Symbol("x"), Symbol("y", units.length)]
    qsi = [mag_model(q["mag"]) * UX.factor(q["A"]) for q in qs]
    usi = [MU.factor(n) for n in us]
    env = [sympy.Rational(e) for e in case["env"]]
    exact = all(not mag_is_float(q["mag"]) and UX.is_exact(q["A"]) for q in qs) and all(MU.exact(n) for n in us)
    labels.append("eval:exact" if exact else "eval:inexact")
    try:
        want, scale = _eval_tree(tree, [_mp(v) for v in qsi], [_mp(v) for v in usi], [_mp(v) for v in env])
    except _Discard as exc:
        return [("__discard__", str(exc))], labels + ["eval:discard-illconditioned"]
    except ZeroDivisionError:
        return [("__discard__", "model division by zero")], labels + ["eval:discard-zero-division"]
    try:
        expr = _build_tree(tree, ql, ul, xl)
    except ZeroDivisionError:
        return [("__discard__", "division by zero")], labels + ["eval:discard-zero-division"]
    expr = sympy.sympify(expr)
    if expr.has(sympy.zoo, sympy.nan):
        return [("__discard__", "zoo")], labels + ["eval:discard-zero-division"]
    present = expr.atoms(SymQuantity)
    labels.append(f"eval:quantities-present={min(len(present), 3)}")
    for mode, kw, tol in (("plain", {}, MPX.mpf(10)**-25 if exact else MPX.mpf(10)**-12),
        ("evaluate", {"evaluate": True}, MPX.mpf(10)**-12)):
        try:
            res = evaluate_expression(expr, **kw)
        except Exception as exc:  # pylint: disable=broad-except
            out.append(("evaluate_expression:exception:" + type(exc).__name__,
                f"evaluate_expression({expr}, {kw}) raised {_exc(exc)}"))
            continue
        res = sympy.sympify(res)
        left = res.atoms(SymQuantity)
        if left:
            out.append(("evaluate_expression:quantities-left", f"evaluate_expression({expr}, {kw}) = {res} still contains {left}"))
            continue
        try:
            val = res.evalf(60, subs={xl[0]: env[0], xl[1]: env[1]})
            if val.free_symbols:
                raise TypeError("free symbols left: " + str(val.free_symbols))
            got = _mp(val)
        except Exception as exc:  # pylint: disable=broad-except
            if res.has(sympy.zoo, sympy.nan):
                labels.append("eval:discard-zero-division")
                continue
            out.append(("evaluate_expression:not-numeric", f"evaluate_expression({expr}, {kw}) = {res} does not evaluate under "
                f"x={env[0]}, y={env[1]}: {_exc(exc)}"))
            continue
        if abs(got - want) > tol * scale:
            out.append((f"evaluate_expression:value:{mode}", f"evaluate_expression({expr}, {kw}) = {res}; at x={env[0]}, y={env[1]} it is "
                f"{MPX.nstr(got, 25)} but the expression is worth {MPX.nstr(want, 25)} (tolerance {MPX.nstr(tol, 3)} x "
                f"scale {MPX.nstr(scale, 5)})"))
    return out, labels


def eval_nontrivial(case: dict[str, Any]) -> bool:
    lv: list[Any] = []
    _leaves(case["tree"], lv)
    has_x = any(l[0] == "x" for l in lv)
    good = False
    for l in lv:
        if l[0] == "q":
            q = case["Q"][l[1]]
            if not mag_trivial(q["mag"]) and not UX.is_plain(q["A"]):
                good = True
        if l[0] == "u" and case["U"][l[1]] not in UX.SI_BASE:
            good = True
    return has_x and good


# ------------------------------------------------------------------------------------------------
# celsius


def judge_celsius(case: dict[str, Any]) -> tuple[list[tuple[str, str]], list[str]]:
    # pylint: disable=too-many-locals
    from symplyphysics import Quantity
    from symplyphysics.core.convert import convert_to_si
    from symplyphysics.core.symbols.celsius import (Celsius, from_kelvin, from_kelvin_quantity, to_kelvin,
        to_kelvin_quantity)
    from ..model.dims import from_lib
    out: list[tuple[str, str]] = []
    x = mag_lib(case["x"])
    xm = mag_model(case["x"])
    off = sympy.Rational("273.15")
    tol = sympy.Rational(1, 10**9) * (abs(xm) + off)
    labels = ["celsius:" + case["x"][0], "celsius:prefix=" + case["prefix"][0]]

    def near(got: Any, want: Any) -> bool:
        try:
            g = sympy.Rational(float(got))
        except (TypeError, ValueError, OverflowError):
            return False
        return bool(abs(g - want) <= tol)

    try:
        k = to_kelvin(Celsius(x))
        if not near(k, xm + off):
            out.append(("celsius:offset", f"to_kelvin(Celsius({x!r})) = {k!r}, expected {x!r} + 273.15"))
        back = from_kelvin(k).value
        if not near(back, xm):
            out.append(("celsius:roundtrip", f"from_kelvin(to_kelvin(Celsius({x!r}))).value = {back!r}"))
        # the other direction: a kelvin value T -> Celsius -> kelvin
        k2 = to_kelvin(from_kelvin(x))
        if not near(k2, xm):
            out.append(("celsius:roundtrip", f"to_kelvin(from_kelvin({x!r})) = {k2!r}"))
        c2 = from_kelvin(x).value
        if not near(c2, xm - off):
            out.append(("celsius:offset", f"from_kelvin({x!r}).value = {c2!r}, expected {x!r} - 273.15"))
        q = to_kelvin_quantity(Celsius(x))
        si = convert_to_si(q)
        if not near(si, xm + off) or not from_lib(q.dimension).same(MU.K):
            out.append(("celsius:quantity", f"to_kelvin_quantity(Celsius({x!r})) = {si} K-ish with dimension {q.dimension}"))
        back = from_kelvin_quantity(q).value
        if not near(back, xm):
            out.append(("celsius:quantity-roundtrip", f"from_kelvin_quantity(to_kelvin_quantity(Celsius({x!r}))).value = {back!r}"))
        # the same temperature written in a prefixed kelvin unit
        term = ["kelvin", case["prefix"], "1"]
        f = UX.factor([term])
        mag = (xm + off) / f
        qp = Quantity((mag if UX.is_exact([term]) else float(mag)) * UX.build([term]))
        back = from_kelvin_quantity(qp).value
        if not near(back, xm):
            out.append(("celsius:prefixed-kelvin", f"from_kelvin_quantity(Quantity({sympy.N(mag, 17)} * {UX.text([term])})).value = "
                f"{back!r}, expected {x!r}"))
        # the same temperature as a quantity that got its dimension from the dimension= keyword (a bare number of kelvins),
        # as evaluate_quantity / Abs / vector components produce them
        from sympy.physics import units as _su
        qd = Quantity(float(xm + off) if case["x"][0] == "float" else xm + off, dimension=_su.temperature)
        back = from_kelvin_quantity(qd).value
        if not near(back, xm):
            out.append(("celsius:dimension-keyword-quantity", f"from_kelvin_quantity(Quantity({sympy.N(xm + off, 17)}, "
                f"dimension=temperature)).value = {back!r}, expected {x!r}"))
        # one Celsius object over its history: converted, set to another temperature through its public attribute,
        # converted again - every conversion reflects the temperature the object holds at that moment
        if case.get("x2") is not None:
            y = mag_lib(case["x2"])
            ym = mag_model(case["x2"])
            tol = sympy.Rational(1, 10**9) * (abs(ym) + abs(xm) + off)
            c = Celsius(x)
            first = (to_kelvin(c), convert_to_si(to_kelvin_quantity(c)))
            if not near(first[0], xm + off) or not near(first[1], xm + off):
                out.append(("celsius:history-first", f"one object Celsius({x!r}): to_kelvin {first[0]!r}, to_kelvin_quantity {first[1]}"))
            c.value = y
            labels.append("celsius:reassigned")
            k = to_kelvin(c)
            q = to_kelvin_quantity(c)
            si = convert_to_si(q)
            if not near(k, ym + off) or not near(si, ym + off):
                out.append(("celsius:history-reassigned", f"c = Celsius({x!r}) converted, then c.value = {y!r}: to_kelvin(c) = {k!r}, "
                    f"to_kelvin_quantity(c) = {si} K, expected {y!r} + 273.15"))
            back = from_kelvin_quantity(to_kelvin_quantity(c)).value
            if not near(back, ym):
                out.append(("celsius:history-roundtrip", f"c = Celsius({x!r}) converted, then c.value = {y!r}: "
                    f"from_kelvin_quantity(to_kelvin_quantity(c)).value = {back!r}"))
    except Exception as exc:  # pylint: disable=broad-except
        out.append(("celsius:exception:" + type(exc).__name__, f"Celsius helpers raised {_exc(exc)} for x={x!r}"))
    return out, labels


# ------------------------------------------------------------------------------------------------
# dispatcher / driver


def judge_floatexp(case: dict[str, Any]) -> tuple[list[tuple[str, str]], list[str]]:
    import sympy
    from symplyphysics import Quantity, convert_to
    out: list[tuple[str, str]] = []
    e = sympy.Rational(case["exp"])
    u = MU.lib_unit(case["unit"])
    q_expr = case["num"] * u**sympy.Float(float(e))
    desc = f"Quantity({case['num']}*{case['unit']}**{float(e)})"
    tk = case["target"]
    trunc = int(e) if e > 0 else -int(-e)
    away = trunc + (1 if e > 0 else -1)
    target = {"trunc": u**trunc if trunc else sympy.S.One, "round-away": u**away, "number": sympy.S.One, "same-unit": u}[tk]
    texp = {"trunc": trunc, "round-away": away, "number": 0, "same-unit": 1}[tk]
    if (MU.dim(case["unit"])**e).same(MU.dim(case["unit"])**texp):
        return out, ["floatexp:degenerate"]
    labels = ["floatexp:" + tk]
    try:
        q = Quantity(q_expr)
    except Exception as exc:  # pylint: disable=broad-except
        return out, labels + ["floatexp:construction-refused:" + type(exc).__name__]
    try:
        n = convert_to(q, target)
        out.append(("convert_to:not-refused:float-exponent", f"convert_to({desc}, {target}) returned {n} although the dimensions are "
            f"inequivalent ({case['unit']}**{e} vs {target})"))
    except Exception as exc:  # pylint: disable=broad-except
        if _refusal(exc):
            labels.append("refused:" + type(exc).__name__)
        else:
            out.append(("convert_to:wrong-exception:" + type(exc).__name__, f"convert_to({desc}, {target}) raised {_exc(exc)}"))
    return out, labels


def judge_foreignbase(case: dict[str, Any]) -> tuple[list[tuple[str, str]], list[str]]:
    import sympy
    from sympy.physics import units as su
    from symplyphysics import Quantity, convert_to, convert_to_float
    out: list[tuple[str, str]] = []
    info = getattr(su, case["info"])
    other = su.byte if case["info"] == "bit" else su.bit
    u = MU.lib_unit(case["unit"])**case["uexp"] if case["uexp"] else sympy.S.One
    mode = case["mode"]
    labels = ["foreignbase:" + mode]
    with_info = case["num"] * info**case["iexp"] * u
    without = case["num"] * u
    udesc = f"{case['unit']}**{case['uexp']}" if case["uexp"] else "1"
    try:
        if mode == "drop":
            call = f"convert_to(Quantity({case['num']}*{case['info']}**{case['iexp']}*{udesc}), {udesc})"
            q = Quantity(with_info)
            n = convert_to(q, u)
        elif mode == "add":
            call = f"convert_to(Quantity({case['num']}*{udesc}), {case['info']}**{case['iexp']}*{udesc})"
            q = Quantity(without)
            n = convert_to(q, info**case["iexp"] * u)
        elif mode == "float":
            call = f"convert_to_float(Quantity({case['num']}*{case['info']}**{case['iexp']}))"
            q = Quantity(case["num"] * info**case["iexp"])
            n = convert_to_float(q)
        else:
            call = f"convert_to(Quantity({case['num']}*{case['info']}**{case['iexp']}*{udesc}), {other}**{case['iexp']}*{udesc})"
            q = Quantity(with_info)
            n = convert_to(q, other**case["iexp"] * u)
            factor = sympy.Rational(8 if case["info"] == "byte" else sympy.Rational(1, 8))**case["iexp"]
            want = case["num"] * factor
            got = sympy.nsimplify(n, rational=True) if MU.exact(case["unit"]) else sympy.sympify(n)
            if abs(sympy.N(got - want, 30)) > sympy.Float("1e-12") * abs(want):
                out.append(("convert_to:value:information-units", f"{call} returned {n}, expected {want}"))
            return out, labels
        out.append(("convert_to:not-refused:foreign-base-dimension", f"{call} returned {n} although the dimensions differ by a power "
            f"of the base dimension 'information'"))
    except Exception as exc:  # pylint: disable=broad-except
        if mode == "same":
            out.append(("convert_to:raised:information-units", f"{call} raised {_exc(exc)} for an equivalent target"))
        elif _refusal(exc):
            labels.append("refused:" + type(exc).__name__)
        else:
            out.append(("convert_to:wrong-exception:" + type(exc).__name__, f"{call} raised {_exc(exc)}"))
    return out, labels


def judge(case: dict[str, Any], excluded: frozenset[str] = frozenset()) -> tuple[list[tuple[str, str]], list[str], bool]:
    kind = case["kind"]
    if kind == "foreignbase":
        res, labels = judge_foreignbase(case)
        return res, labels, True
    if kind == "floatexp":
        res, labels = judge_floatexp(case)
        return res, labels, True
    if kind == "conv":
        res, labels = judge_conv(case, excluded)
        return res, labels, conv_nontrivial(case)
    if kind == "eval":
        res, labels = judge_eval(case)
        return res, labels, eval_nontrivial(case)
    if kind == "celsius":
        res, labels = judge_celsius(case)
        return res, labels, not mag_trivial(case["x"])
    raise ValueError(kind)


def _shard(task: dict[str, Any]) -> Recorder:
    rec = Recorder()
    excluded = frozenset(task["excluded"])

    def body(case: dict[str, Any]) -> None:
        res, labels, nt = judge(case, excluded)
        labels = [case["kind"]] + labels
        discarded = False
        for key, what in res:
            if key.startswith("__"):
                discarded = True
            else:
                rec.violation(key, what, case)
        if case["kind"] == "conv":
            for t in (case["A"], case["B"], case["C"]):
                if any(p.startswith("S:") for _n, p, _e in t):
                    labels.append("unit:sym-prefix")
                if any(p[:2] in ("P:", "R:") for _n, p, _e in t):
                    labels.append("unit:sympy-prefix")
                if any(n in UX.DERIVED for n, _p, _e in t):
                    labels.append("unit:derived")
                if any(MU.dim(n)[1] != 0 for n, _p, _e in t):
                    labels.append("unit:has-mass")
                if any(e == "1/2" for _n, _p, e in t):
                    labels.append("unit:half-power")
            labels = sorted(set(labels))
        rec.case(case, nontrivial=nt and not discarded, labels=labels)

    hyp_run(case_strategy(), body, task["n"], task["seed"])
    return rec


def run(ctx: Ctx) -> None:
    MU.selfcheck()
    n = int(os.environ.get("VERIF_N", "0") or 0) or ctx.pick(4000, 100000)  # VERIF_N: development override only
    excluded = sorted({k["key"] for k in ctx.known if k.get("status") == "open"} & {KEY_FZ})
    tasks = [{"n": c, "seed": ctx.seed * 1000 + i, "excluded": excluded} for i, c in enumerate(shard_counts(n, 16))]
    import symplyphysics  # noqa: F401  pylint: disable=unused-import,import-outside-toplevel
    for status, val in run_tasks(_shard, tasks):
        if status != "ok":
            raise RuntimeError(f"C07 shard failed: {status}: {val}")
        ctx.merge(val)
    ctx.assumptions += [
        "the hand-typed SI factors of vp/model/units.py (checked against SymPy's own unit definitions by selfcheck()) are the meaning of the units",
        "mass is stored in grams by SymPy: scale_factor == SI value * 1000**mass_exponent",
        "zero magnitude converted to an inequivalent unit is not judged on refusal (wildcard rule vs. property text); only "
        "0 versus 0.0 consistency is",
        "float cases (float magnitude, symplyphysics negative-power prefixes, year, electronvolt) are compared at 1e-12 relative; "
        "all-rational cases exactly",
    ]
    if excluded:
        ctx.notes["excluded_input_classes"] = excluded
    known = {k["key"] for k in ctx.known}
    seen: set[str] = set()
    ex = frozenset(excluded)
    for v in list(ctx.violations):
        key = v["key"]
        if key in seen or key in known:
            continue
        seen.add(key)
        small = shrink(v["case"], _candidates, lambda c, key=key: any(k == key for k, _ in judge(c, ex)[0]),
            budget_s=ctx.pick(15, 60))
        res = [w for k, w in judge(small, ex)[0] if k == key]
        if res:
            ctx.violation(key, res[0], small)


_SIMPLE_MAGS = [["int", 2], ["int", 3], ["rat", "3/2"], ["float", "2.5"]]


def _candidates(case: dict[str, Any]) -> Any:
    # pylint: disable=too-many-branches
    kind = case["kind"]
    if kind == "conv":
        for which in ("B", "C"):
            if case[which] != case["A"]:
                yield {**case, which: case["A"]}
        for which in ("A", "B", "C", "D"):
            terms = case[which]
            for i, t in enumerate(terms):
                if t[1]:
                    yield {**case, which: terms[:i] + [[t[0], "", t[2]]] + terms[i + 1:]}
        # drop a whole term of A (B, C follow A so that the case stays well-formed)
        for i in range(len(case["A"])):
            a2 = case["A"][:i] + case["A"][i + 1:]
            if a2 and not UX.dim(a2).same(UX.dim(case["D"])):
                yield {**case, "A": a2, "B": a2, "C": a2}
        for mg in _SIMPLE_MAGS:
            if case["mag"] != mg and case["mag"][0] != "int":
                yield {**case, "mag": mg}
        if case["k"] != "2/1":
            yield {**case, "k": "2/1"}
        if case.get("raw"):
            yield {**case, "raw": False}
    elif kind == "eval":
        tree = case["tree"]
        for p in paths(tree):
            node = get_at(tree, p)
            if not isinstance(node, list) or node[0] in ("q", "u", "x", "num"):
                continue
            for c in node[1:]:
                if isinstance(c, list):
                    yield {**case, "tree": replace_at(tree, p, c)}
        for i, q in enumerate(case["Q"]):
            for j, t in enumerate(q["A"]):
                if t[1]:
                    q2 = {**q, "A": q["A"][:j] + [[t[0], "", t[2]]] + q["A"][j + 1:]}
                    yield {**case, "Q": case["Q"][:i] + [q2] + case["Q"][i + 1:]}
            if len(q["A"]) > 1:
                q2 = {**q, "A": q["A"][:1]}
                yield {**case, "Q": case["Q"][:i] + [q2] + case["Q"][i + 1:]}
            for mg in _SIMPLE_MAGS:
                if q["mag"] != mg and q["mag"][0] != "int":
                    yield {**case, "Q": case["Q"][:i] + [{**q, "mag": mg}] + case["Q"][i + 1:]}
    elif kind == "celsius":
        for mg in (["int", 10], ["float", "12.5"]):
            if case["x"] != mg:
                yield {**case, "x": mg}


def replay(case: dict[str, Any]) -> list[tuple[str, str]]:
    return [(k, w) for k, w in judge(case)[0] if not k.startswith("__")]
