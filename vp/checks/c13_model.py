"""Harness-owned closed forms for C13 (no symplyphysics import in this file).

Everything the oracle needs is computed here from the plain-JSON case description with textbook formulas:
the field as SymPy polynomials (+ at most one sin/cos(kappa*v) factor) in the harness' own symbols, its
divergence / curl by sympy.diff, and the integrals over discs/ellipses (with flat, tilted, paraboloid or
cone caps), axis-aligned rectangles (flat or tilted), boxes, full cylindrical shells and full spherical
shells, *monomial by monomial*:

    int_0^1 u^k du = 1/(k+1)
    W(m, n) = int_0^{2 pi} cos^m sin^n dt = 2 pi (m-1)!! (n-1)!! / (m+n)!!   (m, n even; else 0)
    V(a, b) = int_0^pi sin^a cos^b dphi = Gamma((a+1)/2) Gamma((b+1)/2) / Gamma((a+b)/2 + 1)  (b even; else 0)
    int v^m dv, int v^m sin(kappa v) dv, int v^m cos(kappa v) dv   (integration by parts recursion)

sympy.integrate is never called.  Each theorem's truth is computed twice (region side and boundary side);
`truth()` raises if the two disagree (that would be a harness defect, never a verdict about the library).
"""
from __future__ import annotations

from typing import Any

import sympy
from sympy import Rational, S, cos, pi, sin

X, Y, Z = sympy.symbols("hx hy hz", real=True)
U, T_ = sympy.symbols("hu ht", real=True)
CT, ST = sympy.symbols("hc hs", real=True)  # cos t, sin t as polynomial generators
CP, SP = sympy.symbols("hcp hsp", real=True)  # cos phi, sin phi
SG, CG = sympy.symbols("hSG hCG", real=True)  # sin(kappa v), cos(kappa v)
RR, TH, PH = sympy.symbols("hr hth hph", real=True)
K = sympy.Symbol("k", real=True)  # generic field coefficient (shared with the library side by name)
RAD = sympy.Symbol("R", positive=True)  # generic radius


def rat(text: Any) -> Any:
    if text == "R":
        return RAD
    return Rational(text)


# ------------------------------------------------------------------------------------------------
# elementary integrals


def dfact(n: int) -> int:
    out = 1
    while n > 1:
        out *= n
        n -= 2
    return out


def W(m: int, n: int) -> Any:
    if m % 2 or n % 2:
        return S.Zero
    return 2 * pi * Rational(dfact(m - 1) * dfact(n - 1), dfact(m + n))


def V(a: int, b: int) -> Any:
    if b % 2:
        return S.Zero
    g = sympy.gamma
    return sympy.simplify(g(Rational(a + 1, 2)) * g(Rational(b + 1, 2)) / g(Rational(a + b, 2) + 1))


def int_pow(m: int, lo: Any, hi: Any) -> Any:
    if m == -1:
        return sympy.log(hi) - sympy.log(lo)
    return (hi**(m + 1) - lo**(m + 1)) / (m + 1)


def _anti_trig(m: int, kind: str, kappa: Any, v: Any) -> Any:
    """Antiderivative of v^m sin(kappa v) (kind 's') or v^m cos(kappa v) (kind 'c'), m >= 0."""
    if kind == "s":
        head = -v**m * cos(kappa * v) / kappa
        if m == 0:
            return head
        return head + Rational(m) / kappa * _anti_trig(m - 1, "c", kappa, v)
    head = v**m * sin(kappa * v) / kappa
    if m == 0:
        return head
    return head - Rational(m) / kappa * _anti_trig(m - 1, "s", kappa, v)


def int_1d(m: int, trig: str, kappa: Any, lo: Any, hi: Any) -> Any:
    if trig == "":
        return int_pow(m, lo, hi)
    w = sympy.Dummy("w")
    anti = _anti_trig(m, trig, kappa, w)
    return anti.subs(w, hi) - anti.subs(w, lo)


# ------------------------------------------------------------------------------------------------
# polynomial integrators


def _poly_terms(expr: Any, gens: tuple[Any, ...]) -> list[tuple[tuple[int, ...], Any]]:
    expr = sympy.expand(expr)
    if expr == 0:
        return []
    poly = sympy.Poly(expr, *gens)
    bad = poly.free_symbols_in_domain - {K, RAD}
    if bad:
        raise RuntimeError(f"harness integrand is not polynomial in the generators: {bad} in {expr}")
    return list(poly.terms())


def integrate_disc(expr: Any) -> Any:
    """int_0^{2pi} int_0^1 expr du dt for expr polynomial in U, CT = cos t, ST = sin t."""
    total = S.Zero
    for (ku, m, n), coef in _poly_terms(expr, (U, CT, ST)):
        total += coef * Rational(1, ku + 1) * W(m, n)
    return sympy.simplify(total)


def integrate_circle(expr: Any) -> Any:
    """int_0^{2pi} expr dt for expr polynomial in CT, ST."""
    total = S.Zero
    for (m, n), coef in _poly_terms(expr, (CT, ST)):
        total += coef * W(m, n)
    return sympy.simplify(total)


def integrate_box(expr: Any, ranges: dict[Any, tuple[Any, Any]], trig: Any = None) -> Any:
    """Integral of expr over the product of ranges {symbol: (lo, hi)}; expr is polynomial in those symbols
    times at most one factor sin/cos(kappa * v) with trig = (v, kappa)."""
    syms = tuple(ranges)
    if trig is not None and trig[0] not in ranges:
        trig = None  # the trigonometric variable is fixed on this face/edge: its sin/cos are plain numbers
    if trig is not None:
        tv, kappa = trig
        expr = sympy.expand(expr).subs({sin(kappa * tv): SG, cos(kappa * tv): CG})
    gens = syms + ((SG, CG) if trig is not None else ())
    total = S.Zero
    for powers, coef in _poly_terms(expr, gens):
        ps = powers[:len(syms)]
        kind = ""
        if trig is not None:
            i, j = powers[len(syms):]
            if i + j > 1:
                raise RuntimeError("harness integrand has a trigonometric factor of degree > 1")
            kind = "s" if i else ("c" if j else "")
        term = coef
        for sym, p in zip(syms, ps):
            lo, hi = ranges[sym]
            if trig is not None and sym == trig[0]:
                term *= int_1d(p, kind, trig[1], lo, hi)
            else:
                term *= int_pow(p, lo, hi)
        total += term
    return sympy.simplify(total)


# ------------------------------------------------------------------------------------------------
# field descriptions -> harness expressions


def comp_expr(comp: Any, v: Any, k: Any = K) -> Any:
    """Cartesian component: sum of c * x^i y^j z^l [* sin|cos(kappa * var)] [* k]."""
    total = S.Zero
    for term in comp:
        e = Rational(term["c"])
        for i, p in enumerate(term["p"]):
            if p:
                e = e * v[i]**p
        t = term.get("t")
        if t:
            e = e * {"sin": sin, "cos": cos}[t[0]](Rational(t[2]) * v[t[1]])
        if term.get("k"):
            e = e * k
        total += e
    return total


def curv_comp_expr(comp: Any, r: Any, th: Any, third: Any, sysname: str, k: Any = K) -> Any:
    """Curvilinear component: sum of c * r^i * cos^m(theta) sin^n(theta) * (z^j | cos^a(phi) sin^b(phi))."""
    total = S.Zero
    for term in comp:
        e = Rational(term["c"]) * r**term["r"] * cos(th)**term["ct"] * sin(th)**term["st"]
        if sysname == "cyl":
            e = e * third**term.get("z", 0)
        else:
            e = e * cos(third)**term.get("cp", 0) * sin(third)**term.get("sp", 0)
        if term.get("k"):
            e = e * k
        total += e
    return total


def field3(field: dict[str, Any]) -> list[Any]:
    comps = [comp_expr(c, (X, Y, Z)) for c in field["comps"]]
    return comps + [S.Zero] * (3 - len(comps))


def trig_of(field: dict[str, Any]) -> Any:
    """(variable symbol, kappa) of the single trigonometric factor of the field, or None."""
    found = set()
    for c in field["comps"]:
        for term in c:
            if term.get("t"):
                found.add((term["t"][1], term["t"][2]))
    if not found:
        return None
    if len(found) > 1:
        raise RuntimeError("more than one trigonometric argument in a field")
    (vi, kappa), = found
    return ((X, Y, Z)[vi], Rational(kappa))


def h_div(F: list[Any]) -> Any:
    return sympy.diff(F[0], X) + sympy.diff(F[1], Y) + sympy.diff(F[2], Z)


def h_curl(F: list[Any]) -> list[Any]:
    return [
        sympy.diff(F[2], Y) - sympy.diff(F[1], Z),
        sympy.diff(F[0], Z) - sympy.diff(F[2], X),
        sympy.diff(F[1], X) - sympy.diff(F[0], Y),
    ]


def _at(expr: Any, x: Any, y: Any, z: Any) -> Any:
    return sympy.sympify(expr).subs({X: x, Y: y, Z: z}, simultaneous=True)


# ------------------------------------------------------------------------------------------------
# regions


def disc_surface(region: dict[str, Any]) -> list[Any]:
    """[x, y, z](U, CT, ST) of the disc family."""
    a, b = rat(region["a"]), rat(region["b"])
    x, y = a * U * CT, b * U * ST
    cap = region["cap"]
    if cap[0] == "flat":
        z = Rational(cap[1])
    elif cap[0] == "tilt":
        z = Rational(cap[1]) * x + Rational(cap[2]) * y + Rational(cap[3])
    elif cap[0] == "parab":
        z = Rational(cap[1]) * (1 - U**2) + Rational(cap[2])
    elif cap[0] == "cone":
        z = Rational(cap[1]) * (1 - U) + Rational(cap[2])
    else:
        raise ValueError(cap)
    return [x, y, sympy.sympify(z)]


def _d_dt(expr: Any) -> Any:
    """d/dt of a polynomial in CT = cos t, ST = sin t (and U)."""
    return sympy.diff(expr, CT) * (-ST) + sympy.diff(expr, ST) * CT


def stokes_disc(field: dict[str, Any], region: dict[str, Any]) -> tuple[Any, Any]:
    F = field3(field)
    S3 = disc_surface(region)
    G = [_at(c, *S3) for c in h_curl(F)]
    Su = [sympy.diff(c, U) for c in S3]
    St = [_d_dt(c) for c in S3]
    N = [Su[1] * St[2] - Su[2] * St[1], Su[2] * St[0] - Su[0] * St[2], Su[0] * St[1] - Su[1] * St[0]]
    surface_side = integrate_disc(sum(g * n for g, n in zip(G, N)))
    B = [sympy.sympify(c).subs(U, 1) for c in S3]
    Bt = [_d_dt(c) for c in B]
    Fb = [_at(c, *B) for c in F]
    curve_side = integrate_circle(sum(f * d for f, d in zip(Fb, Bt)))
    return surface_side, curve_side


def green_disc(field: dict[str, Any], region: dict[str, Any]) -> tuple[Any, Any]:
    F = field3(field)
    a, b = rat(region["a"]), rat(region["b"])
    x, y = a * U * CT, b * U * ST
    region_side = integrate_disc(_at(h_div(F), x, y, 0) * a * b * U)
    xb, yb = a * CT, b * ST
    # outward normal times ds for a counter-clockwise curve: (dy/dt, -dx/dt) dt
    curve_side = integrate_circle(_at(F[0], xb, yb, 0) * _d_dt(yb) - _at(F[1], xb, yb, 0) * _d_dt(xb))
    return region_side, curve_side


def _rect(region: dict[str, Any]) -> tuple[Any, Any, Any, Any]:
    x0, y0 = Rational(region["x0"]), Rational(region["y0"])
    return x0, x0 + Rational(region["w"]), y0, y0 + Rational(region["h"])


def rect_plane(region: dict[str, Any]) -> tuple[Any, Any, Any]:
    cap = region["cap"]
    if cap[0] == "flat":
        return S.Zero, S.Zero, Rational(cap[1])
    return Rational(cap[1]), Rational(cap[2]), Rational(cap[3])


def stokes_rect(field: dict[str, Any], region: dict[str, Any]) -> tuple[Any, Any]:
    F = field3(field)
    trig = trig_of(field)
    x0, x1, y0, y1 = _rect(region)
    al, be, z0 = rect_plane(region)
    zz = al * X + be * Y + z0
    G = [c.subs(Z, zz) for c in h_curl(F)]
    surface_side = integrate_box(-al * G[0] - be * G[1] + G[2], {X: (x0, x1), Y: (y0, y1)}, trig)
    Fp = [c.subs(Z, zz) for c in F]
    along_x = Fp[0] + al * Fp[2]
    along_y = Fp[1] + be * Fp[2]

    def edge_x(yv: Any) -> Any:
        return integrate_box(sympy.expand(along_x.subs(Y, yv)), {X: (x0, x1)}, trig)

    def edge_y(xv: Any) -> Any:
        return integrate_box(sympy.expand(along_y.subs(X, xv)), {Y: (y0, y1)}, trig)

    curve_side = sympy.simplify(edge_x(y0) + edge_y(x1) - edge_x(y1) - edge_y(x0))
    return surface_side, curve_side


def green_rect(field: dict[str, Any], region: dict[str, Any]) -> tuple[Any, Any]:
    F = [c.subs(Z, 0) for c in field3(field)]
    trig = trig_of(field)
    x0, x1, y0, y1 = _rect(region)
    region_side = integrate_box(h_div(F), {X: (x0, x1), Y: (y0, y1)}, trig)

    def over_y(expr: Any) -> Any:
        return integrate_box(sympy.expand(expr), {Y: (y0, y1)}, trig)

    def over_x(expr: Any) -> Any:
        return integrate_box(sympy.expand(expr), {X: (x0, x1)}, trig)

    curve_side = sympy.simplify(over_y(F[0].subs(X, x1)) - over_y(F[0].subs(X, x0)) + over_x(F[1].subs(Y, y1)) -
        over_x(F[1].subs(Y, y0)))
    return region_side, curve_side


def _box(region: dict[str, Any]) -> dict[Any, tuple[Any, Any]]:
    return {s: (Rational(region[n][0]), Rational(region[n][1])) for s, n in ((X, "x"), (Y, "y"), (Z, "z"))}


def box_top(region: dict[str, Any], x: Any, y: Any) -> Any:
    """Upper z-limit of the box family: the plane z1 + alpha*(x - xa) + beta*(y - ya) with the anchors xa, ya taken
    at the corner where the plane is lowest, so the top never drops below z1 (alpha = beta = 0: a plain box)."""
    top = region.get("top", ["0/1", "0/1"])
    al, be = Rational(top[0]), Rational(top[1])
    xa = Rational(region["x"][0 if al >= 0 else 1])
    ya = Rational(region["y"][0 if be >= 0 else 1])
    return Rational(region["z"][1]) + al * (x - xa) + be * (y - ya)


def _int_z(expr: Any, lo: Any, hi: Any) -> Any:
    """int_lo^hi expr dZ for expr polynomial in Z (coefficients may involve X, Y and a trig factor of X or Y)."""
    expr = sympy.expand(expr)
    if expr == 0:
        return S.Zero
    total = S.Zero
    for (p,), coef in sympy.Poly(expr, Z).terms():
        total += coef * int_pow(p, lo, hi)
    return sympy.expand(total)


def gauss_box(field: dict[str, Any], region: dict[str, Any]) -> tuple[Any, Any]:
    F = field3(field)
    trig = trig_of(field)
    ranges = _box(region)
    plain = region.get("top", ["0/1", "0/1"]) == ["0/1", "0/1"]
    if plain:
        volume_side = integrate_box(h_div(F), ranges, trig)
        faces = S.Zero
        for axis, sym in enumerate((X, Y, Z)):
            rest = {s: r for s, r in ranges.items() if s != sym}
            lo, hi = ranges[sym]
            faces += integrate_box(sympy.expand(F[axis].subs(sym, hi)), rest, trig)
            faces -= integrate_box(sympy.expand(F[axis].subs(sym, lo)), rest, trig)
        return volume_side, sympy.simplify(faces)
    if trig is not None and trig[0] == Z:
        raise RuntimeError("wedge with a trigonometric factor in z is outside the harness closed forms")
    z0 = ranges[Z][0]
    g = box_top(region, X, Y)
    xy = {X: ranges[X], Y: ranges[Y]}
    volume_side = integrate_box(_int_z(h_div(F), z0, g), xy, trig)
    top = region["top"]
    al, be = Rational(top[0]), Rational(top[1])
    faces = integrate_box(sympy.expand(-al * F[0].subs(Z, g) - be * F[1].subs(Z, g) + F[2].subs(Z, g)), xy, trig)
    faces -= integrate_box(sympy.expand(F[2].subs(Z, z0)), xy, trig)
    for sym, other, comp in ((X, Y, F[0]), (Y, X, F[1])):
        lo, hi = ranges[sym]
        for val, sign in ((hi, 1), (lo, -1)):
            inner = _int_z(comp.subs(sym, val), z0, g.subs(sym, val))
            faces += sign * integrate_box(inner, {other: ranges[other]}, trig)
    return volume_side, sympy.simplify(faces)


def gauss_curv(field: dict[str, Any], region: dict[str, Any]) -> tuple[Any, Any]:
    """Outward flux through the boundary of a full cylindrical shell r0<=r<=r1, z0<=z<=z1 or a full spherical
    shell r0<=r<=r1 (only faces of constant r / constant z exist).  Returned twice (no second route here)."""
    sysname = region["shape"]
    r0, r1 = Rational(region["r"][0]), Rational(region["r"][1])
    comps = field["comps"]

    def comp(i: int, r: Any, third: Any) -> Any:
        if i >= len(comps):
            return S.Zero
        e = curv_comp_expr(comps[i], r, TH, third, sysname)
        return e.subs({cos(TH): CT, sin(TH): ST, cos(PH): CP, sin(PH): SP})

    total = S.Zero
    if sysname == "cyl":
        z0, z1 = Rational(region["z"][0]), Rational(region["z"][1])
        radial = r1 * comp(0, r1, Z) - r0 * comp(0, r0, Z)  # int dtheta dz
        for (pz, m, n), coef in _poly_terms(radial, (Z, CT, ST)):
            total += coef * int_pow(pz, z0, z1) * W(m, n)
        axial = (comp(2, RR, z1) - comp(2, RR, z0)) * RR  # int r dr dtheta
        axial = sympy.expand(axial)
        for term in sympy.Add.make_args(axial):
            if term == 0:
                continue
            c, pw = term.as_coeff_exponent(RR)
            for (m, n), coef in _poly_terms(c, (CT, ST)):
                total += coef * int_pow(int(pw), r0, r1) * W(m, n)
    else:
        radial = r1**2 * comp(0, r1, PH) - r0**2 * comp(0, r0, PH)  # times sin(phi) dphi dtheta
        for (m, n, a, b), coef in _poly_terms(radial, (CT, ST, CP, SP)):
            total += coef * W(m, n) * V(b + 1, a)
    total = sympy.simplify(total)
    return total, total


def truth(case: dict[str, Any]) -> Any:
    """Exact value of the (positively oriented / outward) integral of the case."""
    thm, region, field = case["thm"], case["region"], case["field"]
    if thm == "stokes":
        a, b = stokes_disc(field, region) if region["shape"] == "disc" else stokes_rect(field, region)
    elif thm == "green":
        a, b = green_disc(field, region) if region["shape"] == "disc" else green_rect(field, region)
    elif thm == "gauss":
        a, b = gauss_box(field, region)
    elif thm == "gauss_curv":
        a, b = gauss_curv(field, region)
    else:
        raise ValueError(thm)
    if sympy.simplify(a - b) != 0:
        num = sympy.N((a - b).subs({K: Rational(3, 7), RAD: Rational(5, 3)}), 40)
        if abs(num) > 1e-30:
            raise RuntimeError(f"harness self-check failed: region side {a} != boundary side {b} for {case}")
    return a


def nonconstant(case: dict[str, Any]) -> bool:
    """The non-trivial rule: div F (Green/Gauss) or curl F (Stokes) is not constant over the region."""
    thm, field = case["thm"], case["field"]
    if thm == "gauss_curv":
        r, th, third = RR, TH, (Z if case["region"]["shape"] == "cyl" else PH)
        return any(curv_comp_expr(c, r, th, third, case["region"]["shape"]).free_symbols & {r, th, third}
            for c in field["comps"])
    F = field3(field)
    if thm == "stokes":
        return any(c.free_symbols & {X, Y, Z} for c in h_curl(F))
    if thm == "green":
        return bool(h_div([c.subs(Z, 0) for c in F]).free_symbols & {X, Y})
    return bool(h_div(F).free_symbols & {X, Y, Z})
