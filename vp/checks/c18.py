"""C18 - LaTeX rendering of formulas is well-formed and meaning-preserving (round trip through a harness reader)."""
from __future__ import annotations

from typing import Any

from ..boot import Ctx, Recorder
from ..catalogue import doc_members, module_names, short
from ..hyp import hyp_run
from ..parse.latex_parser import parse_latex as parse_code, wellformed
from ..pool import run_tasks, shard_counts
from ..shrink import get_at, paths, replace_at, shrink
from . import render_common as rc

PID = "C18"
MODE = "latex"
RULE = ("(a) Hypothesis-generated canonical (auto-evaluated) expression trees as in C17 with LaTeX display names from a grammar "
    "(m, m_{12}, \\alpha, \\varepsilon_0, E_\\text{kin}, \\mathbf{F}, ...); (b) every documented catalogue member in source form "
    "(exhaustive). Oracle: (1) well-formedness scan (balanced braces, matched \\left/\\right, \\begin/\\end, no empty scripts); "
    "(2) latex_str -> harness LaTeX reader (fractions, roots, powers by braces, juxtaposition/\\cdot as product, prefix operators "
    "apply to the rest of their product) -> value under 3 random environments (50-digit mpmath, tol 1e-25; 1e-11 with floats) equals "
    "the value of the original tree; (3) atoms appear under their LaTeX display names (lexicon). "
    "Non-trivial: depth>=3 with a power of composite base/exponent or a non-leading negative factor, and the round trip ran; "
    "distinct by (tree, rendering).")


def render(expr: Any) -> str:
    from symplyphysics.docs.printer_latex import latex_str
    return latex_str(expr)


def judge(case: dict[str, Any]) -> tuple[list[tuple[str, str]], dict[str, Any]]:
    if case.get("kind") == "catalogue":
        return judge_member(case["module"], case["member"]), {}
    return rc.judge_generated(case, MODE, render, parse_code, wellformed)


def _shard(task: dict[str, Any]) -> Recorder:
    rec = Recorder()

    def body(case: dict[str, Any]) -> None:
        res, info = rc.judge_generated(case, MODE, render, parse_code, wellformed)
        rc.record_generated(rec, case, res, info)

    hyp_run(rc.case_strategy(MODE), body, task["n"], task["seed"])
    return rec


# ---- catalogue ---------------------------------------------------------------------------------


def member_value(module: str, member: str) -> Any:
    for m in doc_members(module):
        if m.name == member:
            return m.value
    raise KeyError(f"{module}:{member}")


def judge_value(module: str, name: str, value: Any, rec: Recorder | None = None) -> list[tuple[str, str]]:
    import sympy
    site = f"{short(module)}:{name}"
    if isinstance(value, (list, tuple)):
        out: list[tuple[str, str]] = []
        for i, v in enumerate(value):
            out += judge_value(module, f"{name}[{i}]", v, rec)
        return out
    if not isinstance(value, sympy.Basic):
        return []
    rt = rc.round_trip(value, MODE, render, parse_code, wellformed)
    if rec is not None:
        rec.count("catalogue:status:" + rt.status)
        if rt.status in ("unparsed", "uninterpretable", "ill"):
            rec.notes.setdefault("catalogue_" + rt.status, []).append(f"{site}: {rt.detail[:120]}")
        if rt.lex is not None and rt.lex.ambiguous():
            rec.count("catalogue:ambiguous_display_name")
            rec.notes.setdefault("catalogue_ambiguous", []).append(f"{site}: {rt.lex.ambiguous()}")
        rec.case({"m": site, "t": rt.text}, nontrivial=rt.status == "ok" and rc.tree_depth(value) >= 3,
            labels=["catalogue"],
            sample={"member": site, "rendering": rt.text} if rt.status == "ok" and len(rec.samples) < 3 else None)
    if rt.lex is not None and rt.lex.ambiguous() and rt.status not in ("crash",):
        # two DIFFERENT atoms of one equation under one display name: read back, the rendering denotes another expression
        # (e_1 + e_1 for e_1 + e_2), whatever the value comparison under a name-keyed interpretation says
        return [(f"ambiguous-display-name:{site}", f"{MODE} rendering {rt.text!r} of {site}: the distinct atoms of the equation "
            f"share the display name(s) {rt.lex.ambiguous()}")]
    if rt.status in ("mismatch", "crash", "internal-name", "malformed", "foreign-symbol"):
        return [(f"{rt.status}:{site}", f"{MODE} rendering {rt.text!r} of {site}: {rt.detail}")]
    return []


def judge_member(module: str, member: str) -> list[tuple[str, str]]:
    base = member.split("[")[0]
    return judge_value(module, base, member_value(module, base))


def _cat_shard(mods: list[str]) -> Recorder:
    rec = Recorder()
    for mod in mods:
        try:
            members = doc_members(mod)
        except Exception as exc:  # pylint: disable=broad-except
            # documentation pipeline failure belongs to C19; recorded here, not judged
            rec.count("catalogue:module_not_loadable")
            rec.notes.setdefault("catalogue_module_errors", []).append(f"{short(mod)}: {type(exc).__name__}")
            continue
        for m in members:
            if not m.directives:
                continue
            for key, what in judge_value(mod, m.name, m.value, rec):
                rec.violation(key, what, {"kind": "catalogue", "module": mod, "member": m.name})
    return rec


def run(ctx: Ctx) -> None:
    import symplyphysics  # noqa: F401  pylint: disable=unused-import
    n = ctx.pick(4000, 150000)
    shards = 16
    tasks = [{"n": c, "seed": ctx.seed * 1000 + i} for i, c in enumerate(shard_counts(n, shards))]
    for status, val in run_tasks(_shard, tasks):
        if status != "ok":
            raise RuntimeError(f"{PID} shard failed: {status}: {val}")
        ctx.merge(val)
    mods = module_names(with_packages=True)
    chunks = [mods[i::16] for i in range(16)]
    for status, val in run_tasks(_cat_shard, chunks):
        if status != "ok":
            raise RuntimeError(f"{PID} catalogue shard failed: {status}: {val}")
        ctx.merge(val)
    ctx.notes["catalogue_modules"] = len(mods)
    ctx.assumptions += [
        "reading as mathematics = the fixed grammar in vp/parse/latex_parser.py (juxtaposition is product, braces group, prefix operators take the rest of their product)",
        "atoms are recognised by the printer's own rendering of each atom alone (lexicon); only composites are judged",
        "calculus nodes are interpreted as linear functionals (vp/model/interp.py), undefined functions as fixed smooth functions of their arguments",
        "renderings outside the parser's grammar are counted as unparsed in the catalogue part (listed in evidence), never as correct",
    ]
    minimise(ctx, judge)


def minimise(ctx: Ctx, judge_fn: Any) -> None:
    known = {k["key"] for k in ctx.known}
    seen: set[str] = set()
    for v in list(ctx.violations):
        key = v["key"]
        if key in seen or key in known or v["case"].get("kind") != "generated":
            continue
        seen.add(key)
        status = key.split(":")[0]

        def still(c: dict[str, Any], status: str = status) -> bool:
            return any(k.split(":")[0] == status for k, _ in judge_fn(c)[0])

        small = shrink(v["case"], _candidates, still, budget_s=ctx.pick(15, 60))
        res = judge_fn(small)[0]
        if res:
            ctx.violation(key, res[0][1], small)


_LEAVES = (["sym", 0], ["int", 2])


def _candidates(case: dict[str, Any]) -> Any:
    expr = case["expr"]
    for p in paths(expr):
        node = get_at(expr, p)
        if not isinstance(node, list) or not node or not isinstance(node[0], str):
            continue
        if node[0] in ("sym", "int", "rat", "flt", "const", "idx", "qty"):
            continue
        for c in node[1:]:
            if isinstance(c, list) and c and isinstance(c[0], str) and p != ():
                yield {**case, "expr": replace_at(expr, p, c)}
            elif isinstance(c, list) and c and isinstance(c[0], str) and node[0] not in ("eq", "mat"):
                yield {**case, "expr": c}
        if p != ():
            for leaf in _LEAVES:
                yield {**case, "expr": replace_at(expr, p, list(leaf))}


def replay(case: dict[str, Any]) -> list[tuple[str, str]]:
    return judge(case)[0]
