"""C06 - symbolic dimension inference (collect_expression_and_dimension) agrees with evaluation on quantities.

Generated: the C05 tree strategy (built top-down for a requested M-dim vector) extended with a per-case pool of
declared leaves - six symplyphysics Symbols (two sharing a dimension, one dimensionless, one of reciprocal
dimension), an IndexedSymbol element, two applied symplyphysics Functions and three Derivatives of them - plus
quantities, units and numbers; classes: valid, one spoiler (foreign-dimension term in Add/Min/Max, dimensional
exponent), wildcard mutation (zero-valued Quantity / zero product / numeric 0, oo, NaN term of a foreign
dimension inside a sum or min/max), symbolic exponents (n, 2*n, t*f).
Oracle (vp/model/qexpr.py, walking the SymPy object handed to the library, two rational environments):
(1) dimension == model composition of the declared leaf dimensions; (2) returned expression value-equal to the
input (functions are interpreted by fixed polynomials, derivatives by their partial derivatives); (3) an error
(UnitsError/ValueError) exactly for spoiled trees; (4) commuting diagram: replacing the symbols by non-zero
quantities of their declared dimensions, Quantity(...) succeeds with that dimension and the model's SI value.
"""
from __future__ import annotations

from vp import guard as _guard

import os
import signal
from typing import Any

import sympy
from hypothesis import strategies as st
from sympy import S

from ..boot import Ctx, Recorder
from ..hyp import hyp_run
from ..model import dims as D
from ..model import qexpr as Q
from ..model import units as MU
from ..pool import run_tasks, shard_counts
from ..shrink import get_at, paths, replace_at, shrink
from . import c05 as G

# C05 has a class of exact magnitudes outside the range of a double (10**400) in fixed shapes; C06 does not generate them:
# the library orders quantities through double precision, so two quantities below 5e-324 compare equal (observed:
# Max(1e-400 kg/m^3, 1e-402 kg/m^3) -> 1e-402), which is outside the domain generated here

PID = "C06"
RULE = ("Hypothesis-generated JSON trees (C05 strategy, built for a requested M-dim vector, depth<=4) over a generated "
    "pool of 6 declared Symbols (two sharing a dimension, one dimensionless, one reciprocal), an IndexedSymbol element, "
    "2 applied Functions, 3 Derivatives, plus quantities/units/numbers; classes valid / one spoiler (foreign-dimension "
    "Add/Min/Max term, dimensional exponent) / wildcard mutation (zero-valued quantity, zero product, numeric 0/oo/NaN "
    "of a foreign dimension in a sum or min/max) / symbolic exponents; ev=1 (operators) or ev=0 (evaluate=False); two "
    "rational environments. Clauses: (1) dimension, (2) value-equality of the returned expression, (3) error iff "
    "spoiled, (4) Quantity substitution diagram. Non-trivial = >= 2 pool symbols of different dimension occur and "
    ">= 1 Add/Min/Max node; distinct by hash of (tree, pool dimensions, ev).")

KEY_FIRST = "refused:wildcard-first-term"
KEY_FLOAT_ZERO = "refused:float-zero"
KEY_INDEXED = "dimension:indexed-element"
KEY_SYMEXP = "exception:TypeError:compound-symbolic-exponent"
KEY_QEXP = "dimension:quantity-in-exponent"
KEY_SYMPRINT = "exception:TypeError:symbolic-dimension-quantity"
KEY_UNEVAL = "refused:zero-term-not-structurally-zero"
KEY_NUMLIKE = "misclassified:number-like-subexpression"

_dj = G._dj  # pylint: disable=protected-access
_dv = G._dv  # pylint: disable=protected-access
ONE_J = G.ONE_J

# ------------------------------------------------------------------------------------------------
# fixed interpretation of applied functions: polynomials in up to three arguments

_A, _B, _C = sympy.symbols("arg_a arg_b arg_c")
_POLY = (2 + 3 * _A + _B / 2 + sympy.Rational(5, 3) * _C + _A * _B + _A**2 * _B / 3 + _B**3 / 5 + _A * _C**2 / 7 +
    _A**3 / 11 + _A * _B * _C / 13 + _A * _B**2 / 4 + _A**2 * _B**2 / 6 + _A * _B**3 / 9 + _A**2 * _C / 8)
_ARGS = (_A, _B, _C)


def poly_value(argvals: list[Any], deriv: list[tuple[int, int]] = ()) -> Any:  # type: ignore[assignment]
    p = _POLY
    for k in range(len(argvals), 3):
        p = p.subs(_ARGS[k], 0)
    for k, n in deriv:
        p = sympy.diff(p, _ARGS[k], n)
    return p.subs({_ARGS[k]: v for k, v in enumerate(argvals)}, simultaneous=True)


# ------------------------------------------------------------------------------------------------
# generator


def g_pool(draw: Any) -> dict[str, Any]:
    d0, d1, d2, d3 = draw(st.permutations(G.PALETTE))[:4]
    inv0 = _dj(MU.ONE / _dv(d0))
    sdims = [d0, d0, d1, d2, ONE_J, inv0]
    fdefs = [{"dim": list(d3), "args": [0, 2]}, {"dim": list(draw(st.sampled_from([d0, d1, d2]))), "args": [3]}]
    ddefs = [[0, [[0, 1]]], [0, [[0, 1], [1, 2]]], [1, [[0, 2]]]]
    return {"S": [list(d) for d in sdims], "X": [list(d1)], "F": fdefs, "D": ddefs}


def pool_items(pool: dict[str, Any], with_indexed: bool = True) -> dict[str, Any]:
    items: list[tuple[list[Any], tuple[str, ...]]] = []
    for i, d in enumerate(pool["S"]):
        items.append((["S", i], tuple(d)))
    if with_indexed:
        for i, d in enumerate(pool["X"]):
            items.append((["X", i], tuple(d)))
    for j, f in enumerate(pool["F"]):
        items.append((["F", j, [["S", a] for a in f["args"]]], tuple(f["dim"])))
    for k, (j, spec) in enumerate(pool["D"]):
        items.append((["D", k], _dj(deriv_dim(pool, j, spec))))
    pairs = [(0, 1), (1, 0)]
    return {"items": items, "pairs": pairs}


def deriv_dim(pool: dict[str, Any], j: int, spec: list[list[int]]) -> D.DimVec:
    f = pool["F"][j]
    dv = _dv(f["dim"])
    for k, n in spec:
        dv = dv / _dv(pool["S"][f["args"][k]])**n
    return dv


def g_symexp(draw: Any) -> list[Any]:
    k = draw(st.integers(0, 3))
    if k <= 1:
        return ["S", 4]
    if k == 2:
        return ["mul", ["n", draw(st.sampled_from(["2", "3", "1/2"]))], ["S", 4]]
    return ["mul", ["S", draw(st.integers(0, 1))], ["S", 5]]


def g_symexp_tree(draw: Any, pool: dict[str, Any], pi: dict[str, Any]) -> tuple[list[Any], str]:
    e = g_symexp(draw)
    kind = "atom" if e[0] == "S" else "compound"
    shape = draw(st.sampled_from(["factor", "factor", "sum", "sum_spoiled", "min", "abs", "sqrt", "pow_of_pow"]))
    if shape == "factor":
        dj = tuple(draw(st.sampled_from(pool["S"][:4])))
        t = G.g_expr(draw, dj, draw(st.integers(1, 2)), True, True, pi)
        base = ["S", draw(st.integers(0, 3))]
        return G._place(draw, "mul", t, ["pow", base, e]), f"{kind}:factor"  # pylint: disable=protected-access
    if shape == "sum":
        terms = [["pow", ["S", 0], e], ["pow", ["S", 1], e]]
        if draw(st.booleans()):
            terms.append(["mul", ["n", "2"], ["pow", ["S", 1], e]])
        return ["add"] + list(draw(st.permutations(terms))), f"{kind}:sum"
    if shape == "sum_spoiled":
        return ["add"] + list(draw(st.permutations([["pow", ["S", 0], e], ["pow", ["S", 2], e]]))), f"{kind}:sum_spoiled"
    if shape == "min":
        return [draw(st.sampled_from(["min", "max"])), ["pow", ["S", 0], e], ["pow", ["S", 1], e]], f"{kind}:min"
    if shape == "abs":
        return ["abs", ["mul", ["n", "-3"], ["pow", ["S", 2], e]]], f"{kind}:abs"
    if shape == "sqrt":
        return ["pow", ["mul", ["pow", ["S", 0], e], ["pow", ["S", 1], e]], ["n", "1/2"]], f"{kind}:sqrt"
    return ["pow", ["pow", ["S", 3], e], ["n", draw(st.sampled_from(["2", "-1", "1/2"]))]], f"{kind}:pow_of_pow"


def g_foreign_leaf(draw: Any, pool: dict[str, Any], pi: dict[str, Any], dv: D.DimVec | None) -> list[Any]:
    cands = [leaf for leaf, d in pi["items"] if dv is None or not Q.dims_close(_dv(d), dv)]
    if cands and draw(st.integers(0, 3)) != 0:
        return draw(st.sampled_from(cands))
    return G.g_expr(draw, G.g_foreign(draw, dv), draw(st.integers(0, 1)), True)


def intended(t: Any, pool: dict[str, Any]) -> Q.Val | None:
    try:
        sem = Q.Sem(check_fn_args=False)
        v = Q.jeval(t, sem, model_env(pool, default_env(pool)))
        return None if sem.refusals else v
    except (Q.Discard, ZeroDivisionError):
        return None


def g_spoil(draw: Any, tree: list[Any], pool: dict[str, Any], pi: dict[str, Any]) -> tuple[list[Any], str]:
    kind = draw(st.sampled_from(["term", "term", "term", "exp_dim"]))
    ps = G.expr_paths(tree, (), False, False)
    if kind == "term":
        sums = [p for p in ps if get_at(tree, p)[0] in ("add", "min", "max")]
        if sums and draw(st.booleans()):
            p = draw(st.sampled_from(sums))
            node = list(get_at(tree, p))
            iv = intended(node[1], pool)
            node[draw(st.integers(1, len(node) - 1))] = g_foreign_leaf(draw, pool, pi, iv.dim if iv else None)
            return replace_at(tree, p, node), "term:" + node[0]
        p = draw(st.sampled_from(ps))
        n = get_at(tree, p)
        iv = intended(n, pool)
        op = draw(st.sampled_from(["add", "add", "min", "max"]))
        f = g_foreign_leaf(draw, pool, pi, iv.dim if iv else None)
        return replace_at(tree, p, G._place(draw, op, n, f)), "term:" + op  # pylint: disable=protected-access
    p = draw(st.sampled_from(ps))
    n = get_at(tree, p)
    k = draw(st.integers(0, 2))
    if k == 0:
        f: list[Any] = ["S", draw(st.integers(0, 3))]
    elif k == 1:
        f = ["q", ["n", draw(st.sampled_from(["1", "2", "1/2"]))], draw(st.sampled_from(["meter", "second", "kilogram", "kelvin"]))]
    else:
        f = ["mul", ["n", "2"], ["S", draw(st.integers(0, 3))]]
    pows = [q for q in ps if get_at(tree, q)[0] == "pow"]
    if pows and draw(st.booleans()):
        q = draw(st.sampled_from(pows))
        node = list(get_at(tree, q))
        node[2] = f
        return replace_at(tree, q, node), "exp_dim"
    base = draw(st.sampled_from([leaf for leaf, _ in pi["items"][:6]]))
    return replace_at(tree, p, G._place(draw, "mul", n, ["pow", base, f])), "exp_dim"  # pylint: disable=protected-access


def g_wild_term(draw: Any, pool: dict[str, Any], dv: D.DimVec | None, op: str) -> tuple[list[Any], str]:
    fj = G.g_foreign(draw, dv)
    k = draw(st.integers(0, 11))
    kinds = ["z", "z", "zf", "inf", "ninf"] + (["nan"] if op == "add" else [])
    if k <= 4:
        kind = draw(st.sampled_from(kinds))
        return ["w", kind, list(fj)], "qty_" + kind
    if k <= 6:
        kind = draw(st.sampled_from(["z", "inf", "ninf"] + (["nan"] if op == "add" else [])))
        return ["nw", kind], "num_" + kind
    foreign_syms = [i for i in range(4) if dv is None or not Q.dims_close(_dv(pool["S"][i]), dv)]
    if k <= 9 and foreign_syms:
        i = draw(st.sampled_from(foreign_syms))
        return G._place(draw, "mul", ["w", "z", list(ONE_J)], ["S", i]), "zero_qty_times_symbol"  # pylint: disable=protected-access
    if k == 10 and foreign_syms:
        i = draw(st.sampled_from(foreign_syms))
        return ["mul", ["n", "0"], ["S", i]], "zero_times_symbol"
    a = draw(st.sampled_from(["1", "2", "3/2"]))
    return ["Q", ["add", ["qs", ["n", a], list(fj)], ["qs", ["n", "-" + a], list(fj)]]], "zero_nested"


def g_wildmut(draw: Any, tree: list[Any], pool: dict[str, Any]) -> tuple[list[Any], str]:
    ps = G.expr_paths(tree, (), False, False)
    sums = [p for p in ps if get_at(tree, p)[0] in ("add", "min", "max")]
    if sums and draw(st.booleans()):
        p = draw(st.sampled_from(sums))
        node = list(get_at(tree, p))
        iv = intended(node[1], pool)
        w, kind = g_wild_term(draw, pool, iv.dim if iv else None, node[0])
        node.insert(draw(st.integers(1, len(node))), w)
        return replace_at(tree, p, node), f"{node[0]}:{kind}"
    p = draw(st.sampled_from(ps))
    n = get_at(tree, p)
    iv = intended(n, pool)
    op = draw(st.sampled_from(["add", "add", "min", "max"]))
    w, kind = g_wild_term(draw, pool, iv.dim if iv else None, op)
    return replace_at(tree, p, G._place(draw, op, n, w)), f"{op}:{kind}"  # pylint: disable=protected-access


_ENV_VALUES = ["2", "3", "5", "7", "3/2", "5/2", "7/3", "4/3", "11/2", "13/5", "9/4", "6"]


@st.composite
def case_strategy(draw: Any, cls: str, no_indexed: bool = False) -> dict[str, Any]:
    pool = g_pool(draw)
    pi = pool_items(pool, not no_indexed)
    ev = draw(st.integers(0, 1))
    envs = []
    for _ in range(2):
        vals = list(draw(st.permutations(_ENV_VALUES)))
        envs.append({"S": vals[:4] + [draw(st.sampled_from(["2", "3", "1/2", "3/2"]))] + [vals[4]], "X": [vals[5]]})
    case: dict[str, Any] = {"cls": cls, "ev": ev, "pool": pool, "env": envs,
        "assume": draw(st.sampled_from(["none", "positive", "real"]))}
    if cls == "symexp":
        tree, tag = g_symexp_tree(draw, pool, pi)
        case.update(tree=tree, tag="symexp:" + tag, dim=None)
        return case
    dims = [d for _, d in pi["items"]]
    sd = [tuple(d) for d in pool["S"][:4]]
    combos = [_dj(_dv(a) * _dv(b)) for a in sd for b in sd] + [_dj(_dv(a) / _dv(b)) for a in sd for b in sd if a != b]
    combos = [c for c in combos if G._small_dim(_dv(c))]  # pylint: disable=protected-access
    dj = draw(st.sampled_from(dims * 4 + combos + G.PALETTE + [ONE_J] * 3))
    depth = draw(st.sampled_from([1, 2, 2, 3, 3, 3, 4, 4]))
    tree = G.g_expr(draw, dj, depth, False, True, pi)
    if draw(st.integers(0, 9)) < 8:
        tree = numeric_exponents(tree)
    # applied library functions get composite arguments now and then: m(t) -> m(2*t), m(t + t) (still well-formed) or, in
    # the spoil class, m(t + l) with inequivalent dimensions inside the argument list (must be reported)
    fpaths = [p for p in paths(tree) if isinstance(get_at(tree, p), list) and get_at(tree, p)[:1] == ["F"] and get_at(tree, p)[2]]
    arg_tag = None
    if fpaths and draw(st.integers(0, 2)) == 0:
        fp = draw(st.sampled_from(fpaths))
        node = get_at(tree, fp)
        ai = draw(st.integers(0, len(node[2]) - 1))
        arg = node[2][ai]
        if arg[0] == "S":
            same = [j for j, d in enumerate(pool["S"]) if list(d) == list(pool["S"][arg[1]])]
            other = [j for j, d in enumerate(pool["S"]) if list(d) != list(pool["S"][arg[1]])]
            if cls == "spoil" and other and draw(st.booleans()):
                new_arg, arg_tag = ["add", arg, ["S", draw(st.sampled_from(other))]], "fn_arg_add_dims"
            elif draw(st.booleans()):
                new_arg, arg_tag = ["add", arg, ["S", draw(st.sampled_from(same))]], None
            else:
                new_arg, arg_tag = ["mul", ["n", draw(st.sampled_from(["2", "1/2", "3"]))], arg], None
            new_node = [node[0], node[1], node[2][:ai] + [new_arg] + node[2][ai + 1:]]
            tree = replace_at(tree, fp, new_node) if fp else new_node
    if arg_tag is not None:
        case.update(tree=tree, tag="spoil:" + arg_tag, dim=None)
        return case
    if cls == "valid":
        case.update(tree=tree, tag="valid", dim=list(dj))
    elif cls == "spoil":
        t2, tag = g_spoil(draw, tree, pool, pi)
        case.update(tree=t2, tag="spoil:" + tag, dim=None)
    else:
        t2, tag = g_wildmut(draw, tree, pool)
        case.update(tree=t2, tag="wild:" + tag, dim=None)
    return case


def numeric_exponents(t: Any) -> Any:
    """Replace symbol-free exponent sub-trees (Quantity(2), ratios of quantities) by their number."""
    if not isinstance(t, list) or not t or t[0] in Q.LEAF_OPS:
        return t
    if t[0] == "pow" and not G._has_op(t[2], ("S", "X", "F", "D")) and G._has_op(t[2], ("q", "qs", "u", "Q")):  # pylint: disable=protected-access
        iv = G._intended(t[2])  # pylint: disable=protected-access
        if iv is not None and iv.v.is_Rational:
            return ["pow", numeric_exponents(t[1]), ["n", str(iv.v)]]
    return [t[0]] + [numeric_exponents(x) if isinstance(x, list) else x for x in t[1:]]


def quantity_exponent(t: Any) -> bool:
    if not isinstance(t, list) or not t or t[0] in Q.LEAF_OPS:
        return False
    if t[0] == "pow" and G._has_op(t[2], ("q", "qs", "u", "Q", "w")):  # pylint: disable=protected-access
        return True
    return any(quantity_exponent(x) for x in t[1:] if isinstance(x, list))


CLASS_MIX = [("valid", 36), ("spoil", 24), ("wild", 28), ("symexp", 12)]

# ------------------------------------------------------------------------------------------------
# library objects and model meaning of the pool


def default_env(pool: dict[str, Any]) -> dict[str, Any]:
    return {"S": _ENV_VALUES[:4] + ["2"] + [_ENV_VALUES[4]], "X": [_ENV_VALUES[5]] * len(pool["X"])}


def model_env(pool: dict[str, Any], env: dict[str, Any]) -> dict[str, Any]:
    svals = [Q.Val(Q.rat(v), _dv(d), kind="sym") for v, d in zip(env["S"], pool["S"])]
    xvals = [Q.Val(Q.rat(v), _dv(d), kind="sym") for v, d in zip(env["X"], pool["X"])]

    def fval(j: int, args: list[Q.Val]) -> Q.Val:
        return Q.Val(poly_value([a.v for a in args]), _dv(pool["F"][j]["dim"]), any(a.inexact for a in args), kind="sym")

    def dval(k: int, _unused: Any = None) -> Q.Val:
        j, spec = pool["D"][k]
        f = pool["F"][j]
        return Q.Val(poly_value([svals[a].v for a in f["args"]], [(a, n) for a, n in spec]), deriv_dim(pool, j, spec), kind="sym")

    return {"S": svals, "X": xvals, "F": fval, "D": dval}


class Lib:
    """Library objects of the pool + resolver of their model meaning for Q.walk (current environment `k`)."""

    def __init__(self, case: dict[str, Any], builder: Q.Builder) -> None:
        from symplyphysics import Function, Symbol
        from symplyphysics.core.symbols.symbols import IndexedSymbol
        pool = case["pool"]
        self.pool = pool
        self.case = case
        kw: dict[str, Any] = {}
        if case.get("assume") == "positive":
            kw = {"positive": True}
        elif case.get("assume") == "real":
            kw = {"real": True}
        self.syms = [Symbol(f"s{i}", _dv(d).to_lib(), **kw) for i, d in enumerate(pool["S"])]
        self.idx = sympy.Idx("i")
        self.xbases = [IndexedSymbol(f"w{i}", self.idx, _dv(d).to_lib()) for i, d in enumerate(pool["X"])]
        self.xs = [b[self.idx] for b in self.xbases]
        self.funcs = [Function(f"F{j}", [self.syms[a] for a in f["args"]], _dv(f["dim"]).to_lib())
            for j, f in enumerate(pool["F"])]
        self.builder = builder
        self.menvs = [model_env(pool, e) for e in case["env"]]
        self.k = 0
        self.symidx = {s: i for i, s in enumerate(self.syms)}
        self.xidx = {x: i for i, x in enumerate(self.xs)}
        self.fidx = {f: j for j, f in enumerate(self.funcs)}
        builder.lib_env = {"S": lambda t: self.syms[t[1]], "X": lambda t: self.xs[t[1]], "F": self._build_f,
            "D": self._build_d}
        builder.atoms = self.atoms

    def _build_f(self, t: list[Any]) -> Any:
        return self.funcs[t[1]](*[self.builder.build(a) for a in t[2]])

    def _build_d(self, t: list[Any]) -> Any:
        j, spec = self.pool["D"][t[1]]
        f = self.pool["F"][j]
        args = [self.syms[a] for a in f["args"]]
        return sympy.Derivative(self.funcs[j](*args), *[(args[k], n) for k, n in spec])

    def atoms(self, e: Any, sem: Q.Sem) -> Q.Val | None:
        from sympy.core.function import AppliedUndef
        menv = self.menvs[self.k]
        if e.is_Symbol:
            i = self.symidx.get(e)
            return menv["S"][i] if i is not None else None
        if isinstance(e, sympy.Indexed):
            i = self.xidx.get(e)
            return menv["X"][i] if i is not None else None
        if isinstance(e, AppliedUndef):
            j = self.fidx.get(e.func)
            if j is None:
                raise Q.Discard("unknown applied function")
            args = [Q.walk(a, sem, self.builder.leaves, self.atoms) for a in e.args]
            return menv["F"](j, args)
        if isinstance(e, sympy.Derivative):
            ex = e.expr
            j = self.fidx.get(ex.func) if isinstance(ex, AppliedUndef) else None
            if j is None:
                raise Q.Discard("derivative of something else than a pool function")
            f = self.pool["F"][j]
            argsyms = [self.syms[a] for a in f["args"]]
            if list(ex.args) != argsyms:
                raise Q.Discard("derivative of a function applied to non-default arguments")
            spec = []
            dv = _dv(f["dim"])
            for var, n in e.variable_count:
                if var not in argsyms or not sympy.sympify(n).is_Integer:
                    raise Q.Discard("derivative variable outside the function arguments")
                a = argsyms.index(var)
                spec.append((a, int(n)))
                dv = dv / _dv(self.pool["S"][f["args"][a]])**int(n)
            val = poly_value([menv["S"][a].v for a in f["args"]], spec)
            return Q.Val(val, dv, kind="sym")
        return None

    def submap(self, k: int) -> dict[Any, Any]:
        env = self.case["env"][k]
        m = {s: Q.rat(v) for s, v in zip(self.syms, env["S"])}
        return m


# ------------------------------------------------------------------------------------------------
# judging one case


class _Hang(Exception):
    pass


def _alarm(_s: int, _f: Any) -> None:
    raise _Hang()


def has_op(t: Any, ops: tuple[str, ...]) -> bool:
    return any(o in ops for o in Q.tree_ops(t, []))


def _lib_dim(dim: Any, lib: Lib, k: int) -> D.DimVec:
    d = dim.subs(lib.submap(k)) if getattr(dim, "free_symbols", None) else dim
    return D.from_lib(d)


def judge(case: dict[str, Any], exclude: frozenset[str] = frozenset(), hang_s: int = 10) -> G.Result:
    _guard.install(_alarm)
    _guard.arm(hang_s)
    res = G.Result()
    try:
        _judge(case, res, exclude)
    except (_Hang, G._Hang):  # pylint: disable=protected-access
        res.status = "inconclusive"
        res.labels.append("hang_guard")
    except Q.Discard as d:
        res.status = "discard"
        res.labels.append("discard:" + str(d).split(":")[0][:40])
    finally:
        signal.alarm(0)
    return res


def _exclude(res: G.Result, key: str) -> None:
    res.status = "excluded"
    res.labels.append("excluded:" + key)


def _judge(case: dict[str, Any], res: G.Result, exclude: frozenset[str]) -> None:
    # pylint: disable=too-many-locals,too-many-branches,too-many-statements,too-many-return-statements
    from symplyphysics.core.dimensions import collect_expression_and_dimension
    tree = case["tree"]
    if KEY_FLOAT_ZERO in exclude and G._has_float_zero(tree):  # pylint: disable=protected-access
        return _exclude(res, KEY_FLOAT_ZERO)
    if KEY_INDEXED in exclude and has_op(tree, ("X",)):
        return _exclude(res, KEY_INDEXED)
    symexp = str(case.get("tag", "")).startswith("symexp:")
    if symexp and has_op(tree, ("add", "min", "max")):
        for kk in (KEY_SYMEXP, KEY_SYMPRINT):
            if kk in exclude:
                return _exclude(res, kk)
    qexp = quantity_exponent(tree)
    if KEY_QEXP in exclude and qexp:
        return _exclude(res, KEY_QEXP)
    Q.pad_counter("QTY")
    Q.pad_counter("SYM")
    Q.pad_counter("FUN")
    builder = Q.Builder(case["ev"])
    lib = Lib(case, builder)
    builder.env = lib.menvs[0]
    try:
        expr = sympy.sympify(builder.build(tree))
    except (ValueError, TypeError) as exc:
        # quantity leaves and nested Quantity(...) sub-trees are valid by construction in C06 (spoilers never go inside)
        res.violations.append(("leaf:quantity-construction",
            f"building a generated valid quantity sub-expression failed with {type(exc).__name__}: {str(exc)[:300]}"))
        return None
    # model under both environments
    vals: list[Q.Val] = []
    sems: list[Q.Sem] = []
    for k in range(len(case["env"])):
        lib.k = k
        sem = Q.Sem(check_fn_args=False)
        vals.append(Q.walk(expr, sem, builder.leaves, lib.atoms))
        sems.append(sem)
    refuse = bool(sems[0].refusals)
    if any(bool(s.refusals) != refuse for s in sems) or len({s.wild(v) for s, v in zip(sems, vals)}) > 1:
        raise Q.Discard("verdict depends on the environment (accidental cancellation)")
    kinds = {r["kind"] for r in sems[0].refusals}
    for kd in kinds:
        res.labels.append("model_refusal:" + kd)
    if KEY_NUMLIKE in exclude and Q.has_numberlike_subexpression(expr):
        return _exclude(res, KEY_NUMLIKE)
    if any("zero_term_not_structural" in s.flags for s in sems):
        res.labels.append("zero_term_not_structural")
        if KEY_UNEVAL in exclude:
            return _exclude(res, KEY_UNEVAL)
    if any("first_adopt_possible" in s.flags for s in sems):
        res.labels.append("wildcard_term_could_come_first")
        if KEY_FIRST in exclude:
            return _exclude(res, KEY_FIRST)
    # library
    try:
        rexpr, rdim = collect_expression_and_dimension(expr)
        outcome = "accept"
        err: BaseException | None = None
    except ValueError as exc:
        outcome, err = "refuse", exc
    except (_Hang, G._Hang):  # pylint: disable=protected-access
        raise
    except Exception as exc:  # pylint: disable=broad-except
        ekey = G._exc_key(exc)  # pylint: disable=protected-access
        if isinstance(exc, TypeError) and qexp:
            res.violations.append((KEY_QEXP,
                f"collect_expression_and_dimension({expr}) raised TypeError ({str(exc)[:120]}): an exponent written with quantities is kept as an expression inside the Dimension"[:600]))
        elif isinstance(exc, TypeError) and symexp and "_sympystr" in ekey:
            res.violations.append((KEY_SYMPRINT,
                f"collect_expression_and_dimension({expr}) raised TypeError ({str(exc)[:120]}) while ordering the Min/Max/Add it builds around a Quantity whose dimension has a symbolic exponent"[:600]))
        elif isinstance(exc, TypeError) and symexp and "exponent" in str(exc):
            res.violations.append((KEY_SYMEXP,
                f"collect_expression_and_dimension({expr}) raised TypeError ({str(exc)[:120]}): a compound dimensionless symbolic exponent inside a sum/min/max"[:600]))
        else:
            res.violations.append((G._exc_key(exc),  # pylint: disable=protected-access
                f"{type(exc).__name__}: {str(exc)[:200]} escaped collect_expression_and_dimension({expr})"))
        return None
    res.labels.append(f"lib_{outcome}/model_{'refuse' if refuse else 'accept'}")
    res.labels.append("clause3_error_iff_spoiled")
    if refuse and outcome == "accept":
        key = "accepted:" + "+".join(sorted(kinds))
        if has_op(tree, ("X",)) and _indexed_explains(expr, lib, builder, 0, None, want_refusal=False):
            key = KEY_INDEXED
        elif not _emulated_refuses(expr, lib, builder, Q.Policy(numeric_shortcut=True), False):
            key = KEY_NUMLIKE
        res.violations.append((key,
            f"collect_expression_and_dimension({expr}) returned ({rexpr}, {rdim}); model refuses: {sorted(kinds)}"[:600]))
        return None
    if not refuse and outcome == "refuse":
        key = "refused:valid:" + type(expr).__name__
        emul = ((Q.Policy(first_adopt=True), KEY_FIRST),
            (Q.Policy(first_adopt=True, structural_zero_ok=False), KEY_UNEVAL),
            (Q.Policy(float_zero_wild=False), KEY_FLOAT_ZERO),
            (Q.Policy(first_adopt=True, float_zero_wild=False, structural_zero_ok=False), KEY_FLOAT_ZERO),
            (Q.Policy(first_adopt=True, structural_zero_ok=False, numeric_shortcut=True), KEY_NUMLIKE))
        for pol, kk in emul:
            if _emulated_refuses(expr, lib, builder, pol, False):
                key = kk
                break
        else:
            if has_op(tree, ("X",)) and any(_emulated_refuses(expr, lib, builder, pol, True)
                    for pol in [Q.Policy()] + [p for p, _ in emul]):
                key = KEY_INDEXED
        res.violations.append((key,
            f"collect_expression_and_dimension({expr}) raised {type(err).__name__}: {str(err)[:200]}; model accepts with "
            f"dimension {vals[0].dim.text()} (args {getattr(expr, 'args', ())})"[:700]))
        return None
    if refuse:
        return None
    # (1) dimension, (2) value-equality, per environment
    wild = sems[0].wild(vals[0])
    if wild:
        res.labels.append("accepted_wildcard_value")
    for k, (mv, sem) in enumerate(zip(vals, sems)):
        lib.k = k
        if not wild:
            res.labels.append("clause1_dimension") if k == 0 else None
            try:
                ldim = _lib_dim(rdim, lib, k)
            except (TypeError, ValueError, D.NotADimension) as exc:
                res.violations.append((KEY_QEXP if qexp else "dimension:unreadable",
                    f"dimension {rdim} returned for {expr} cannot be read after substituting the environment: {exc}"[:500]))
                return None
            if not Q.dims_close(ldim, mv.dim):
                key = KEY_INDEXED if has_op(tree, ("X",)) and _indexed_explains(expr, lib, builder, k, ldim) else \
                    "dimension:" + G._shape(expr)  # pylint: disable=protected-access
                res.violations.append((key,
                    f"collect_expression_and_dimension({expr}) dimension {rdim} = {ldim.text()} ; model {mv.dim.text()}"[:500]))
                return None
        rsem = Q.Sem(check_fn_args=False)
        try:
            rv = Q.walk(rexpr, rsem, builder.leaves, lib.atoms)
        except Q.Discard as d:
            res.labels.append("returned_expr_not_evaluable:" + str(d)[:30])
            continue
        res.labels.append("clause2_value_equal") if k == 0 else None
        if sem.wild(mv) or rsem.wild(rv):
            same = (mv.v is S.NaN and rv.v is S.NaN) or bool(mv.v == rv.v) or (Q.is_zero(mv.v) and Q.is_zero(rv.v)
                if not Q.is_special(mv.v) and not Q.is_special(rv.v) else False)
            if not same:
                # a float sum that cancels: zero in one order of addition, a few ulps in another (0.5 + 1.1 - 0.1 - ...)
                try:
                    mag = max(mv.mag, rv.mag)
                    tiny = all(Q.is_zero(x.v) or (not Q.is_special(x.v) and abs(sympy.N(x.v, 30)) < sympy.Float("1e-9") * sympy.Float(str(mag)))
                        for x in (mv, rv))
                except Exception:  # pylint: disable=broad-except
                    tiny = False
                if tiny and (mv.inexact or rv.inexact or sympy.sympify(expr).atoms(sympy.Float)):
                    res.labels.append("discard:float-cancellation-to-zero")
                    continue
                res.violations.append(("value:" + G._shape(expr),  # pylint: disable=protected-access
                    f"returned expression {rexpr} evaluates to {rv.v}, input {expr} to {mv.v} (env {k})"[:500]))
                return None
            continue
        ok, detail = Q.value_close(rv.v, mv)
        if ok is False:
            res.violations.append(("value:" + G._shape(expr),  # pylint: disable=protected-access
                f"returned expression {rexpr} is not value-equal to the input {expr} (env {k}): {detail}"[:600]))
            return None
    # (4) commuting diagram
    if wild or has_op(tree, ("F", "D")) or G._has_float_zero(tree):  # pylint: disable=protected-access
        res.labels.append("clause4_skipped")
        return None
    _diagram(expr, rdim, lib, builder, res, vals[0])
    return None


def _emulated_refuses(expr: Any, lib: Lib, builder: Q.Builder, pol: Q.Policy, indexed_dimensionless: bool) -> bool:
    """Root-cause bucketing only: does the model refuse when it imitates one library behaviour?"""
    saved = lib.menvs[0]["X"]
    try:
        if indexed_dimensionless:
            lib.menvs[0]["X"] = [Q.Val(v.v, D.ONE, kind="sym") for v in saved]
        lib.k = 0
        sem = Q.Sem(pol, check_fn_args=False)
        Q.walk(expr, sem, builder.leaves, lib.atoms)
        return bool(sem.refusals)
    except Q.Discard:
        return False
    finally:
        lib.menvs[0]["X"] = saved


def _indexed_explains(expr: Any, lib: Lib, builder: Q.Builder, k: int, ldim: D.DimVec | None,
    want_refusal: bool = True) -> bool:
    """Does treating every indexed element as dimensionless reproduce the library's answer?"""
    saved = lib.menvs[k]["X"]
    try:
        lib.menvs[k]["X"] = [Q.Val(v.v, D.ONE, kind="sym") for v in saved]
        lib.k = k
        sem = Q.Sem(check_fn_args=False)
        mv = Q.walk(expr, sem, builder.leaves, lib.atoms)
        if ldim is None:
            return bool(sem.refusals) == want_refusal
        return not sem.refusals and Q.dims_close(mv.dim, ldim)
    except Q.Discard:
        return False
    finally:
        lib.menvs[k]["X"] = saved


def _diagram(expr: Any, rdim: Any, lib: Lib, builder: Q.Builder, res: G.Result, mv0: Q.Val) -> None:
    from symplyphysics import Quantity
    lib.k = 0
    menv = lib.menvs[0]
    mapping: dict[Any, Any] = {}
    for obj, val in list(zip(lib.syms, menv["S"])) + list(zip(lib.xs, menv["X"])):
        if not expr.has(obj):
            continue
        q = Quantity(val.v * val.dim.si_unit())
        builder.register(q, Q.Val(val.v, val.dim, kind="qty"))
        mapping[obj] = q
    expr2 = expr.xreplace(mapping)
    sem = Q.Sem()
    try:
        mv = Q.walk(expr2, sem, builder.leaves)
    except Q.Discard as d:
        res.labels.append("clause4_not_evaluable:" + str(d)[:30])
        return
    if sem.refusals:
        res.labels.append("clause4_skipped_model_refuses_quantity_form")  # e.g. a function argument became dimensional
        return
    res.labels.append("clause4_diagram")
    try:
        q = Quantity(expr2)
    except ValueError as exc:
        res.violations.append(("diagram:construction-refused",
            f"inference accepted {expr} with {rdim}, but Quantity({expr2}) raised {type(exc).__name__}: {str(exc)[:200]}"[:600]))
        return
    except (_Hang, G._Hang):  # pylint: disable=protected-access
        raise
    except Exception as exc:  # pylint: disable=broad-except
        res.violations.append((G._exc_key(exc), f"{type(exc).__name__}: {str(exc)[:200]} escaped Quantity({expr2})"))  # pylint: disable=protected-access
        return
    if sem.wild(mv):
        return
    try:
        qdim = D.from_lib(q.dimension)
        idim = _lib_dim(rdim, lib, 0)
    except (TypeError, ValueError, D.NotADimension) as exc:
        res.violations.append(("diagram:dimension-unreadable", f"{q.dimension} / {rdim}: {exc}"[:300]))
        return
    if not Q.dims_close(qdim, idim) or not Q.dims_close(qdim, mv.dim):
        res.violations.append(("diagram:dimension",
            f"inferred {idim.text()} for {expr}; Quantity({expr2}) has {qdim.text()}; model {mv.dim.text()}"[:600]))
        return
    ok, detail = Q.value_close(sympy.sympify(q.scale_factor) / sympy.Integer(1000)**mv.dim[1], mv)
    if ok is False:
        res.violations.append(("diagram:value", f"Quantity({expr2}): {detail}"[:600]))
        return
    ok2, detail2 = Q.value_close(mv.v, mv0)
    if ok2 is False:
        raise AssertionError(f"harness: quantity form and symbolic form of {expr} differ in the model: {detail2}")


def nontrivial(case: dict[str, Any]) -> bool:
    t = case["tree"]
    ops = Q.tree_ops(t, [])
    if not any(o in ("add", "min", "max") for o in ops):
        return False
    dims = set()
    _sym_dims(t, case["pool"], dims)
    return len(dims) >= 2


def _sym_dims(t: Any, pool: dict[str, Any], out: set[tuple[str, ...]]) -> None:
    if not isinstance(t, list) or not t:
        return
    if t[0] == "S":
        out.add(tuple(pool["S"][t[1]]))
        return
    if t[0] == "X":
        out.add(tuple(pool["X"][t[1]]))
        return
    for x in t[1:]:
        if isinstance(x, list):
            if x and isinstance(x[0], list):
                for y in x:
                    _sym_dims(y, pool, out)
            else:
                _sym_dims(x, pool, out)


def case_labels(case: dict[str, Any]) -> list[str]:
    t = case["tree"]
    ops = set(Q.tree_ops(t, []))
    labels = ["class=" + case["cls"], "ev=" + str(case["ev"]), "tag=" + str(case.get("tag")), "assume=" + case["assume"],
        "depth=" + str(min(Q.tree_depth(t), 6))]
    for o in sorted(ops & {"add", "mul", "pow", "abs", "min", "max", "fn", "Q", "S", "X", "F", "D", "u", "q", "qs", "w", "nw", "f"}):
        labels.append("has_" + o)
    return labels


# ------------------------------------------------------------------------------------------------
# driver


def _record(rec: Recorder, case: dict[str, Any], res: G.Result) -> None:
    labels = case_labels(case) + [l for l in res.labels if l] + ["status=" + res.status]
    if res.status == "inconclusive":
        rec.inconclusive += 1
    for key, what in res.violations:
        rec.violation(key, what, case)
    rec.case({"t": case["tree"], "p": case["pool"], "ev": case["ev"]},
        nontrivial=nontrivial(case) and res.status == "judged", labels=labels)


def _shard(task: dict[str, Any]) -> Recorder:
    rec = Recorder()
    exclude = frozenset(task["exclude"])

    def body(case: dict[str, Any]) -> None:
        _record(rec, case, judge(case, exclude))

    hyp_run(case_strategy(task["cls"]), body, task["n"], task["seed"])
    return rec


def exclusions(ctx: Ctx) -> frozenset[str]:
    keys = {k["key"] for k in ctx.known if k.get("status") == "open"}
    keys |= {k for k in os.environ.get("VERIF_C06_EXCLUDE", "").split(",") if k}
    return frozenset(keys)


def run(ctx: Ctx) -> None:
    total = ctx.pick(3000, 60000)
    exclude = exclusions(ctx)
    MU.selfcheck()
    import symplyphysics  # noqa: F401  pylint: disable=unused-import
    tasks = []
    wsum = sum(w for _, w in CLASS_MIX)
    for ci, (cls, w) in enumerate(CLASS_MIX):
        n_cls = max(16, total * w // wsum)
        shards = 16 if n_cls >= 640 else 4
        for i, n in enumerate(shard_counts(n_cls, shards)):
            tasks.append({"cls": cls, "n": n, "seed": ctx.seed * 1000 + ci * 50 + i, "exclude": sorted(exclude)})
    for status, val in run_tasks(_shard, tasks):
        if status != "ok":
            raise RuntimeError(f"C06 shard failed: {status}: {val}")
        ctx.merge(val)
    ctx.notes["excluded_input_classes"] = sorted(exclude)
    ctx.assumptions += [
        "applied Functions are interpreted by a fixed polynomial of their arguments, Derivatives by its partial derivatives; symbols take positive rational values (two environments); a verdict that differs between the environments is discarded as accidental cancellation",
        "quantities created by the library inside the returned expression are read through their scale_factor/dimension (SI value = scale/1000^mass exponent)",
        "any_dimension symbols are not generated: the property text gives them no meaning inside sums",
        "clause (4) is exercised only for trees without applied Functions/Derivatives and without Float zeros; elementary-function arguments are dimensionless by construction",
        "symbolic exponents: library and model dimensions are compared after substituting the environment into the exponent",
    ]
    known = {k["key"] for k in ctx.known}
    seen: set[str] = set()
    for v in list(ctx.violations):
        key = v["key"]
        if key in seen or key in known:
            continue
        seen.add(key)
        small = shrink(v["case"], _candidates, lambda c, key=key: any(k == key for k, _ in judge(c, exclude).violations),
            budget_s=ctx.pick(25, 90))
        got = [w for k, w in judge(small, exclude).violations if k == key]
        if got:
            ctx.violation(key, got[0], small)


def _candidates(case: dict[str, Any]) -> Any:
    for c in G._candidates(case):  # pylint: disable=protected-access
        yield c
    if len(case["env"]) > 1:
        yield {**case, "env": case["env"][:1]}
    if case["assume"] != "none":
        yield {**case, "assume": "none"}


def replay(case: dict[str, Any]) -> list[tuple[str, str]]:
    return judge(case).violations
