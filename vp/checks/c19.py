"""C19 - documentation generation is total, faithful and leaves no global state.

Programs (exhaustive): every module and package under the documented tree.  Histories (generated,
Hypothesis RuleBasedStateMachine in collect mode): interleavings of single-page generation, full generation
and ordinary library use.  Oracles: file set == harness scan of the source tree; byte-identical regeneration
(same process and fresh process); no directive leftovers; every generated `:code:` / `.. math::` formula, read
by the harness parsers against the NORMALLY IMPORTED module's attribute of that name, has the same value as
that attribute; the symbol table equals the imported attribute's own renderings; role processors resolve;
sympy's global evaluate flag is True and canary computations are unchanged after every step.
"""
from __future__ import annotations

import ast
import hashlib
import importlib
import json
import os
import pathlib
import re
import shutil
import subprocess
import sys
import tempfile
from typing import Any

import hypothesis
from hypothesis import HealthCheck, Phase, settings, strategies as st
from hypothesis.stateful import RuleBasedStateMachine, invariant, rule, run_state_machine_as_test

from ..boot import Ctx, REPO, Recorder
from ..model import interp
from ..parse.code_parser import parse_code
from ..parse.latex_parser import parse_latex, wellformed
from ..parse.lexicon import build_lexicon
from ..pool import run_tasks

PID = "C19"
RULE = ("Programs: every .py under symplyphysics/ except core/ and private directories (exhaustive: expected page set from a "
    "harness scan of the tree, every generated page inspected). Histories: Hypothesis state machine with rules gen_page(module) "
    "(generated module), gen_all, library_use (canary computations), 40 steps x 12 runs quick / 60 x 160 thorough. "
    "Non-trivial page: module with >= 1 directive-bearing member whose formulas were read back and compared by value; "
    "non-trivial history: >= 2 alternations between generation and library use including a page with a directive-bearing member. "
    "Distinct by page name / by step list.")

_CODE_LINE = re.compile(r"^\s*:code:`(.*)`\s*$")
SCRATCH = pathlib.Path(os.environ.get("VERIF_SCRATCH", "/dev/shm"))


# ------------------------------------------------------------------------------------------------
# harness scan of the source tree: which pages must exist


def has_title(doc: str | None) -> bool:
    if not doc:
        return False
    lines = doc.splitlines()
    for line in lines[1:]:
        if not line:
            continue
        return bool(line) and (set(line) == {"="} or set(line) == {"-"})
    return False


def expected_pages(root: pathlib.Path) -> dict[str, pathlib.Path]:
    """page stem -> source file, from the file tree alone."""
    out: dict[str, pathlib.Path] = {}
    base = root / "symplyphysics"

    def walk(d: pathlib.Path) -> None:
        if d.name.startswith((".", "_")) or d == base / "core":
            return
        for f in sorted(d.iterdir()):
            if f.is_dir():
                walk(f)
            elif f.suffix == ".py" and f.name.endswith(".py") and not f.name.startswith("__"):
                src = f.read_text(encoding="utf-8")
                try:
                    doc = ast.get_docstring(ast.parse(src))
                except SyntaxError:
                    continue
                if has_title(doc):
                    rel = f.relative_to(root).with_suffix("")
                    out[".".join(rel.parts[1:])] = f
        init = d / "__init__.py"
        if init.exists():
            doc = ast.get_docstring(ast.parse(init.read_text(encoding="utf-8")))
            if has_title(doc):
                rel = d.relative_to(root)
                out[".".join(rel.parts[1:])] = init

    walk(base)
    return out


# ------------------------------------------------------------------------------------------------
# generation helpers (cwd must be the repository root: the builder works with relative paths)


def gen_all(outdir: str) -> None:
    from symplyphysics.docs.build import generate_laws_docs
    cwd = os.getcwd()
    os.chdir(REPO)
    try:
        generate_laws_docs("symplyphysics", outdir, ["core"], True)
    finally:
        os.chdir(cwd)


def gen_page(stem: str, src: pathlib.Path, outdir: str) -> str | None:
    from symplyphysics.docs import build
    cwd = os.getcwd()
    os.chdir(REPO)
    try:
        rel = src.relative_to(REPO)
        if src.name == "__init__.py":
            d = rel.parent
            laws = []
            packages = sorted(p.name for p in (REPO / d).iterdir() if p.is_dir())
            return build._process_law_package(str(d), laws, packages, outdir, True)  # pylint: disable=protected-access
        return build._process_law(str(rel.parent), rel.name, outdir, True)  # pylint: disable=protected-access
    finally:
        os.chdir(cwd)


def tree_digest(outdir: str) -> dict[str, str]:
    out = {}
    for f in sorted(pathlib.Path(outdir).iterdir()):
        out[f.name] = hashlib.sha1(f.read_bytes()).hexdigest()
    return out


# ------------------------------------------------------------------------------------------------
# reading a page back


def data_blocks(page: str) -> dict[str, str]:
    """name -> text of each `.. py:data:: name` block."""
    out: dict[str, str] = {}
    parts = re.split(r"^\.\. py:(data|function):: ", page, flags=re.M)
    # parts: [head, kind, body, kind, body, ...]
    for i in range(1, len(parts) - 1, 2):
        kind, body = parts[i], parts[i + 1]
        if kind != "data":
            continue
        name, _, rest = body.partition("\n")
        out[name.strip()] = rest
    return out


def source_docstrings(src: pathlib.Path) -> dict[str, str]:
    tree = ast.parse(src.read_text(encoding="utf-8"))
    out: dict[str, str] = {}
    cur = None
    for stmt in tree.body:
        if isinstance(stmt, ast.Assign):
            cur = None
            for t in stmt.targets:
                if isinstance(t, ast.Name):
                    cur = t.id
                    break
        elif isinstance(stmt, ast.Expr) and cur and isinstance(stmt.value, ast.Constant) and isinstance(stmt.value.value, str):
            out[cur] = stmt.value.value
        elif not isinstance(stmt, ast.Expr):
            cur = None
    return out


def documented_functions(src: pathlib.Path) -> list[str]:
    tree = ast.parse(src.read_text(encoding="utf-8"))
    return [st_.name for st_ in tree.body if isinstance(st_, ast.FunctionDef) and not st_.name.startswith("_")
        and ast.get_docstring(st_) is not None]


def generated_formulas(block: str, srcdoc: str) -> tuple[list[str], list[str]]:
    """(code strings, latex strings) that the generator put in place of directives (not hand-written)."""
    src_lines = {ln.strip() for ln in srcdoc.splitlines()}
    codes: list[str] = []
    latex: list[str] = []
    lines = block.splitlines()
    # cut the symbol-table trailer
    for i, ln in enumerate(lines):
        if ln.strip() == "Symbol:" and not ln.startswith("    "):
            lines = lines[:i]
            break
    i = 0
    while i < len(lines):
        ln = lines[i]
        m = _CODE_LINE.match(ln)
        if m and ln.strip() not in src_lines:
            codes.append(m.group(1))
        if ln.strip() == ".. math::":
            indent = len(ln) - len(ln.lstrip())
            body = []
            j = i + 1
            while j < len(lines) and (not lines[j].strip() or len(lines[j]) - len(lines[j].lstrip()) > indent):
                if lines[j].strip():
                    body.append(lines[j].strip())
                elif body:
                    break
                j += 1
            text = " ".join(body)
            if body and not all(b in src_lines for b in body):
                latex.append(text)
            i = j
            continue
        i += 1
    return codes, latex


def trailer(block: str) -> dict[str, str] | None:
    m = re.search(r"^Symbol:\n    :code:`(.*)`\n\nLatex:\n    :math:`(.*)`\n\nDimension:\n    :code:`(.*)`", block, flags=re.M)
    if not m:
        return None
    return {"code": m.group(1), "latex": m.group(2), "dimension": m.group(3)}


def same_value(expr: Any, text: str, mode: str) -> tuple[str, str]:
    """('ok'|'mismatch'|'unparsed'|'ill'|'uninterpretable', detail): does `text` denote the value of `expr`?"""
    try:
        lex = build_lexicon(expr, mode)
    except Exception as exc:  # pylint: disable=broad-except
        return "uninterpretable", f"lexicon: {exc}"
    if mode == "latex":
        bad = wellformed(text)
        if bad:
            return "mismatch", f"malformed LaTeX: {bad}"
    try:
        tree = (parse_code if mode == "code" else parse_latex)(text, lex)
    except Exception as exc:  # pylint: disable=broad-except
        if type(exc).__name__ == "ForeignSymbol":
            return "mismatch", f"the formula on the page mentions a symbol the module's own attribute does not contain: {exc}"
        return "unparsed", f"{type(exc).__name__}: {exc}"
    sym = interp.SymEval(lex.token_of)
    agree = 0
    for salt in (11, 23, 47, 101, 103, 107):
        env = interp.Env(salt, lex.kinds)
        try:
            v1 = sym(expr, env)
        except interp.IllConditioned:
            continue
        except interp.Uninterpretable as exc:
            return "uninterpretable", str(exc)
        try:
            v2 = interp.eval_tree(tree, env)
            ok = interp.values_close(v1, v2, interp.mpf(10)**-11)
        except interp.IllConditioned:
            continue
        except interp.Uninterpretable as exc:
            return "unparsed", f"tree: {exc}"
        if not ok:
            return "mismatch", f"value of the module's own attribute {interp.show(v1)} != value of the formula on the page {interp.show(v2)}"
        agree += 1
        if agree >= 3:
            break
    return ("ok", "") if agree else ("ill", "no finite environment")


def inspect_page(stem: str, src: pathlib.Path, page: str, rec: Recorder) -> list[tuple[str, str]]:
    # pylint: disable=too-many-locals,too-many-branches
    import sympy
    from symplyphysics.core.dimensions import print_dimension
    from symplyphysics.core.symbols.symbols import DimensionSymbol
    from symplyphysics.docs.printer_code import code_str
    from symplyphysics.docs.printer_latex import latex_str
    out: list[tuple[str, str]] = []
    if ":laws:symbol::" in page or ":laws:latex::" in page:
        out.append((f"leftover-directive:{stem}", f"page {stem} still contains a :laws: directive"))
    blocks = data_blocks(page)
    if not blocks:
        # a page without any member block: every documented public member of the source is then missing from it
        try:
            for name in source_docstrings(src):
                if not name.startswith("_"):
                    out.append((f"member-missing:{stem}:{name}", f"page {stem} does not list the documented member {name}"))
        except Exception:  # pylint: disable=broad-except
            pass
        rec.case({"page": stem}, nontrivial=False, labels=["page", "page:no-members"])
        return out
    modname = "symplyphysics." + stem
    try:
        mod = importlib.import_module(modname)
    except Exception:  # pylint: disable=broad-except
        rec.count("page:module-not-importable")
        rec.case({"page": stem}, nontrivial=False, labels=["page"])
        return out
    docs = source_docstrings(src)
    judged = 0
    for name in docs:
        if not name.startswith("_") and name not in blocks:
            out.append((f"member-missing:{stem}:{name}", f"page {stem} does not list the documented member {name}"))
    fnames = set(re.findall(r"^\.\. py:function:: (\w+)\(", page, flags=re.M))
    for fname in documented_functions(src):
        if fname not in fnames:
            out.append((f"member-missing:{stem}:{fname}", f"page {stem} does not list the documented function {fname}"))
    for name, block in blocks.items():
        attr = getattr(mod, name, None)
        if attr is None:
            continue
        codes, latexes = generated_formulas(block, docs.get(name, ""))
        if isinstance(attr, (sympy.Basic, sympy.MatrixBase)) and not isinstance(attr, sympy.Symbol) and (codes or latexes):
            for text, mode in [(c, "code") for c in codes] + [(t, "latex") for t in latexes]:
                status, detail = same_value(attr, text, mode)
                rec.count(f"formula:{mode}:{status}")
                if status == "ok":
                    judged += 1
                elif status == "mismatch":
                    out.append((f"unfaithful-formula:{stem}:{name}:{mode}",
                        f"page {stem}, member {name}: the {mode} formula {text!r} does not denote the module's own {name}: {detail}"))
                elif status == "unparsed":
                    rec.notes.setdefault("unparsed_formulas", []).append(f"{stem}:{name}:{mode}: {detail[:90]}")
        tr = trailer(block)
        if tr is None and isinstance(attr, (sympy.Symbol, DimensionSymbol)) and hasattr(attr, "dimension"):
            # a documented SYMBOL (a named sympy symbol carrying a dimension: Symbol, IndexedSymbol, Quantity, the Symbolic
            # wrappers Average / ExactDifferential / FiniteDifference ...) without its Symbol / Latex / Dimension rows
            rec.count("symbol-table-missing")
            out.append((f"symbol-table-missing:{stem}:{name}", f"page {stem}: the documented symbol {name} "
                f"({type(attr).__name__}) is listed without its code name, LaTeX name and dimension"))
        if tr is not None and hasattr(attr, "dimension"):
            try:
                want = {"code": code_str(attr), "latex": latex_str(attr), "dimension": print_dimension(attr.dimension)}
            except Exception:  # pylint: disable=broad-except
                continue
            rec.count("symbol-table-rows")
            for k in ("code", "latex", "dimension"):
                if tr[k] != want[k]:
                    out.append((f"symbol-table:{stem}:{name}:{k}",
                        f"page {stem}, symbol {name}: {k} shown as {tr[k]!r} but the module's own attribute renders as {want[k]!r}"))
    rec.case({"page": stem}, nontrivial=judged > 0, labels=["page"] + (["page:formulas-read-back"] if judged else []),
        sample={"page": stem, "formulas_read_back": judged} if judged and len(rec.samples) < 3 else None)
    return out


_ATTR = re.compile(r":attr:`~?([\w.]+)`")


def inspect_roles(stem: str, page: str, rec: Recorder) -> list[tuple[str, str]]:
    from symplyphysics import Quantity, Symbol
    from symplyphysics.docs import quantity_notation_role, symbols_role
    out: list[tuple[str, str]] = []
    try:
        p1 = symbols_role.process_string(page, pathlib.Path(stem))
        p2 = quantity_notation_role.process_string(p1, pathlib.Path(stem))
    except Exception as exc:  # pylint: disable=broad-except
        return [(f"role-error:{stem}", f"role processing of page {stem} raised {type(exc).__name__}: {exc}")]
    if ":symbols:`" in p2 or ":quantity_notation:`" in p2:
        out.append((f"role-leftover:{stem}", f"page {stem} still contains an unprocessed role"))
    before = set(_ATTR.findall(page))
    for target in set(_ATTR.findall(p2)) - before:
        if not target.startswith("symplyphysics."):
            continue
        rec.count("role-targets-resolved")
        modname, _, attr = target.rpartition(".")
        try:
            obj = getattr(importlib.import_module(modname), attr)
            ok = isinstance(obj, (Symbol, Quantity)) or hasattr(obj, "dimension")
        except Exception:  # pylint: disable=broad-except
            ok = False
        if not ok:
            out.append((f"role-unresolved:{stem}:{target}", f"page {stem}: cross-reference {target} emitted by a role does not resolve to a symbol or constant"))
    return out


# ------------------------------------------------------------------------------------------------
# canary: ordinary library use whose results depend on the global evaluation mode


def canary() -> list[str]:
    try:
        return _canary()
    except Exception as exc:  # pylint: disable=broad-except
        return [f"exception:{type(exc).__name__}: {str(exc)[:120]}"]


def _canary() -> list[str]:
    import sympy
    from sympy.core.parameters import global_parameters
    from symplyphysics import Quantity, units
    out = [f"evaluate={global_parameters.evaluate}"]
    x = sympy.Symbol("x")
    out.append(str(x + x))
    out.append(str((x + 1)**2 - (x + 1)**2))
    q = Quantity(2 * units.meter + 3 * units.meter)
    out.append(str(q.scale_factor))
    from symplyphysics.laws.dynamics import acceleration_is_force_over_mass as law
    out.append(str(law.calculate_force(Quantity(2 * units.kilogram), Quantity(3 * units.meter / units.second**2)).scale_factor))
    return out


# ------------------------------------------------------------------------------------------------
# history machine (collect mode)


class _Shared:
    rec: Recorder
    pages: list[tuple[str, str]]
    clean: list[str]
    outdir: str
    full: bool


def make_machine(shared: Any) -> Any:

    class DocMachine(RuleBasedStateMachine):

        def __init__(self) -> None:
            super().__init__()
            self.steps: list[Any] = []
            self.alternations = 0
            self.last = ""
            self.rich = False
            self.bad = False

        def _note(self, kind: str) -> None:
            if self.last and self.last != kind:
                self.alternations += 1
            self.last = kind

        @rule(i=st.integers(0, 10**6))
        def gen_page_rule(self, i: int) -> None:
            stem, src = shared.pages[i % len(shared.pages)]
            self.steps.append(["gen_page", stem])
            self._note("gen")
            try:
                gen_page(stem, pathlib.Path(src), shared.outdir)
                text = (pathlib.Path(shared.outdir) / (stem + ".rst")).read_text(encoding="utf-8")
                if ":code:`" in text:
                    self.rich = True
            except Exception as exc:  # pylint: disable=broad-except
                shared.rec.violation(f"generation-error:{stem}", f"generating page {stem} raised {type(exc).__name__}: {exc}",
                    {"kind": "history", "steps": list(self.steps)})
                self.bad = True

        @rule()
        def library_use(self) -> None:
            self.steps.append(["library_use"])
            self._note("use")
            got = canary()
            if got != shared.clean:
                shared.rec.violation("global-state:canary", f"library results after documentation generation {got} differ from "
                    f"those of a clean interpreter {shared.clean}; steps {self.steps[-6:]}", {"kind": "history", "steps": list(self.steps)})
                self.bad = True

        @rule()
        def gen_all_rule(self) -> None:
            if not shared.full:
                return
            self.steps.append(["gen_all"])
            self._note("gen")
            shared.full = False  # at most once per shard (8 s)
            try:
                gen_all(shared.outdir)
                self.rich = True
            except Exception as exc:  # pylint: disable=broad-except
                shared.rec.violation("generation-error:all", f"full generation raised {type(exc).__name__}: {exc}",
                    {"kind": "history", "steps": list(self.steps)})

        @invariant()
        def evaluate_is_default(self) -> None:
            from sympy.core.parameters import global_parameters
            if global_parameters.evaluate is not True and not self.bad:
                shared.rec.violation("global-state:evaluate-flag", f"sympy global evaluate is {global_parameters.evaluate} after steps "
                    f"{self.steps[-4:]}", {"kind": "history", "steps": list(self.steps)})
                self.bad = True
                global_parameters.evaluate = True

        def teardown(self) -> None:
            from sympy.core.parameters import global_parameters
            global_parameters.evaluate = True
            nt = self.alternations >= 2 and self.rich
            shared.rec.case({"steps": self.steps}, nontrivial=nt, labels=["history"],
                sample={"steps": self.steps[:8]} if nt and len(shared.rec.samples) < 2 else None)
            shared.rec.count("history-steps", len(self.steps))

    return DocMachine


def _history_shard(task: dict[str, Any]) -> Recorder:
    shared = _Shared()
    shared.rec = Recorder()
    shared.pages = task["pages"]
    shared.clean = task["clean"]
    shared.outdir = tempfile.mkdtemp(prefix="vp-c19-", dir=str(SCRATCH))
    shared.full = task["full"]
    try:
        machine = hypothesis.seed(task["seed"])(make_machine(shared))
        run_state_machine_as_test(machine, settings=settings(max_examples=task["runs"], stateful_step_count=task["steps"],
            deadline=None, database=None, phases=[Phase.generate], suppress_health_check=list(HealthCheck)))
    finally:
        shutil.rmtree(shared.outdir, ignore_errors=True)
    return shared.rec


def _inspect_shard(task: dict[str, Any]) -> Recorder:
    rec = Recorder()
    for stem, src, path in task["items"]:
        page = pathlib.Path(path).read_text(encoding="utf-8")
        for key, what in inspect_page(stem, pathlib.Path(src), page, rec) + inspect_roles(stem, page, rec):
            rec.violation(key, what, {"kind": "page", "page": stem})
    return rec


def _only_reordered(f1: pathlib.Path, f2: pathlib.Path) -> bool:
    """True if the two pages differ only in lines that contain the same tokens in another order."""
    if not f1.exists() or not f2.exists():
        return False
    l1, l2 = f1.read_text(encoding="utf-8").splitlines(), f2.read_text(encoding="utf-8").splitlines()
    if len(l1) != len(l2):
        return False
    tok = re.compile(r"\\?[A-Za-z_]+|\d+|\S")
    for x, y in zip(l1, l2):
        if x != y and sorted(tok.findall(x)) != sorted(tok.findall(y)):
            return False
    return True


def _fresh_generation(outdir: str) -> dict[str, str]:
    code = ("import sys, json; from vp.checks import c19; c19.gen_all(sys.argv[1]); "
        "from sympy.core.parameters import global_parameters as g; print('@@' + json.dumps({'d': c19.tree_digest(sys.argv[1]), 'e': g.evaluate, 'c': c19.canary()}))")
    proc = subprocess.run([sys.executable, "-c", code, outdir], capture_output=True, text=True, timeout=1800, check=False)
    if "@@" not in proc.stdout:
        raise RuntimeError(f"fresh generation failed: {proc.stderr[-600:]}")
    return json.loads(proc.stdout.split("@@", 1)[1])  # type: ignore[no-any-return]


def full_generation_clauses(a: str, b: str, c: str, clean: list[str]) -> tuple[list[tuple[str, str]], dict[str, str] | None]:
    """Generate twice in this process and once in a fresh one; totality, determinism, global state."""
    out: list[tuple[str, str]] = []
    from sympy.core.parameters import global_parameters
    try:
        gen_all(a)
        gen_all(b)
    except Exception as exc:  # pylint: disable=broad-except
        global_parameters.evaluate = True
        return [("generation-error:all", f"full generation raised {type(exc).__name__}: {exc} ({exc.__cause__!r})")], None
    if global_parameters.evaluate is not True:
        out.append(("global-state:evaluate-flag", f"sympy global evaluate is {global_parameters.evaluate} after a full generation"))
        global_parameters.evaluate = True
    after = canary()
    if after != clean:
        out.append(("global-state:canary", f"library results after a full generation {after} differ from before {clean}"))
    da, db = tree_digest(a), tree_digest(b)
    try:
        fresh = _fresh_generation(c)
    except RuntimeError as exc:
        out.append(("generation-error:fresh-process", str(exc)[-300:]))
        return out, da
    if da != db:
        diff = sorted(k for k in set(da) | set(db) if da.get(k) != db.get(k))
        reorder_only = all(_only_reordered(pathlib.Path(a) / k, pathlib.Path(b) / k) for k in diff)
        if reorder_only:
            # one root cause: evaluated (":laws:sympy-eval::") products are printed in SymPy's canonical order, which
            # sorts by the generated internal names; the second generation mints higher ids (SYM1000 < SYM999)
            out.append(("nondeterministic:factor-order-follows-internal-names",
                f"two generations in one process differ in {diff[:5]}: the same factors are printed in another order"))
        else:
            out.append(("nondeterministic:same-process", f"two generations in one process differ in {diff[:5]}"))
    if da != fresh["d"]:
        diff = sorted(k for k in set(da) | set(fresh["d"]) if da.get(k) != fresh["d"].get(k))[:5]
        out.append(("nondeterministic:fresh-process", f"generation in a fresh process differs in {diff}"))
    if fresh["e"] is not True or fresh["c"] != clean:
        out.append(("global-state:fresh-process", f"after generation in a fresh process evaluate={fresh['e']} canary={fresh['c']}"))
    return out, da


def run(ctx: Ctx) -> None:
    # pylint: disable=too-many-locals,too-many-statements
    expected = expected_pages(REPO)
    clean = canary()
    work = pathlib.Path(tempfile.mkdtemp(prefix="vp-c19-main-", dir=str(SCRATCH)))
    try:
        a, b, c = str(work / "a"), str(work / "b"), str(work / "c")
        for d in (a, b, c):
            os.makedirs(d)
        case_all = {"kind": "all"}
        viols, da = full_generation_clauses(a, b, c, clean)
        for key, what in viols:
            ctx.violation(key, what, case_all)
        ctx.case({"gen": "twice-same-process+fresh-process"}, nontrivial=True, labels=["full-generation"])
        if da is None:
            return
        produced = {f[:-4] for f in da if f.endswith(".rst")}
        for missing in sorted(set(expected) - produced):
            ctx.violation(f"page-missing:{missing}", f"documented module/package {missing} has no page", {"kind": "page", "page": missing})
        for extra in sorted(produced - set(expected)):
            ctx.violation(f"page-extra:{extra}", f"page {extra} does not correspond to a documented module/package", {"kind": "page", "page": extra})
        ctx.notes["expected_pages"] = len(expected)
        ctx.notes["produced_pages"] = len(produced)
        items = [(stem, str(src), str(pathlib.Path(a) / (stem + ".rst"))) for stem, src in sorted(expected.items()) if stem in produced]
        chunks = [{"items": items[i::16]} for i in range(16)]
        for status, val in run_tasks(_inspect_shard, chunks):
            if status != "ok":
                raise RuntimeError(f"C19 inspect shard failed: {status}: {val}")
            ctx.merge(val)
        # histories
        pages = [(s, str(p)) for s, p in sorted(expected.items())]
        runs = ctx.pick(60, 400)
        shards = ctx.pick(6, 16)
        tasks = [{"pages": pages, "clean": clean, "seed": ctx.seed * 1000 + i, "runs": max(1, runs // shards), "steps": ctx.pick(40, 60),
            "full": i < ctx.pick(2, 5)} for i in range(shards)]
        for status, val in run_tasks(_history_shard, tasks):
            if status != "ok":
                raise RuntimeError(f"C19 history shard failed: {status}: {val}")
            ctx.merge(val)
    finally:
        shutil.rmtree(work, ignore_errors=True)
    ctx.exhaustive = True
    ctx.assumptions += [
        "expected page set = modules/packages whose docstring has a title line followed by a ===/--- rule, scanned by the harness from the file tree",
        "formulas put in place of :laws: directives are read back with the harness parsers against the lexicon of the normally imported module attribute; hand-written formulas of the docstrings are not judged",
        "formulas outside the parsers' grammar are counted as unparsed and listed; :attr: references written by hand in docstrings are Sphinx's business",
    ]


def replay(case: dict[str, Any]) -> list[tuple[str, str]]:
    rec = Recorder()
    expected = expected_pages(REPO)
    work = tempfile.mkdtemp(prefix="vp-c19-replay-", dir=str(SCRATCH))
    try:
        if case.get("kind") == "page":
            stem = case["page"]
            if stem not in expected:
                return [(f"page-extra:{stem}", "page not expected")]
            from sympy.core.parameters import global_parameters as gp
            try:
                gen_page(stem, expected[stem], work)
            except Exception as exc:  # pylint: disable=broad-except
                gp.evaluate = True
                return [(f"generation-error:{stem}", f"{type(exc).__name__}: {exc}")]
            if gp.evaluate is not True:
                gp.evaluate = True
                return [("global-state:evaluate-flag", f"sympy global evaluate is False after generating page {stem}")]
            f = pathlib.Path(work) / (stem + ".rst")
            if not f.exists():
                return [(f"page-missing:{stem}", "no page produced")]
            page = f.read_text(encoding="utf-8")
            return inspect_page(stem, expected[stem], page, rec) + inspect_roles(stem, page, rec)
        if case.get("kind") == "history":
            clean = canary()
            out: list[tuple[str, str]] = []
            from sympy.core.parameters import global_parameters
            for step in case["steps"]:
                if step[0] == "gen_page":
                    try:
                        gen_page(step[1], expected[step[1]], work)
                    except Exception as exc:  # pylint: disable=broad-except
                        out.append((f"generation-error:{step[1]}", f"{type(exc).__name__}: {exc}"))
                elif step[0] == "gen_all":
                    gen_all(work)
                elif step[0] == "library_use" and canary() != clean:
                    out.append(("global-state:canary", "canary differs"))
                if global_parameters.evaluate is not True:
                    out.append(("global-state:evaluate-flag", f"evaluate is {global_parameters.evaluate} after {step}"))
                    global_parameters.evaluate = True
            return out
        dirs = [os.path.join(work, x) for x in "abc"]
        for d in dirs:
            os.makedirs(d)
        return full_generation_clauses(dirs[0], dirs[1], dirs[2], canary())[0]
    finally:
        shutil.rmtree(work, ignore_errors=True)
