"""C15 - experimental coordinate conversions are consistent and geometry-preserving.

Generated: a point given in one of the three experimental systems (Cartesian / cylindrical / spherical with
(r, theta = polar, phi = azimuth)) by construction inside the system's domain (exact rationals and rational
multiples of pi), a vector attached to it as a linear combination of the system's base vectors (rational
and symbolic coefficients).  Oracle: the harness' own maps X(q), q(X), dX/dq typed in below with mpmath
(60 digits; checked against numerical differentiation at start-up) - never the library tables.
Per case every ordered pair and every ordered triple of systems is exercised at that physical point.
"""
from __future__ import annotations

from vp import guard as _guard

import itertools
import signal
import traceback
from fractions import Fraction
from typing import Any

from hypothesis import strategies as st

from ..boot import Ctx, Recorder
from ..hyp import hyp_run
from ..model import r3
from ..pool import run_tasks, shard_counts
from ..shrink import shrink

PID = "C15"
RULE = ("Hypothesis-generated points, by construction inside the domain of the system they are given in "
    "(Cartesian: rationals, not on the z axis; cylindrical: rho>0, phi in (-pi,pi], z; spherical: r>0, theta in "
    "(0,pi), phi in (-pi,pi]; angles are rational multiples of pi or rational radians), with an attached vector "
    "= linear combination of that system's base vectors (rational / symbolic coefficients; written as a plain sum or "
    "as a symbolic / irrational common factor times a bracketed sum of two base vectors plus the third). At every point all 6 "
    "ordered pairs + same-type pairs of distinct system objects and all 6 ordered triples are judged against the "
    "harness maps X(q), q(X), dX/dq (mpmath, 60 digits, tol 1e-40 relative to 1+sum|terms|): scalar tables round "
    "trip and equal geometry, base-vector tables orthonormal/det=+1/inverse=transpose/direct=via third/equal the "
    "harness frame, convert_point and convert_vector keep Cartesian position and components (also chained via a "
    "third system), Lame coefficients and jacobian equal |dX/dq_i| and det dX/dq; a second generated point ON the z axis "
    "(rho = 0 / theta in {0, pi}, off the origin) is judged for convert_point only (Cartesian position kept). "
    "Non-trivial = point off all coordinate planes/axes and vector with >= 2 non-zero coefficients; distinct by "
    "hash of (system, coordinates, vector).")

MP = r3.MP
mpf = MP.mpf
TOL = mpf(10)**-40
DIGITS = 70
TYPES = ("cart", "cyl", "sph")
ANGLE_SLOTS = {"cart": (), "cyl": (1,), "sph": (1, 2)}
HANG_S = 120

# ------------------------------------------------------------------------------------------------
# harness geometry (independent of the library tables)


def coord_value(c: Any) -> Any:
    """mpf value of a coordinate description ["q", "n/d"] | ["pi", "n/d"]."""
    v = r3.frac(c[1])
    return v * MP.pi if c[0] == "pi" else v


def X_of(system: str, q: Any) -> tuple[Any, Any, Any]:
    a, b, c = q
    if system == "cart":
        return (a, b, c)
    if system == "cyl":
        return (a * MP.cos(b), a * MP.sin(b), c)
    if system == "sph":
        return (a * MP.sin(b) * MP.cos(c), a * MP.sin(b) * MP.sin(c), a * MP.cos(b))
    raise ValueError(system)


def Q_of(system: str, X: Any) -> tuple[Any, Any, Any]:
    x, y, z = X
    if system == "cart":
        return (x, y, z)
    if system == "cyl":
        return (MP.sqrt(x * x + y * y), MP.atan2(y, x), z)
    if system == "sph":
        r = MP.sqrt(x * x + y * y + z * z)
        return (r, MP.acos(z / r), MP.atan2(y, x))
    raise ValueError(system)


def dX_of(system: str, q: Any) -> list[list[Any]]:
    """rows: dX/dq_i (textbook, typed by hand; verified numerically by selfcheck())."""
    a, b, c = q
    one, zero = mpf(1), mpf(0)
    if system == "cart":
        return [[one, zero, zero], [zero, one, zero], [zero, zero, one]]
    if system == "cyl":
        return [[MP.cos(b), MP.sin(b), zero], [-a * MP.sin(b), a * MP.cos(b), zero], [zero, zero, one]]
    if system == "sph":
        st_, ct, sp, cp = MP.sin(b), MP.cos(b), MP.sin(c), MP.cos(c)
        return [[st_ * cp, st_ * sp, ct], [a * ct * cp, a * ct * sp, -a * st_], [-a * st_ * sp, a * st_ * cp, zero]]
    raise ValueError(system)


def _norm(v: Any) -> Any:
    return MP.sqrt(sum(x * x for x in v))


def lame_ref(system: str, q: Any) -> list[Any]:
    return [_norm(row) for row in dX_of(system, q)]


def frame(system: str, q: Any) -> list[list[Any]]:
    """rows: unit vectors e_i = normalised dX/dq_i in Cartesian components."""
    out = []
    for row in dX_of(system, q):
        n = _norm(row)
        out.append([x / n for x in row])
    return out


def det3(m: Any) -> Any:
    return (m[0][0] * (m[1][1] * m[2][2] - m[1][2] * m[2][1]) - m[0][1] * (m[1][0] * m[2][2] - m[1][2] * m[2][0]) +
        m[0][2] * (m[1][0] * m[2][1] - m[1][1] * m[2][0]))


def matmul(a: Any, b: Any) -> list[list[Any]]:
    return [[sum(a[i][k] * b[k][j] for k in range(3)) for j in range(3)] for i in range(3)]


def transpose(a: Any) -> list[list[Any]]:
    return [[a[j][i] for j in range(3)] for i in range(3)]


IDENT = [[mpf(int(i == j)) for j in range(3)] for i in range(3)]


def mat_close(a: Any, b: Any) -> bool:
    scale = 1 + sum(abs(x) for row in a for x in row) + sum(abs(x) for row in b for x in row)
    return all(abs(a[i][j] - b[i][j]) <= TOL * scale for i in range(3) for j in range(3))


def vec_close(a: Any, b: Any) -> bool:
    scale = 1 + sum(abs(x) for x in a) + sum(abs(x) for x in b)
    return all(abs(x - y) <= TOL * scale for x, y in zip(a, b))


def ang_diff(a: Any, b: Any) -> Any:
    d = (a - b) % (2 * MP.pi)
    return min(d, 2 * MP.pi - d)


def coords_close(system: str, a: Any, b: Any) -> bool:
    """coordinate triples equal, angles compared modulo 2 pi."""
    scale = 1 + sum(abs(x) for x in a) + sum(abs(x) for x in b)
    for i in range(3):
        d = ang_diff(a[i], b[i]) if i in ANGLE_SLOTS[system] else abs(a[i] - b[i])
        if d > TOL * scale:
            return False
    return True


def selfcheck() -> None:
    """dX_of agrees with numerical differentiation of X_of; Q_of inverts X_of. Harness error otherwise."""
    pts = {"cart": (mpf(2) / 3, mpf(-5) / 4, mpf(7) / 5), "cyl": (mpf(3) / 2, mpf(-7) / 5, mpf(-2) / 3),
        "sph": (mpf(5) / 3, mpf(9) / 7, mpf(-11) / 6)}
    for name, q in pts.items():
        ana = dX_of(name, q)
        for i in range(3):
            for k in range(3):

                def f(t: Any, i: int = i, k: int = k) -> Any:
                    qq = list(q)
                    qq[i] = t
                    return X_of(name, qq)[k]

                num = MP.diff(f, q[i])
                if abs(num - ana[i][k]) > mpf(10)**-20:
                    raise AssertionError(f"harness dX/dq wrong for {name} [{i}][{k}]")
        back = Q_of(name, X_of(name, q))
        if not coords_close(name, back, q):
            raise AssertionError(f"harness Q_of does not invert X_of for {name}")
        fr = frame(name, q)
        if not mat_close(matmul(fr, transpose(fr)), IDENT) or abs(det3(fr) - 1) > TOL:
            raise AssertionError(f"harness frame of {name} is not a right-handed orthonormal triple")


# ------------------------------------------------------------------------------------------------
# generator

_DENS = (1, 1, 2, 3, 4, 5)
_PI_DENS = (3, 4, 5, 6, 7, 8, 12)
_PLANES = ("off",) * 7 + ("z=0", "y=0", "x=0")
_OCTANTS = tuple(itertools.product((1, -1), repeat=3))


def _pos_rat() -> st.SearchStrategy[str]:
    return st.builds(lambda n, d: f"{n}/{d}", st.sampled_from(tuple(range(1, 10))), st.sampled_from(_DENS))


def _nz_rat() -> st.SearchStrategy[str]:
    return st.builds(lambda s, r: r if s > 0 else "-" + r, st.sampled_from((-1, 1)), _pos_rat())


def _signed(sign: int, r: str) -> str:
    return r if sign > 0 else "-" + r


@st.composite
def _first_quadrant(draw: Any, kind: str) -> Fraction:
    """An angle strictly inside (0, pi/2): as a fraction of pi (kind 'pi') or in radians (kind 'q', <= 1.5)."""
    if kind == "pi":
        n = draw(st.sampled_from(_PI_DENS))
        k = draw(st.sampled_from(tuple(k for k in range(1, n) if 2 * k < n)))
        return Fraction(k, n)
    return Fraction(draw(st.sampled_from(tuple(range(1, 16)))), 10)


@st.composite
def _angle(draw: Any, upper: bool) -> Any:
    """An angle in (0, pi/2) (upper=False) or (pi/2, pi) (upper=True); rational radians stay <= 3.1 < pi."""
    kind = draw(st.sampled_from(("pi", "q")))
    if kind == "pi":
        f = draw(_first_quadrant("pi"))
        f = 1 - f if upper else f
        return ["pi", f"{f.numerator}/{f.denominator}"]
    n = draw(st.sampled_from(tuple(range(16, 32)) if upper else tuple(range(1, 16))))
    return ["q", f"{n}/10"]


def _neg(a: Any) -> Any:
    return [a[0], str(-Fraction(a[1]).numerator) + "/" + str(Fraction(a[1]).denominator)]


@st.composite
def _azimuth(draw: Any, plane: str, sx: int, sy: int) -> Any:
    """phi in (-pi, pi] in the quadrant fixed by the signs of x and y (or on the requested plane)."""
    if plane == "y=0":
        return ["pi", "0/1"] if sx > 0 else ["pi", "1/1"]
    if plane == "x=0":
        return ["pi", "1/2"] if sy > 0 else ["pi", "-1/2"]
    a = draw(_angle(upper=sx < 0))
    return a if sy > 0 else _neg(a)


@st.composite
def _coef(draw: Any) -> Any:
    kind = draw(st.sampled_from(("zero", "num", "num", "num", "num", "sym", "sym")))
    if kind == "zero":
        return ["num", "0/1"]
    if kind == "num":
        return ["num", draw(_nz_rat())]
    return ["sym", draw(st.sampled_from((0, 1))), draw(_nz_rat())]


@st.composite
def case_strategy(draw: Any) -> Any:
    system = draw(st.sampled_from(TYPES))
    plane = draw(st.sampled_from(_PLANES))
    sx, sy, sz = draw(st.sampled_from(_OCTANTS))
    if system == "cart":
        x = "0/1" if plane == "x=0" else _signed(sx, draw(_pos_rat()))
        y = "0/1" if plane == "y=0" else _signed(sy, draw(_pos_rat()))
        z = "0/1" if plane == "z=0" else _signed(sz, draw(_pos_rat()))
        q = [["q", x], ["q", y], ["q", z]]
    elif system == "cyl":
        z = "0/1" if plane == "z=0" else _signed(sz, draw(_pos_rat()))
        q = [["q", draw(_pos_rat())], draw(_azimuth(plane, sx, sy)), ["q", z]]
    else:
        theta = ["pi", "1/2"] if plane == "z=0" else draw(_angle(upper=sz < 0))
        q = [["q", draw(_pos_rat())], theta, draw(_azimuth(plane, sx, sy))]
    vec = [draw(_coef()) for _ in range(3)]
    sv = [draw(_nz_rat()), draw(_nz_rat())]
    return {"sys": system, "q": q, "vec": vec, "sv": sv, "eq": draw(st.sampled_from((True, False, False, False, False, False))),
        "container": draw(st.sampled_from(("list", "list", "tuple", "generator", "map"))),
        "fscale": draw(st.sampled_from((None, None, -60, -50, -70, 40, 0))),
        # how the vector expression is written: a plain sum of components, or a non-numeric common factor times a
        # bracketed sum of two base vectors plus the third (SymPy keeps such a product unexpanded)
        "form": draw(st.sampled_from(("sum", "sum", "factored:s0", "factored:s1", "factored:sqrt2", "factored:pi"))),
        "alone": draw(st.sampled_from((0, 1, 2))),
        # a second point ON the z axis (rho = 0 / theta in {0, pi}; inside the declared domains rho >= 0, theta >= 0),
        # off the origin: only convert_point is judged there (the azimuth is arbitrary and the base-vector tables are singular)
        "axis": draw(st.one_of(st.none(), st.tuples(st.sampled_from(("cyl", "sph")), st.builds(_signed, st.sampled_from((1, -1)), _pos_rat()),
            st.sampled_from((["pi", "1/3"], ["pi", "-3/4"], ["q", "1/2"], ["pi", "1/1"], ["q", "0/1"], ["q", "-2/1"]))).map(list)))}


def valid(case: dict[str, Any]) -> bool:
    """The description is inside the domain of its system (used by shrink/replay)."""
    try:
        system, q = case["sys"], case["q"]
        v = [coord_value(c) for c in q]
        if system == "cart":
            return all(c[0] == "q" for c in q) and not (v[0] == 0 and v[1] == 0)
        if system == "cyl":
            return q[0][0] == "q" and q[2][0] == "q" and v[0] > 0 and -MP.pi < v[1] <= MP.pi
        if system == "sph":
            return q[0][0] == "q" and v[0] > 0 and 0 < v[1] < MP.pi and -MP.pi < v[2] <= MP.pi
    except Exception:  # pylint: disable=broad-except
        return False
    return False


# ------------------------------------------------------------------------------------------------
# library side


class _Hang(Exception):
    pass


def _alarm(_s: int, _f: Any) -> None:
    raise _Hang()


class Bad(Exception):
    """A library value could not be read as a real number (left-over symbols, complex, nan)."""


_SYS: dict[str, Any] = {}


def systems() -> dict[str, Any]:
    """One set of system objects per process (cart/cyl/sph + a second distinct object of each type)."""
    if not _SYS:
        from symplyphysics.core.experimental.coordinate_systems import (CartesianCoordinateSystem,
            CylindricalCoordinateSystem, SphericalCoordinateSystem)
        import sympy
        for name, cls in (("cart", CartesianCoordinateSystem), ("cyl", CylindricalCoordinateSystem),
            ("sph", SphericalCoordinateSystem)):
            _SYS[name] = cls()
            _SYS[name + "2"] = cls()
        _SYS["s"] = [sympy.Symbol("c0", real=True), sympy.Symbol("c1", real=True)]
    return _SYS


def typ(name: str) -> str:
    return name.rstrip("2")


def to_mp(e: Any) -> Any:
    import sympy
    v = sympy.N(e, DIGITS)
    if not getattr(v, "is_number", False) or v.free_symbols or v.has(sympy.nan, sympy.zoo, sympy.oo):
        raise Bad(f"not a finite number: {str(e)[:160]}")
    re, im = v.as_real_imag()
    re, im = sympy.Float(re, DIGITS), sympy.Float(im, DIGITS)
    rv, iv = MP.make_mpf(re._mpf_), MP.make_mpf(im._mpf_)
    if abs(iv) > TOL * (1 + abs(rv)):
        raise Bad(f"complex value {v}")
    return rv


def to_sym(x: Any) -> Any:
    import sympy
    return sympy.Float(MP.nstr(x, 66, strip_zeros=False), 66)


def exact_coord(c: Any) -> Any:
    import sympy
    r = sympy.Rational(c[1])
    return r * sympy.pi if c[0] == "pi" else r


def scal_subs(system: Any, values: Any) -> dict[Any, Any]:
    return dict(zip(system.base_scalars, values))


def basis_index(system: Any, atom: Any) -> int | None:
    """Which base vector of `system` is `atom` (a VectorSymbol or an applied VectorFunction)?"""
    for j, bv in enumerate(system.args[1]):
        if atom == bv or getattr(atom, "func", None) == bv:
            return j
    return None


def read_components(expr: Any, system: Any, subs: dict[Any, Any]) -> tuple[list[Any], list[Any]]:
    """Coefficients of a linear combination of base vectors of `system` (linear evaluation e_j:=1, others:=0).
    Returns (coefficients, point arguments seen). Raises Bad on foreign vector atoms."""
    import sympy
    from symplyphysics.core.experimental.vectors import AppliedVectorFunction, VectorSymbol
    expr = sympy.sympify(expr)
    atoms = sorted(expr.atoms(VectorSymbol) | expr.atoms(AppliedVectorFunction), key=str)
    idx: dict[Any, int] = {}
    points = []
    for a in atoms:
        j = basis_index(system, a)
        if j is None:
            raise Bad(f"vector atom {a} is not a base vector of the target system")
        idx[a] = j
        if isinstance(a, AppliedVectorFunction):
            points.extend(a.args)
    e = expr.subs(subs) if subs else expr
    out = []
    for j in range(3):
        rep = {a: sympy.Integer(1 if idx[a] == j else 0) for a in atoms}
        out.append(to_mp(e.xreplace(rep)))
    # linearity self-check: no constant (vector-free) part
    zero = to_mp(e.xreplace({a: sympy.Integer(0) for a in atoms}))
    if abs(zero) > TOL * (1 + sum(abs(x) for x in out)):
        raise Bad(f"vector expression has a vector-free part: {str(expr)[:160]}")
    return out, points


def _exc_key(exc: BaseException) -> str:
    tb = traceback.extract_tb(exc.__traceback__)
    frame_ = "?"
    for fr in tb:
        if "symplyphysics" in fr.filename:
            frame_ = f"{fr.filename.split('symplyphysics/')[-1]}:{fr.name}"
    return f"{type(exc).__name__}@{frame_}"


def _show(v: Any) -> Any:
    if isinstance(v, (list, tuple)):
        return [_show(x) for x in v]
    return MP.nstr(v, 12)


# ------------------------------------------------------------------------------------------------
# one case


def judge(case: dict[str, Any]) -> list[tuple[str, str]]:
    _guard.install(_alarm)
    _guard.arm(HANG_S)
    try:
        return _judge(case)
    except _Hang:
        return [("__inconclusive__", "hang guard expired")]
    finally:
        signal.alarm(0)


def _judge(case: dict[str, Any]) -> list[tuple[str, str]]:
    # pylint: disable=too-many-locals,too-many-branches,too-many-statements
    import sympy
    from symplyphysics.core.experimental.coordinate_systems import (convert_point, convert_vector,
        express_base_scalars, express_base_vectors)
    from symplyphysics.core.experimental.points import AppliedPoint

    if not valid(case):
        raise ValueError(f"case outside the domain of its system: {case}")
    out: list[tuple[str, str]] = []
    seen: set[str] = set()

    def bad(key: str, what: str) -> None:
        if key not in seen:
            seen.add(key)
            out.append((key, what))

    S = systems()
    A = case["sys"]
    qA = [coord_value(c) for c in case["q"]]
    XA = X_of(A, qA)
    qh = {t: (qA if t == A else Q_of(t, XA)) for t in TYPES}  # harness coordinates of the physical point
    exact = {A: [exact_coord(c) for c in case["q"]]}

    def subs_for(name: str) -> dict[Any, Any]:
        t = typ(name)
        vals = exact[t] if t in exact else [to_sym(x) for x in qh[t]]
        return scal_subs(S[name], vals)

    def guarded(key: str, fn: Any) -> Any:
        try:
            return fn()
        except _Hang:
            raise
        except Bad as exc:
            bad(f"{key}:unreadable", f"{key}: {exc}")
        except Exception as exc:  # pylint: disable=broad-except
            bad(f"{key}:exception:{_exc_key(exc)}", f"{key}: {type(exc).__name__}: {exc} at {case['sys']} {case['q']}")
        return None

    pairs = [(p, q) for p in TYPES for q in TYPES if p != q] + [(t, t + "2") for t in TYPES] + [(t + "2", t) for t in TYPES]

    # ---- (1)(2) scalar tables --------------------------------------------------------------
    for P, Q in pairs:
        tag = f"{typ(P)}->{typ(Q)}" + ("(other-object)" if typ(P) == typ(Q) else "")

        def scalars(P: str = P, Q: str = Q, tag: str = tag) -> None:
            m_pq = express_base_scalars(S[P], S[Q])  # P scalars as functions of Q scalars
            m_qp = express_base_scalars(S[Q], S[P])
            if set(m_pq) != set(S[P].base_scalars):
                bad(f"scalars-keys:{tag}", f"mapping keys {list(m_pq)} are not the base scalars of the old system")
                return
            # (2) table equals geometry: P coordinates computed from Q coordinates of the same physical point
            got = [to_mp(m_pq[s].subs(subs_for(Q))) for s in S[P].base_scalars]
            want = qh[typ(P)]
            if not coords_close(typ(P), got, want):
                bad(f"scalars-vs-geometry:{tag}",
                    f"express_base_scalars({tag}) at {typ(Q)} coords {_show(qh[typ(Q)])} gives {_show(got)}, geometry says {_show(want)}")
            # (1) P -> Q -> P is the identity on P's domain
            qq = [to_mp(m_qp[s].subs(subs_for(P))) for s in S[Q].base_scalars]
            back = [to_mp(m_pq[s].subs(scal_subs(S[Q], [to_sym(x) for x in qq]))) for s in S[P].base_scalars]
            if not coords_close(typ(P), back, want):
                bad(f"scalars-roundtrip:{typ(P)}->{typ(Q)}->{typ(P)}",
                    f"base scalars {typ(P)}->{typ(Q)}->{typ(P)} at {_show(want)} come back as {_show(back)} (via {_show(qq)})")

        guarded(f"scalars:{tag}", scalars)

    # ---- (3) base-vector tables -------------------------------------------------------------
    # the coordinates reach AppliedPoint in a generated kind of container (a one-shot iterator is a legal Iterable)
    container = case.get("container", "list")

    def mkpoint(values: list[Any], system: Any) -> Any:
        if container == "tuple":
            return AppliedPoint(tuple(values), system)
        if container == "generator":
            return AppliedPoint((v for v in values), system)
        if container == "map":
            return AppliedPoint(map(sympy.sympify, values), system)
        return AppliedPoint(list(values), system)

    label = {n: mkpoint([to_sym(x) for x in qh[typ(n)]], S[n]) for n in S if n != "s"}
    label[A] = mkpoint(exact[A], S[A])
    frames = {t: frame(t, qh[t]) for t in TYPES}
    M: dict[tuple[str, str], Any] = {}
    for P, Q in pairs:
        tag = f"{typ(P)}->{typ(Q)}" + ("(other-object)" if typ(P) == typ(Q) else "")

        def table(P: str = P, Q: str = Q, tag: str = tag) -> None:
            m = express_base_vectors(S[P], S[Q], old_args=(label[P],), new_args=(label[Q],))
            olds = S[P].base_vectors(label[P])
            if set(m) != set(olds):
                bad(f"basis-keys:{tag}", f"mapping keys {list(m)} are not the old base vectors {olds}")
                return
            rows = []
            for o in olds:
                comps, _ = read_components(m[o], S[Q], subs_for(Q))
                rows.append(comps)
            M[(P, Q)] = rows
            if not mat_close(matmul(rows, transpose(rows)), IDENT):
                bad(f"basis-orthonormal:{tag}", f"base-vector table {tag} at X={_show(XA)} is not orthonormal: M={_show(rows)}")
            elif abs(det3(rows) - 1) > TOL * 10:
                bad(f"basis-det:{tag}", f"base-vector table {tag} at X={_show(XA)} has det {_show(det3(rows))}")
            want = matmul(frames[typ(P)], transpose(frames[typ(Q)]))
            if not mat_close(rows, want):
                bad(f"basis-frame:{tag}",
                    f"base-vector table {tag} at X={_show(XA)}: M={_show(rows)} but the frames e_i=normalised dX/dq_i give {_show(want)}")

        guarded(f"basis:{tag}", table)
    for P, Q in pairs:
        if (P, Q) in M and (Q, P) in M and P < Q:
            if not mat_close(M[(Q, P)], transpose(M[(P, Q)])):
                bad(f"basis-inverse:{typ(P)}<->{typ(Q)}",
                    f"table {Q}->{P} is not the transpose (inverse) of {P}->{Q} at X={_show(XA)}: {_show(M[(Q, P)])} vs {_show(M[(P, Q)])}")
    for P, Q, R in itertools.permutations(TYPES, 3):
        if (P, Q) in M and (Q, R) in M and (P, R) in M:
            if not mat_close(M[(P, R)], matmul(M[(P, Q)], M[(Q, R)])):
                bad(f"basis-via-third:{P}->{Q}->{R}",
                    f"direct base-vector conversion {P}->{R} differs from {P}->{Q}->{R} at X={_show(XA)}")
    # same-system conversion is the identity mapping
    for t in TYPES:

        def same(t: str = t) -> None:
            ms = express_base_scalars(S[t], S[t])
            if any(ms.get(s) != s for s in S[t].base_scalars):
                bad(f"same-system-scalars:{t}", f"express_base_scalars(s, s) is not the identity: {ms}")
            mv = express_base_vectors(S[t], S[t], old_args=(label[t],), new_args=(label[t],))
            if any(k != v for k, v in mv.items()):
                bad(f"same-system-vectors:{t}", f"express_base_vectors(s, s) is not the identity: {mv}")

        guarded(f"same-system:{t}", same)

    # ---- (6) Lame coefficients ----------------------------------------------------------------
    # every system OBJECT has scale factors in its own base scalars: both objects of each type are read (the second one
    # after the first - a value remembered per type instead of per object shows here)
    for name in [n for t in TYPES for n in (t, t + "2")]:

        def lame(name: str = name) -> None:
            t = typ(name)
            tag = t if name == t else f"{t}:second-object"
            hs = [to_mp(sympy.sympify(h).subs(subs_for(name))) for h in S[name].lame_coefficients]
            ref = lame_ref(t, qh[t])
            for i in range(3):
                if abs(hs[i] - ref[i]) > TOL * (1 + abs(ref[i])):
                    bad(f"lame:{tag}:{i}", f"Lame coefficient {i} of {tag} at {_show(qh[t])} is {_show(hs[i])}, |dX/dq_{i}| = {_show(ref[i])}")
            jac = to_mp(sympy.sympify(S[name].jacobian).subs(subs_for(name)))
            det = det3(dX_of(t, qh[t]))
            if abs(jac - det) > TOL * (1 + abs(det)) or abs(jac - hs[0] * hs[1] * hs[2]) > TOL * (1 + abs(det)):
                bad(f"jacobian:{tag}", f"jacobian of {tag} at {_show(qh[t])} is {_show(jac)}, det dX/dq = {_show(det)}")

        guarded(f"lame:{name}", lame)

    # ---- (4) convert_point -----------------------------------------------------------------------
    pA = label[A]
    targets = list(TYPES) + [A + "2"]
    conv: dict[str, Any] = {}

    def point_coords(p: Any) -> list[Any]:
        return [to_mp(p.coordinates[s]) for s in p.system.base_scalars]

    for B in targets:
        tag = f"{A}->{typ(B)}" + ("(other-object)" if B.endswith("2") else "")

        def cpoint(B: str = B, tag: str = tag) -> None:
            pB = convert_point(pA, S[B])
            if pB.system is not S[B] and pB.system != S[B]:
                bad(f"point-system:{tag}", "convert_point result is not in the requested system")
                return
            qB = point_coords(pB)
            XB = X_of(typ(B), qB)
            if not vec_close(XB, XA):
                bad(f"point-position:{tag}",
                    f"convert_point {tag}: {case['q']} -> {_show(qB)} has Cartesian position {_show(XB)} instead of {_show(XA)}")
                return
            # declared sign assumptions of the target's base scalars
            for s, v in zip(S[B].base_scalars, qB):
                if s.is_nonnegative and v < -TOL:
                    bad(f"point-domain:{tag}", f"convert_point {tag} gives {s} = {_show(v)} < 0 although it is declared nonnegative")
            conv[B] = pB
            # there and back
            pAA = convert_point(pB, S[A])
            if not coords_close(A, point_coords(pAA), qA):
                bad(f"point-roundtrip:{A}->{typ(B)}->{A}",
                    f"convert_point there and back: {case['q']} -> {_show(qB)} -> {_show(point_coords(pAA))}")
            elif case.get("eq"):
                verdict = bool(pAA.equals(pA))
                seen.add("__equals_true__" if verdict else "__equals_false_on_equal_points__")

        guarded(f"point:{tag}", cpoint)
    # chained: A -> B -> C against A -> C
    for B in targets:
        for C in TYPES:
            if typ(B) == C or B not in conv or C not in conv:
                continue

            def chain(B: str = B, C: str = C) -> None:
                pC = convert_point(conv[B], S[C])
                if not coords_close(C, point_coords(pC), point_coords(conv[C])):
                    bad(f"point-via-third:{A}->{typ(B)}->{C}",
                        f"convert_point {A}->{B}->{C} gives {_show(point_coords(pC))}, direct {_show(point_coords(conv[C]))}")

            guarded(f"point-chain:{A}->{typ(B)}->{C}", chain)

    # ---- (5) convert_vector ---------------------------------------------------------------------
    coef_sym = []
    coef_val = []
    svals = [r3.frac(x) for x in case["sv"]]
    for c in case["vec"]:
        if c[0] == "num":
            coef_sym.append(sympy.Rational(c[1]))
            coef_val.append(r3.frac(c[1]))
        else:
            coef_sym.append(sympy.Rational(c[2]) * S["s"][c[1]])
            coef_val.append(r3.frac(c[2]) * svals[c[1]])
    ssubs = {S["s"][j]: sympy.Rational(case["sv"][j]) for j in range(2)}
    eA = S[A].base_vectors(pA)
    form = case.get("form", "sum")
    if form.startswith("factored:"):
        g = form.split(":")[1]
        g_sym = {"s0": S["s"][0], "s1": S["s"][1], "sqrt2": sympy.sqrt(2), "pi": sympy.pi}[g]
        g_val = {"s0": svals[0], "s1": svals[1], "sqrt2": MP.sqrt(2), "pi": +MP.pi}[g]
        alone = case.get("alone", 2)
        inner = sum((eA[i] * coef_sym[i] for i in range(3) if i != alone), sympy.S.Zero)
        vA = g_sym * inner + eA[alone] * coef_sym[alone]
        coef_val = [coef_val[i] * (1 if i == alone else g_val) for i in range(3)]
    else:
        vA = sum((eA[i] * coef_sym[i] for i in range(3)), sympy.S.Zero)
    want_cart = [sum(coef_val[i] * frames[A][i][k] for i in range(3)) for k in range(3)]
    vconv: dict[str, Any] = {}

    def cart_components(v: Any, B: str) -> list[Any]:
        comps, points = read_components(v, S[B], ssubs)
        for p in points:
            if not isinstance(p, AppliedPoint):
                raise Bad(f"base vector applied to a non-point {p}")
            if not vec_close(X_of(typ(B), point_coords(p)), XA):
                raise Bad(f"result is attached to a different physical point {p}")
        fr = frames[typ(B)]
        return [sum(comps[j] * fr[j][k] for j in range(3)) for k in range(3)]

    for B in targets:
        tag = f"{A}->{typ(B)}" + ("(other-object)" if B.endswith("2") else "")

        def cvec(B: str = B, tag: str = tag) -> None:
            vB = convert_vector(vA, pA, S[B])
            got = cart_components(vB, B)
            if not vec_close(got, want_cart):
                bad(f"vector-components:{tag}",
                    f"convert_vector {tag} of {case['vec']} (written as {form}) at {case['q']}: Cartesian components {_show(got)} instead of {_show(want_cart)}; result {str(vB)[:200]}")
                return
            vconv[B] = vB

        guarded(f"vector:{tag}", cvec)
    for B in targets:
        for C in TYPES:
            if (typ(B) == C and C != A) or B not in vconv or B not in conv or B == A:
                continue
            # includes C == A (there and back)

            def vchain(B: str = B, C: str = C) -> None:
                vC = convert_vector(vconv[B], conv[B], S[C])
                got = cart_components(vC, C)
                if not vec_close(got, want_cart):
                    bad(f"vector-via-third:{A}->{typ(B)}->{C}",
                        f"convert_vector {A}->{B}->{C} of {case['vec']} at {case['q']}: Cartesian components {_show(got)} instead of {_show(want_cart)}")

            guarded(f"vector-chain:{A}->{typ(B)}->{C}", vchain)
    # ---- (7) floats at a generated scale: conversions are linear in the vector and homogeneous in the lengths ----------
    fs = case.get("fscale")
    if fs is not None:
        sc = sympy.Float(2.0**fs)  # dyadic: the scaled inputs are exact binary numbers
        len_slots = {"cart": (0, 1, 2), "cyl": (0, 2), "sph": (0,)}

        def fvector(B: str) -> None:
            # convert_vector(s * v) == s * convert_vector(v), components read in the frame of B
            vs = sum((eA[i] * (sympy.Float(float(coef_val[i])) * sc) for i in range(3)), sympy.S.Zero)
            got = cart_components(convert_vector(vs, pA, S[B]), B)
            want = [to_mp(sympy.Float(float(w)) * sc) for w in want_cart]
            size = max(abs(w) for w in want)
            if size == 0:
                return
            if any(abs(g - w) > mpf("1e-11") * size for g, w in zip(got, want)):
                bad(f"float-scale:vector:{A}->{typ(B)}", f"convert_vector of the float vector {case['vec']} * 2^{fs} at {case['q']}: Cartesian "
                    f"components {_show(got)} instead of {_show(want)}")

        def fpoint(B: str) -> None:
            qs = [sympy.Float(float(to_mp(v))) * (sc if i in len_slots[A] else 1) for i, v in enumerate(exact[A])]
            pB = convert_point(AppliedPoint(qs, S[A]), S[B])
            got = X_of(typ(B), [to_mp(pB.coordinates[x]) for x in pB.system.base_scalars])
            want = [w * to_mp(sc) for w in XA]
            size = max(abs(w) for w in want)
            if size and any(abs(g - w) > mpf("1e-11") * size for g, w in zip(got, want)):
                bad(f"float-scale:point:{A}->{typ(B)}", f"convert_point of {case['q']} with lengths * 2^{fs} (floats): Cartesian position "
                    f"{_show(got)} instead of {_show(want)}")

        for B in TYPES:
            if B != A:
                guarded(f"float-scale:vector:{A}->{B}", lambda B=B: fvector(B))
                guarded(f"float-scale:point:{A}->{B}", lambda B=B: fpoint(B))
    # ---- (8) points on the z axis: convert_point keeps the Cartesian position ---------------------------------------------
    ax = case.get("axis")
    if ax:
        asys, zs, phi_c = ax
        zsym = sympy.Rational(zs)
        coords = [0, exact_coord(phi_c), zsym] if asys == "cyl" else [abs(zsym), 0 if zsym > 0 else sympy.pi, exact_coord(phi_c)]
        want_ax = [mpf(0), mpf(0), r3.frac(zs)]

        def axis_point(B: str) -> None:
            pB = convert_point(mkpoint(coords, S[asys]), S[B])
            qB = point_coords(pB)
            XB = X_of(B, qB)
            if not vec_close(XB, want_ax):
                bad(f"axis-point-position:{asys}->{B}", f"convert_point {asys}->{B} of the on-axis point {coords}: {_show(qB)} has Cartesian "
                    f"position {_show(XB)} instead of {_show(want_ax)}")

        for B in TYPES:
            if B != asys:
                guarded(f"axis-point:{asys}->{B}", lambda B=B: axis_point(B))
        seen.add("__on_axis_point__")
    for flag in ("__equals_true__", "__equals_false_on_equal_points__", "__on_axis_point__"):
        if flag in seen:
            out.append((flag, ""))
    return out


# ------------------------------------------------------------------------------------------------
# enumerated (finite) part: symbolic Lame coefficients, refusals


def X_sym(t: str, system: Any) -> list[Any]:
    """Harness position map in the system's own base-scalar symbols (typed by hand)."""
    import sympy
    a, b, c = system.base_scalars
    if t == "cart":
        return [a, b, c]
    if t == "cyl":
        return [a * sympy.cos(b), a * sympy.sin(b), c]
    return [a * sympy.sin(b) * sympy.cos(c), a * sympy.sin(b) * sympy.sin(c), a * sympy.cos(b)]


def enumerated(rec: Recorder) -> None:
    import sympy
    from symplyphysics.core.experimental.coordinate_systems import (CartesianCoordinateSystem,
        CylindricalCoordinateSystem, SphericalCoordinateSystem, express_base_scalars, express_base_vectors)
    from symplyphysics.core.experimental.points import AppliedPoint
    S = systems()
    for t in [n for t0 in TYPES for n in (t0, t0 + "2")]:
        Xs = X_sym(typ(t), S[t])
        hs = S[t].lame_coefficients
        for i, q in enumerate(S[t].base_scalars):
            sq = sum(sympy.diff(x, q)**2 for x in Xs)
            ok = sympy.simplify(sympy.sympify(hs[i])**2 - sq) == 0
            rec.case({"lame-symbolic": t, "i": i}, nontrivial=typ(t) != "cart", labels=["enumerated:lame-symbolic"])
            if not ok:
                rec.violation(f"lame:{t}:{i}", f"Lame coefficient {i} of {t}: h^2 = {sympy.sympify(hs[i])**2} but |dX/dq|^2 = {sympy.simplify(sq)}",
                    {"enumerated": "lame", "sys": t, "i": i})
        jac = sympy.Matrix([[sympy.diff(x, q) for x in Xs] for q in S[t].base_scalars]).det()
        rec.case({"jacobian-symbolic": t}, nontrivial=typ(t) != "cart", labels=["enumerated:jacobian-symbolic"])
        if sympy.simplify(S[t].jacobian - jac) != 0:
            rec.violation(f"jacobian:{t}", f"jacobian of {t} is {S[t].jacobian}, det dX/dq = {sympy.simplify(jac)}",
                {"enumerated": "jacobian", "sys": t})
    # refusals: a type that is not registered in the dispatch tables (as the library's own tests do)
    for t, cls in (("cart", CartesianCoordinateSystem), ("cyl", CylindricalCoordinateSystem), ("sph", SphericalCoordinateSystem)):
        sub = type("Unregistered" + cls.__name__, (cls,), {})
        new = sub()
        for other in TYPES:
            for fn, fname in ((express_base_scalars, "express_base_scalars"), (express_base_vectors, "express_base_vectors")):
                for order in (0, 1):
                    args = (new, S[other]) if order == 0 else (S[other], new)
                    kw: dict[str, Any] = {}
                    if fname == "express_base_vectors":
                        # curvilinear base vectors are functions of the point: pass one, as convert_vector does
                        kw = {"old_args": (AppliedPoint([1, 1, 1], args[0]),), "new_args": (AppliedPoint([1, 1, 1], args[1]),)}
                    desc = {"enumerated": "refusal", "fn": fname, "sub": t, "other": other, "order": order}
                    if other != t:
                        # an unregistered subclass against a *different* registered type is dispatched like its
                        # parent (multipledispatch follows the MRO); the contract pins down nothing here: counted only
                        try:
                            fn(*args, **kw)
                            rec.count("enumerated:subclass-vs-other-type:accepted")
                        except TypeError:
                            rec.count("enumerated:subclass-vs-other-type:TypeError")
                        continue
                    rec.case(desc, nontrivial=True, labels=["enumerated:refusal"])
                    try:
                        fn(*args, **kw)
                    except TypeError:
                        continue
                    except Exception as exc:  # pylint: disable=broad-except
                        rec.violation(f"refusal:{fname}", f"{fname}(unregistered {t} subclass, {other}) raised {type(exc).__name__} instead of TypeError", desc)
                        continue
                    rec.violation(f"refusal:{fname}", f"{fname} accepted an unregistered system type (subclass of {t}) against {other}", desc)
        # identical unregistered type: allowed, identity
        try:
            m = express_base_scalars(new, new)
            ok = all(m.get(s) == s for s in new.base_scalars)
        except Exception:  # pylint: disable=broad-except
            ok = False
        rec.case({"enumerated": "same-unregistered", "sub": t}, nontrivial=True, labels=["enumerated:same-unregistered"])
        if not ok:
            rec.violation("same-system-scalars:unregistered", f"express_base_scalars(s, s) for an unregistered {t} subclass is not the identity",
                {"enumerated": "same-unregistered", "sub": t})


def _replay_enumerated(case: dict[str, Any]) -> list[tuple[str, str]]:
    rec = Recorder()
    enumerated(rec)
    return [(v["key"], v["what"]) for v in rec.violations if v["case"] == case]


# ------------------------------------------------------------------------------------------------
# driver


def classify(case: dict[str, Any]) -> tuple[bool, list[str]]:
    A = case["sys"]
    qA = [coord_value(c) for c in case["q"]]
    X = X_of(A, qA)
    eps = mpf(10)**-30
    labels = [f"sys={A}"]
    on_plane = [abs(x) < eps for x in X]
    off = not any(on_plane)
    if off:
        labels.append("octant=" + "".join("+" if x > 0 else "-" for x in X))
    else:
        labels.append("on-plane:" + "".join(n for n, f in zip("xyz", on_plane) if f) + "=0")
    if A != "cart":
        for slot in ANGLE_SLOTS[A]:
            labels.append(f"angle-kind={case['q'][slot][0]}")
        phi = qA[-1] if A == "sph" else qA[1]
        if phi == MP.pi:
            labels.append("phi=pi")
    nz = sum(1 for c in case["vec"] if not (c[0] == "num" and Fraction(c[1]) == 0))
    labels.append(f"vec-nonzero={nz}")
    if any(c[0] == "sym" for c in case["vec"]):
        labels.append("vec-symbolic-coefficient")
    if case.get("eq"):
        labels.append("equals-tried")
    labels.append("vector-form=" + case.get("form", "sum").split(":")[0])
    return off and nz >= 2, labels


def _shard(task: dict[str, Any]) -> Recorder:
    rec = Recorder()

    def body(case: dict[str, Any]) -> None:
        res = judge(case)
        nt, labels = classify(case)
        for key, what in res:
            if key == "__inconclusive__":
                rec.inconclusive += 1
                labels.append("hang_guard")
            elif key.startswith("__"):
                labels.append(key.strip("_"))
            else:
                rec.violation(key, what, case)
        rec.case({"s": case["sys"], "q": case["q"], "v": case["vec"]}, nontrivial=nt, labels=labels)

    hyp_run(case_strategy(), body, task["n"], task["seed"])
    return rec


def run(ctx: Ctx) -> None:
    selfcheck()
    n = ctx.pick(640, 20000)
    shards = ctx.pick(16, 64)
    import symplyphysics.core.experimental.coordinate_systems  # noqa: F401  pylint: disable=unused-import
    enumerated(ctx)
    tasks = [{"n": k, "seed": ctx.seed * 1000 + i} for i, k in enumerate(shard_counts(n, shards))]
    for status, val in run_tasks(_shard, tasks):
        if status != "ok":
            raise RuntimeError(f"C15 shard failed: {status}: {val}")
        ctx.merge(val)
    ctx.notes["per_case"] = ("12 ordered system pairs (6 cross-type + 6 same-type distinct objects) for scalar and base-vector "
        "tables, 6 ordered triples, 4 convert_point targets + round trips + chains, 4 convert_vector targets + chains, "
        "Lame/jacobian of 3 systems")
    ctx.assumptions += [
        "the harness maps X(q), q(X), dX/dq typed in vp/checks/c15.py (verified against numerical differentiation at start-up) define the geometry; experimental spherical = (r, theta polar, phi azimuth)",
        "points on the z axis (rho = 0, theta in {0, pi}) are judged for convert_point from the cylindrical / spherical system only (Cartesian position kept): the azimuth is arbitrary there and the base-vector tables divide by rho; the origin is outside the domain",
        "angles are compared modulo 2 pi; AppliedPoint.equals (simplify-based) answering False on numerically equal points is counted, not judged",
        "library expressions are evaluated by substituting numbers for the base scalars and sympy.N at 70 digits; tolerance 1e-40 relative to 1+sum|terms|",
    ]
    known = {k["key"] for k in ctx.known}
    done: set[str] = set()
    new_keys = {v["key"] for v in ctx.violations if v["key"] not in known and "enumerated" not in v["case"]}
    budget = ctx.pick(40, 240) / max(1, len(new_keys))  # total shrink time is bounded, whatever the number of buckets
    for v in list(ctx.violations):
        key = v["key"]
        if key in done or key in known or "enumerated" in v["case"]:
            continue
        done.add(key)
        small = shrink(v["case"], _candidates, lambda c, key=key: any(k == key for k, _ in judge(c)),
            budget_s=budget)
        res = [w for k, w in judge(small) if k == key]
        if res:
            ctx.violation(key, res[0], small)


_SIMPLE = {"q": ["1/1", "2/1", "-1/1", "1/2"], "pi": ["1/4", "1/3", "-1/4", "3/4"]}


def _candidates(case: dict[str, Any]) -> Any:
    for i, c in enumerate(case["vec"]):
        for r in (["num", "0/1"], ["num", "1/1"]):
            if c != r:
                vec = list(case["vec"])
                vec[i] = r
                yield {**case, "vec": vec}
    for i, c in enumerate(case["q"]):
        for kind in ("q", "pi"):
            for val in _SIMPLE[kind]:
                if [kind, val] != c:
                    q = list(case["q"])
                    q[i] = [kind, val]
                    cand = {**case, "q": q}
                    if valid(cand):
                        yield cand
    if case.get("eq"):
        yield {**case, "eq": False}
    if case.get("axis"):
        yield {**case, "axis": None}


def replay(case: dict[str, Any]) -> list[tuple[str, str]]:
    if "enumerated" in case:
        return _replay_enumerated(case)
    return [(k, w) for k, w in judge(case) if not k.startswith("__")]
