"""C05 - Quantity construction computes the SI value and dimension, or refuses.

Generated: plain-JSON expression trees built top-down *for a requested dimension vector* (so the intended
dimension is known by construction), then optionally mutated by exactly one spoiler (must be refused), one
wildcard mutation (zero/inf/NaN term of a foreign dimension; must still be accepted) or taken from the
dedicated cancelling-partial-sum / float-zero shapes. Each tree is built twice-interpretable: as library
objects (ev=1: Python operators, what callers write; ev=0: evaluate=False, structure exactly as written) and
as a model value (vp/model/qexpr.py: exact SymPy numbers + M-dim vectors + M-units factors).
Oracle: the harness model walks the SymPy object that is really handed to `Quantity(...)` (leaves resolved by
object identity to their generated meaning) and decides accept/refuse on the terms as written,
order-independently; accepted -> scale_factor / 1000**mass_exponent, convert_to_si and the dimension
dependency vector must equal the model; refused -> ValueError (or a subclass) is the pass.
"""
from __future__ import annotations

from vp import guard as _guard

import os
import signal
import traceback
from typing import Any

import sympy
from hypothesis import strategies as st

from ..boot import Ctx, Recorder, jhash
from ..hyp import hyp_run
from ..model import dims as D
from ..model import qexpr as Q
from ..model import units as MU
from ..pool import run_tasks, shard_counts
from ..shrink import get_at, replace_at, shrink

PID = "C05"
RULE = ("Hypothesis-generated JSON expression trees, built top-down for a requested M-dim vector (depth<=5) over numbers "
    "(int/rational/float/complex), SymPy units and Prefix objects, symplyphysics prefixes.*, pre-built Quantity objects "
    "(from unit, from SI-unit product, from a nested generated expression), nodes Add/Mul/Pow(rational, 0, negative, "
    "fractional)/Abs/Min/Max/sqrt/exp/sin/cos/log; classes: valid, exactly-one-spoiler (foreign-dimension term in "
    "Add/Min/Max, dimensional exponent, dimensional function argument, free symbol, unevaluated Derivative), "
    "wildcard mutation (0, 0.0, +-oo, NaN valued quantity of a foreign dimension as term / exponent / function "
    "argument), cancelling partial sums and min/max folds in generated term order; every tree built with Python "
    "operators (ev=1) or evaluate=False (ev=0). Judged against the harness model walking the SymPy object handed "
    "to Quantity(). Non-trivial = tree depth >= 2 and >= 2 distinct non-dimensionless leaf dimension vectors; "
    "distinct by hash of (tree, ev).")

KEY_FOLD_ADD = "accepted:partial-fold-wildcard:add"
KEY_FOLD_MINMAX = "accepted:partial-fold-wildcard:minmax"
KEY_FLOAT_ZERO = "refused:float-zero"

# ------------------------------------------------------------------------------------------------
# dimension palette (JSON form = tuple of 7 rational strings)


def _dj(dv: D.DimVec) -> tuple[str, ...]:
    return tuple(dv.to_json())


def _dv(dj: Any) -> D.DimVec:
    return D.from_json(list(dj))


_SPEED = MU.L / MU.T
PALETTE_DV = [MU.L, MU.M, MU.T, MU.I, MU.K, MU.N, MU.J, MU.FORCE, MU.ENERGY, MU.POWER, MU.PRESSURE, MU.CHARGE,
    MU.VOLTAGE, MU.RESIST, MU.ONE / MU.T, _SPEED, _SPEED / MU.T, MU.L**2, MU.L**3, MU.M / MU.L**3, MU.ENERGY / MU.K,
    MU.J / MU.L**2]
PALETTE = [_dj(d) for d in PALETTE_DV]
ONE_J = _dj(MU.ONE)
UNITS_BY_DIM: dict[tuple[str, ...], list[str]] = {}
for _n, (_f, _d, _x) in MU.TABLE.items():
    UNITS_BY_DIM.setdefault(_dj(_d), []).append(_n)

_POS_RATS = ["1", "2", "3", "5", "7", "12", "1/2", "3/2", "2/3", "5/4", "7/10", "1/10", "100"]
_BIG, _SMALL = "1" + "0" * 400, "1/1" + "0" * 400  # used by the fixed shapes of class "extreme" only (see g_extreme)
_FLOATS = ["0.5", "1.5", "2.25", "0.125", "3.0", "10.0", "0.1", "2.3", "1000.0", "4.4e4", "5e-3", "1.1", "1.6e-19", "6.0e23", "9.1e-31"]
_EXPONENTS = ["2", "2", "3", "-1", "-1", "-2", "1/2", "1/2", "3/2", "-1/2", "1/3", "0"]
_PREFIX_NAMES = list(MU.PREFIXES)
_WILD_TERM = ["z", "z", "zf", "inf", "ninf", "nan"]


def _small_dim(dv: D.DimVec) -> bool:
    for e in dv:
        e = sympy.Rational(e)
        if e.q > 6 or abs(e.p) > 9 * e.q:
            return False
    return True


# ------------------------------------------------------------------------------------------------
# generator (helpers take Hypothesis' draw)


def g_num(draw: Any, pos: bool, floats: bool = True) -> list[Any]:
    k = draw(st.integers(0, 9))
    if floats and k >= 7:
        s = draw(st.sampled_from(_FLOATS))
        if not pos and draw(st.integers(0, 3)) == 0:
            s = "-" + s
        return ["f", s]
    s = draw(st.sampled_from(_POS_RATS))
    if not pos and draw(st.integers(0, 3)) == 0:
        s = "-" + s
    return ["n", s]


def g_leaf(draw: Any, dj: tuple[str, ...], pos: bool, pool: Any = None) -> list[Any]:
    """A leaf of dimension dj. `pool` (C06): {"items": [(leaf_json, dj), ...]} - declared symbols, applied
    functions, derivatives; used when one of them has exactly the requested dimension."""
    if pool is not None:
        fit = [leaf for leaf, d in pool["items"] if d == dj]
        if fit and draw(st.integers(0, 9)) < 7:
            return draw(st.sampled_from(fit))
    if dj == ONE_J:
        k = draw(st.integers(0, 9))
        if k <= 2:
            return g_num(draw, pos)
        if k == 3:
            return ["u", draw(st.sampled_from(["percent", "permille", "radian", "degree"]))]
        if k == 4:
            return ["p", draw(st.sampled_from(_PREFIX_NAMES))]
        if k == 5:
            return ["sp", draw(st.sampled_from(_PREFIX_NAMES))]
        if k == 6:
            return ["q", g_num(draw, pos), draw(st.sampled_from(["percent", "radian", "degree"]))]
        return ["qs", g_num(draw, pos), list(ONE_J)]
    names = UNITS_BY_DIM.get(dj)
    k = draw(st.integers(0, 9))
    if names and k <= 7:
        name = draw(st.sampled_from(names))
        if k <= 1:
            return ["u", name]
        if k <= 4:
            return ["q", g_num(draw, pos), name]
        if k == 5:
            return ["mul", g_num(draw, pos), ["u", name]]
        if k == 6:
            return ["mul", ["p", draw(st.sampled_from(_PREFIX_NAMES))], ["u", name]]
        return ["mul", ["sp", draw(st.sampled_from(_PREFIX_NAMES))], ["u", name]]
    return ["qs", g_num(draw, pos), list(dj)]


def g_ratio(draw: Any, value: str) -> list[Any]:
    """A dimensionless tree with exactly the rational value `value`: ratio of two same-unit quantities."""
    b = draw(st.sampled_from(["1", "2", "3", "1/2"]))
    a = str(sympy.Rational(value) * sympy.Rational(b))
    form = draw(st.integers(0, 9))
    if form >= 4:
        name = draw(st.sampled_from(["meter", "second", "kilogram", "newton", "kilometer", "hour"]))
        return ["mul", ["q", ["n", a], name], ["pow", ["q", ["n", b], name], ["n", "-1"]]]
    # dimensionless only after reduction to base dimensions: the named derived dimensions do not cancel structurally
    binv = str(1 / sympy.Rational(b))
    if form == 0:
        return ["mul", ["q", ["n", a], "hertz"], ["q", ["n", binv], "second"]]
    if form == 1:
        return ["mul", ["q", ["n", a], "newton"], ["pow", ["mul", ["q", ["n", b], "kilogram"], ["q", ["n", "1"], "meter"],
            ["pow", ["q", ["n", "1"], "second"], ["n", "-2"]]], ["n", "-1"]]]
    if form == 2:
        return ["mul", ["q", ["n", a], "joule"], ["pow", ["mul", ["q", ["n", b], "newton"], ["q", ["n", "1"], "meter"]], ["n", "-1"]]]
    return ["mul", ["q", ["n", a], "watt"], ["q", ["n", binv], "second"], ["pow", ["q", ["n", "1"], "joule"], ["n", "-1"]]]


def g_exponent(draw: Any, value: str) -> list[Any]:
    k = draw(st.integers(0, 5))
    if k <= 2:
        return ["n", value]
    if k == 3:
        return ["qs", ["n", value], list(ONE_J)]
    if k == 4 and value != "0":
        return g_ratio(draw, value)
    return ["n", value]


def g_small(draw: Any, pos: bool) -> list[Any]:
    """Dimensionless tree with |value| <= ~15 (function arguments)."""
    k = draw(st.integers(0, 6))
    vals = ["1", "2", "1/2", "3", "1/3", "5/2", "4"]
    v = draw(st.sampled_from(vals))
    if not pos and draw(st.booleans()):
        v = "-" + v
    if k <= 1:
        return ["n", v]
    if k == 2:
        return ["f", draw(st.sampled_from(["0.5", "1.5", "2.25", "0.1"]))]
    if k == 3:
        return g_ratio(draw, v)
    if k == 4:
        return ["q", ["n", draw(st.sampled_from(["30", "45", "90", "180", "10"]))], "degree"]
    if k == 5:
        return ["add", ["n", v], g_ratio(draw, draw(st.sampled_from(vals)))]
    return ["qs", ["n", v], list(ONE_J)]


def g_expr(draw: Any, dj: tuple[str, ...], depth: int, pos: bool = False, force: bool = False,
    pool: Any = None) -> list[Any]:
    # pylint: disable=too-many-return-statements,too-many-branches
    if depth <= 0 or (not force and draw(st.integers(0, 99)) < (14 if pool is not None else 22)):
        return g_leaf(draw, dj, pos, pool)
    dv = _dv(dj)
    k = draw(st.integers(0, 19))
    if pool is not None and k >= 15:
        k = draw(st.sampled_from([0, 2, 4, 5, 6, 12, 15, 19]))  # C06: fewer nested quantities, more sums and products
    if k <= 3:
        n = draw(st.integers(2, 4))
        return ["add"] + [g_expr(draw, dj, depth - 1, pos, False, pool) for _ in range(n)]
    if k <= 7:
        if pool is not None and draw(st.booleans()):
            # two declared leaves times whatever is left of the requested dimension
            (la, da), (lb, db) = draw(st.sampled_from(pool["items"])), draw(st.sampled_from(pool["items"]))
            rest = dv / _dv(da) / _dv(db)
            if _small_dim(rest):
                fs = [la, lb]
                if not rest.is_dimensionless or draw(st.integers(0, 3)) == 0:
                    fs.append(g_expr(draw, _dj(rest), depth - 1, pos, False, pool))
                return ["mul"] + list(draw(st.permutations(fs)))
        choices = PALETTE + [ONE_J, dj]
        if pool is not None and draw(st.integers(0, 3)) != 0:
            choices = [d for _, d in pool["items"]]
        d1 = draw(st.sampled_from(choices))
        d2 = _dj(dv / _dv(d1))
        if not _small_dim(_dv(d2)):
            d1, d2 = ONE_J, dj
        fs = [g_expr(draw, d1, depth - 1, pos, False, pool), g_expr(draw, d2, depth - 1, pos, False, pool)]
        if draw(st.integers(0, 4)) == 0:
            fs.append(g_expr(draw, ONE_J, depth - 1, pos, False, pool))
        if draw(st.booleans()):
            fs.reverse()
        return ["mul"] + fs
    if k <= 10:
        e = draw(st.sampled_from(_EXPONENTS))
        ev = sympy.Rational(e)
        if ev == 0:
            if dj != ONE_J:
                return g_leaf(draw, dj, pos, pool)
            bd = draw(st.sampled_from(PALETTE))
            return ["pow", g_expr(draw, bd, depth - 1, True, False, pool), g_exponent(draw, "0")]
        bdv = dv**(1 / ev)
        if not _small_dim(bdv):
            return g_leaf(draw, dj, pos, pool)
        bpos = pos or ev.q != 1 or ev < 0
        if pos and ev.q == 1 and ev.p % 2 == 0 and ev > 0:
            bpos = draw(st.booleans())
        return ["pow", g_expr(draw, _dj(bdv), depth - 1, bpos, False, pool), g_exponent(draw, e)]
    if k == 11:
        return ["abs", g_expr(draw, dj, depth - 1, False, False, pool)]
    if k <= 13:
        n = draw(st.integers(2, 3))
        return [draw(st.sampled_from(["min", "max"]))] + [g_expr(draw, dj, depth - 1, pos, False, pool) for _ in range(n)]
    if k == 14:
        bdv = dv**2
        if not _small_dim(bdv):
            return g_leaf(draw, dj, pos, pool)
        return ["pow", g_expr(draw, _dj(bdv), depth - 1, True, False, pool), ["n", "1/2"]]
    if k <= 16:
        if dj != ONE_J:
            return ["Q", g_expr(draw, dj, depth - 1, pos)] if pool is None else g_leaf(draw, dj, pos, pool)
        name = "exp" if pos else draw(st.sampled_from(["exp", "sin", "cos", "log"]))
        if pool is not None and pool.get("pairs") and draw(st.booleans()):
            a, b = draw(st.sampled_from(pool["pairs"]))
            return ["fn", name, ["mul", ["S", a], ["pow", ["S", b], ["n", "-1"]]]]
        return ["fn", name, g_small(draw, name == "log")]
    if k <= 18:
        return ["Q", g_expr(draw, dj, min(depth - 1, 2), pos)]
    return g_leaf(draw, dj, pos, pool)


def expr_paths(t: Any, prefix: tuple[int, ...] = (), exponents: bool = False, into_q: bool = True) -> list[tuple[int, ...]]:
    """Positions of sub-expressions (never inside a quantity leaf; mutations stay out of exponents and function
    arguments, whose values must remain small - 3**(10**12) is a hang, not a verdict)."""
    out = [prefix]
    if t[0] in Q.LEAF_OPS or t[0] == "fn" or (t[0] == "Q" and not into_q):
        return out
    stop = 2 if (t[0] == "pow" and not exponents) else len(t)
    for i in range(1, stop):
        if isinstance(t[i], list):
            out += expr_paths(t[i], prefix + (i,), exponents, into_q)
    return out


def _has_op(t: Any, ops: tuple[str, ...]) -> bool:
    return any(o in ops for o in Q.tree_ops(t, []))


def _intended(t: Any) -> Q.Val | None:
    try:
        sem = Q.Sem()
        v = Q.jeval(t, sem)
        return None if sem.refusals else v
    except (Q.Discard, ZeroDivisionError):
        return None


def g_foreign(draw: Any, dv: D.DimVec | None, allow_one: bool = True) -> tuple[str, ...]:
    cands = [p for p in PALETTE + ([ONE_J] if allow_one else []) if dv is None or not Q.dims_close(_dv(p), dv)]
    return draw(st.sampled_from(cands))


def _place(draw: Any, op: str, a: Any, b: Any) -> list[Any]:
    return [op, a, b] if draw(st.booleans()) else [op, b, a]


def g_spoil(draw: Any, tree: list[Any]) -> tuple[list[Any], str]:
    kind = draw(st.sampled_from(["term", "term", "term", "exp_dim", "fn_arg_dim", "symbol", "derivative"]))
    ps = expr_paths(tree)
    if kind == "term":
        sums = [p for p in ps if get_at(tree, p)[0] in ("add", "min", "max")]
        if sums and draw(st.booleans()):
            p = draw(st.sampled_from(sums))
            node = list(get_at(tree, p))
            iv = _intended(node[1])
            f = g_expr(draw, g_foreign(draw, iv.dim if iv else None), draw(st.integers(0, 1)), True)
            node[draw(st.integers(1, len(node) - 1))] = f
            return replace_at(tree, p, node), "term:" + node[0]
        p = draw(st.sampled_from(ps))
        n = get_at(tree, p)
        iv = _intended(n)
        real = not _has_op(n, ("c",))
        op = draw(st.sampled_from(["add", "add", "min", "max"] if real else ["add"]))
        f = g_expr(draw, g_foreign(draw, iv.dim if iv else None), draw(st.integers(0, 1)), True)
        return replace_at(tree, p, _place(draw, op, n, f)), "term:" + op
    p = draw(st.sampled_from(ps))
    n = get_at(tree, p)
    if kind == "exp_dim":
        pows = [q for q in ps if get_at(tree, q)[0] == "pow"]
        f = ["q", ["n", draw(st.sampled_from(["1", "2", "1/2", "3"]))], draw(st.sampled_from(
            ["meter", "second", "kilogram", "newton", "kelvin", "ampere", "joule", "mole"]))]
        if pows and draw(st.booleans()):
            q = draw(st.sampled_from(pows))
            node = list(get_at(tree, q))
            node[2] = ["mul", node[2], f] if node[2] != ["n", "0"] and draw(st.booleans()) else f
            return replace_at(tree, q, node), "exp_dim"
        base = g_leaf(draw, draw(st.sampled_from(PALETTE + [ONE_J])), True)
        return replace_at(tree, p, _place(draw, "mul", n, ["pow", base, f])), "exp_dim"
    if kind == "fn_arg_dim":
        f = ["q", ["n", draw(st.sampled_from(["1", "2", "1/2"]))], draw(st.sampled_from(
            ["meter", "second", "kilogram", "newton", "kelvin"]))]
        name = draw(st.sampled_from(["exp", "sin", "cos", "log", "atan2", "besselj", "atan2"]))
        arg = f if draw(st.booleans()) else ["mul", g_small(draw, True), f]
        if name in Q.FUNCS2:
            # dimensional argument in the first or in the last position of a two-argument function
            other = ["n", draw(st.sampled_from(["1", "2", "1/2", "3"]))]
            pair = [arg, other] if draw(st.booleans()) else [other, arg]
            return replace_at(tree, p, _place(draw, "mul", n, ["fn", name, *pair])), "fn_arg_dim"
        return replace_at(tree, p, _place(draw, "mul", n, ["fn", name, arg])), "fn_arg_dim"
    if kind == "symbol":
        op = draw(st.sampled_from(["mul", "add"]))
        k = draw(st.integers(0, 5))
        if k == 0:  # a free symbol annihilated by an unevaluated zero factor / zero exponent still "remains"
            return replace_at(tree, p, _place(draw, "add", n, _place(draw, "mul", ["n", "0"], ["sym"]))), "symbol_times_zero"
        if k == 1:
            return replace_at(tree, p, _place(draw, "mul", n, ["pow", ["sym"], ["n", "0"]])), "symbol_power_zero"
        return replace_at(tree, p, _place(draw, op, n, ["sym"])), "symbol"
    return replace_at(tree, p, ["deriv", n]), "derivative"


def g_wild_leaf(draw: Any, dj: tuple[str, ...], kinds: list[str]) -> tuple[list[Any], str]:
    k = draw(st.integers(0, 9))
    if k <= 6 or dj == ONE_J:
        kind = draw(st.sampled_from(kinds))
        return ["w", kind, list(dj)], kind
    if k == 7:
        # a nested quantity whose value cancels to zero
        a = draw(st.sampled_from(["1", "2", "3/2"]))
        return ["Q", ["add", ["qs", ["n", a], list(dj)], ["qs", ["n", "-" + a], list(dj)]]], "zero_nested"
    # a product with an exactly-zero quantity factor
    return ["mul", ["w", "z", list(ONE_J)], g_leaf(draw, dj, True)], "zero_product"


def g_wildmut(draw: Any, tree: list[Any]) -> tuple[list[Any], str]:
    where = draw(st.sampled_from(["term", "term", "term", "exponent", "fn_arg"]))
    ps = expr_paths(tree)
    if where == "term":
        sums = [p for p in ps if get_at(tree, p)[0] in ("add", "min", "max")]
        if sums and draw(st.booleans()):
            p = draw(st.sampled_from(sums))
            node = list(get_at(tree, p))
            iv = _intended(node[1])
            kinds = _WILD_TERM if node[0] == "add" else ["z", "z", "zf", "inf", "ninf"]
            w, kind = g_wild_leaf(draw, g_foreign(draw, iv.dim if iv else None), kinds)
            node.insert(draw(st.integers(1, len(node))), w)
            return replace_at(tree, p, node), f"term:{node[0]}:{kind}"
        p = draw(st.sampled_from(ps))
        n = get_at(tree, p)
        iv = _intended(n)
        real = not _has_op(n, ("c",))
        op = draw(st.sampled_from(["add", "add", "min", "max"] if real else ["add"]))
        kinds = _WILD_TERM if op == "add" else ["z", "z", "zf", "inf", "ninf"]
        w, kind = g_wild_leaf(draw, g_foreign(draw, iv.dim if iv else None), kinds)
        return replace_at(tree, p, _place(draw, op, n, w)), f"term:{op}:{kind}"
    p = draw(st.sampled_from(ps))
    n = get_at(tree, p)
    kind = draw(st.sampled_from(["z", "zf"]))
    w = ["w", kind, list(g_foreign(draw, None, False))]
    if where == "exponent":
        base = g_leaf(draw, draw(st.sampled_from(PALETTE + [ONE_J])), True)
        return replace_at(tree, p, _place(draw, "mul", n, ["pow", base, w])), f"exponent:{kind}"
    name = draw(st.sampled_from(["exp", "sin", "cos"]))
    return replace_at(tree, p, _place(draw, "mul", n, ["fn", name, w])), f"fn_arg:{kind}"


def g_cancel(draw: Any) -> tuple[list[Any], tuple[str, ...] | None, str]:
    """Cancelling partial sums / min-max folds through a wildcard, in a generated term order."""
    dj = draw(st.sampled_from(PALETTE))
    spoiled = draw(st.integers(0, 3)) != 0
    fj = g_foreign(draw, _dv(dj)) if spoiled else dj
    a = draw(st.sampled_from(["1", "2", "3/2", "5", "1/2"]))
    c = draw(st.sampled_from(["1", "3", "7/2", "5"]))
    shape = draw(st.sampled_from(["add", "add", "add_scaled", "max_zero", "min_zero", "max_inf", "min_ninf"]))

    def ql(v: str) -> list[Any]:
        names = UNITS_BY_DIM.get(dj)
        if names and draw(st.booleans()):
            name = draw(st.sampled_from(names))
            f = MU.factor(name)
            if MU.exact(name) and sympy.sympify(f).is_Rational:
                return ["q", ["n", str(sympy.Rational(v) / f)], name]
        return ["qs", ["n", v], list(dj)]

    x = g_leaf(draw, fj, True) if draw(st.booleans()) else ["qs", ["n", c], list(fj)]
    if x[0] == "u":
        x = ["q", ["n", c], x[1]]
    if shape == "add":
        terms = [ql(a), ql("-" + a), x]
        op = "add"
    elif shape == "add_scaled":
        terms = [["mul", ["n", "2"], ql(a)], ql(str(-2 * sympy.Rational(a))), x]
        op = "add"
    elif shape == "max_zero":
        terms = [ql("-" + a), ["w", draw(st.sampled_from(["z", "z", "zf"])), list(dj)], x]
        op = "max"
    elif shape == "min_zero":
        terms = [ql(a), ["w", draw(st.sampled_from(["z", "z", "zf"])), list(dj)], x]
        op = "min"
    elif shape == "max_inf":
        terms = [ql(a), ["w", "inf", list(dj)], x]
        op = "max"
    else:
        terms = [ql(a), ["w", "ninf", list(dj)], x]
        op = "min"
    if draw(st.integers(0, 3)) == 0:
        terms.append(ql(draw(st.sampled_from(["2", "-3", "1/3"]))))
    terms = list(draw(st.permutations(terms)))
    node: list[Any] = [op] + terms
    wrap = draw(st.sampled_from(["none", "none", "mul", "abs", "Q", "add"]))
    root: tuple[str, ...] | None = None
    if wrap == "mul":
        node = _place(draw, "mul", node, g_leaf(draw, draw(st.sampled_from(PALETTE)), True))
    elif wrap == "abs":
        node = ["abs", node]
    elif wrap == "Q":
        node = ["Q", node]
    elif wrap == "add":
        node = _place(draw, "add", node, ql(draw(st.sampled_from(["4", "-1"]))))
    return node, root, ("spoiled:" if spoiled else "valid:") + shape


def g_fzero(draw: Any) -> tuple[list[Any], str]:
    """Float zeros (as written by a caller: Quantity(0.0, dimension=...), a bare 0.0) where the wildcard rule matters."""
    dj = draw(st.sampled_from(PALETTE))
    fj = g_foreign(draw, _dv(dj), False)
    x = g_expr(draw, dj, draw(st.integers(0, 1)), False)
    shape = draw(st.sampled_from(["add_q", "add_q", "add_bare", "minmax", "exponent", "fn_arg", "int_control"]))
    if shape == "add_q":
        return _place(draw, "add", ["w", "zf", list(fj)], x), shape
    if shape == "add_bare":
        return _place(draw, "add", ["nw", "zf"], x), shape
    if shape == "minmax":
        return _place(draw, draw(st.sampled_from(["min", "max"])), ["w", "zf", list(fj)], x), shape
    if shape == "exponent":
        return ["pow", x, ["w", "zf", list(fj)]], shape
    if shape == "fn_arg":
        return ["mul", x, ["fn", draw(st.sampled_from(["cos", "exp", "sin"])), ["w", "zf", list(fj)]]], shape
    return _place(draw, "add", ["w", "z", list(fj)], x), shape


def g_complex(draw: Any, dj: tuple[str, ...]) -> list[Any]:
    c = ["c", draw(st.sampled_from(["1", "3", "-2", "1/2"])), draw(st.sampled_from(["4", "-1", "2", "3/2"]))]
    x = g_leaf(draw, dj, False)
    k = draw(st.integers(0, 4))
    if k == 0:
        return ["mul", c, x]
    if k == 1:
        return ["abs", ["mul", c, x]]
    if k == 2:
        return ["add", ["mul", c, x], g_leaf(draw, dj, False)]
    if k == 3:
        bdv = _dv(dj)**sympy.Rational(1, 2)
        return ["pow", ["mul", c, ["qs", ["n", "2"], list(_dj(bdv))]], ["n", "2"]]
    return ["Q", ["mul", x, c]]


@st.composite
def case_strategy(draw: Any, cls: str) -> dict[str, Any]:
    ev = draw(st.integers(0, 1))
    case: dict[str, Any] = {"cls": cls, "ev": ev}
    if cls == "cancel":
        tree, _root, tag = g_cancel(draw)
        case.update(tree=tree, dim=None, tag=tag)
        return case
    if cls == "fzero":
        tree, tag = g_fzero(draw)
        case.update(tree=tree, dim=None, tag=tag)
        return case
    if cls == "extreme":
        tree, dim, tag = g_extreme(draw)
        case.update(tree=tree, dim=dim, tag=tag)
        return case
    dj = draw(st.sampled_from(PALETTE + PALETTE + [ONE_J] * 4))
    if cls == "complex":
        case.update(tree=g_complex(draw, dj), dim=list(dj), tag="complex")
        return case
    depth = draw(st.sampled_from([1, 2, 2, 3, 3, 3, 4, 4, 5]))
    tree = g_expr(draw, dj, depth, False, True)
    if cls == "valid":
        case.update(tree=tree, dim=list(dj), tag="valid")
    elif cls == "spoil":
        t2, tag = g_spoil(draw, tree)
        case.update(tree=t2, dim=None, tag="spoil:" + tag)
    else:
        t2, tag = g_wildmut(draw, tree)
        case.update(tree=t2, dim=None, tag="wild:" + tag)
    return case


def g_extreme(draw: Any) -> tuple[list[Any], Any, str]:
    """Exact, finite, non-zero magnitudes OUTSIDE the range of a double (10**400, 10**-400) in a few fixed shapes without
    float terms or cancelling sums (there the library's float arithmetic and the exact model legitimately part ways): such
    a magnitude is neither zero nor infinite, so it must keep its dimension and must not excuse a dimension mismatch."""
    r = draw(st.sampled_from([_BIG, _SMALL]))
    unit = draw(st.sampled_from(["meter", "second", "kilogram", "ampere"]))
    other = draw(st.sampled_from([u for u in ("meter", "second", "kilogram", "ampere") if u != unit]))
    shape = draw(st.sampled_from(["product", "square", "two-quantities", "sum-mismatch", "exponent"]))
    dv = MU.dim(unit)
    if shape == "product":
        return ["mul", ["n", r], ["u", unit]], list(_dj(dv)), "extreme:valid"
    if shape == "square":
        return ["mul", ["n", r], ["pow", ["u", unit], ["n", "2"]]], list(_dj(dv**2)), "extreme:valid"
    if shape == "two-quantities":
        return ["mul", ["q", ["n", r], unit], ["q", ["n", r], other]], list(_dj(dv * MU.dim(other))), "extreme:valid"
    if shape == "sum-mismatch":
        return ["add", ["q", ["n", r], unit], ["q", ["n", "3"], other]], None, "spoil:extreme:add_dims"
    return ["pow", ["n", "2"], ["q", ["n", _SMALL], unit]], None, "spoil:extreme:exp_dim"


CLASS_MIX = [("valid", 34), ("spoil", 26), ("wild", 20), ("cancel", 10), ("fzero", 6), ("complex", 4), ("extreme", 2)]

# ------------------------------------------------------------------------------------------------
# judging one case


class _Hang(Exception):
    pass


def _alarm(_s: int, _f: Any) -> None:
    raise _Hang()


def _exc_key(exc: BaseException) -> str:
    frame = "?"
    for fr in traceback.extract_tb(exc.__traceback__):
        if "symplyphysics" in fr.filename:
            frame = f"{fr.filename.split('symplyphysics/')[-1]}:{fr.name}"
    return f"exception:{type(exc).__name__}@{frame}"


class Result:

    def __init__(self) -> None:
        self.violations: list[tuple[str, str]] = []
        self.labels: list[str] = []
        self.status = "judged"  # judged | discard | excluded | inconclusive
        self.notes: list[str] = []


def _refusal_ops(refusals: list[dict[str, Any]]) -> set[str]:
    return {r["kind"] for r in refusals}


def judge_expr(expr: Any, leaves: dict[int, Q.Val], res: Result, exclude: frozenset[str], where: str) -> tuple[str, Any, Q.Val | None]:
    """Construct Quantity(expr) and judge it against the model. Returns (outcome, quantity, model value) with
    outcome in accept | refuse | stop (violation recorded / discarded / excluded)."""
    # pylint: disable=too-many-return-statements,too-many-branches,too-many-statements,too-many-locals
    from symplyphysics import Quantity
    from symplyphysics.core.convert import convert_to_si
    sem = Q.Sem()
    try:
        mv = Q.walk(expr, sem, leaves)
        # the emulations are evaluated up front: they define the excludable input classes
        sem_fz = Q.Sem(Q.Policy(float_zero_wild=False))
        Q.walk(expr, sem_fz, leaves)
    except Q.Discard as d:
        res.status = "discard"
        res.labels.append("discard:" + str(d).split(":")[0][:40])
        return "stop", None, None
    if sem.observed:
        res.labels.append("walk_observed_leaf")
    refuse = bool(sem.refusals)
    kinds = _refusal_ops(sem.refusals)
    for k in kinds:
        res.labels.append("model_refusal:" + k)
    fz_sensitive = bool(sem_fz.refusals) != refuse
    fold_nodes = [r for r in sem.refusals if r.get("amnesia_possible")]
    only_fold = refuse and len(fold_nodes) == len(sem.refusals)
    if fz_sensitive:
        res.labels.append("float_zero_decides")
        if KEY_FLOAT_ZERO in exclude:
            res.status = "excluded"
            res.labels.append("excluded:" + KEY_FLOAT_ZERO)
            return "stop", None, None
    if only_fold:
        res.labels.append("fold_through_wildcard_possible")
        ops = {("add" if r["kind"] == "add_dims" else "minmax") for r in fold_nodes}
        hit = [k for k in (KEY_FOLD_ADD, KEY_FOLD_MINMAX) if k.rsplit(":", 1)[1] in ops and k in exclude]
        if hit:
            res.status = "excluded"
            res.labels += ["excluded:" + k for k in hit]
            return "stop", None, None
    try:
        q = Quantity(expr)
        outcome = "accept"
    except ValueError as exc:
        q = exc
        outcome = "refuse"
    except _Hang:
        raise
    except Exception as exc:  # pylint: disable=broad-except
        res.violations.append((_exc_key(exc), f"{where}: {type(exc).__name__}: {str(exc)[:200]} escaped Quantity({expr})"))
        return "stop", None, None
    res.labels.append(f"lib_{outcome}/model_{'refuse' if refuse else 'accept'}")
    if refuse and outcome == "accept":
        # root cause bucket: does a library-like running fold (in the actual argument order) explain it?
        sem_em = Q.Sem(Q.Policy(float_zero_wild=False, amnesic=True))
        try:
            Q.walk(expr, sem_em, leaves)
            explained = not sem_em.refusals
        except Q.Discard:
            explained = False
        if explained and only_fold:
            op = "add" if "add_dims" in kinds else "minmax"
            key = KEY_FOLD_ADD if op == "add" else KEY_FOLD_MINMAX
            what = (f"{where}: Quantity({expr}) accepted (scale {q.scale_factor}, {q.dimension}) although its "
                f"{'Add' if op == 'add' else 'Min/Max'} terms as written have inequivalent dimensions; the running "
                f"partial result passes through 0/inf/NaN in argument order {expr.args if hasattr(expr, 'args') else ''}")
        else:
            key = "accepted:" + "+".join(sorted(kinds))
            what = f"{where}: Quantity({expr}) accepted (scale {q.scale_factor}, {q.dimension}); model refuses: {sorted(kinds)}"
        res.violations.append((key, what[:600]))
        return "stop", None, None
    if not refuse and outcome == "refuse":
        if sem_fz.refusals:
            key = KEY_FLOAT_ZERO
            what = (f"{where}: Quantity({expr}) refused ({type(q).__name__}: {str(q)[:160]}) although the offending "
                f"term is a zero (Float 0.0) and zero terms are compatible with any dimension")
        else:
            key = "refused:valid:" + type(expr).__name__
            what = f"{where}: Quantity({expr}) refused ({type(q).__name__}: {str(q)[:200]}); model accepts with dimension {mv.dim.text()}"
        res.violations.append((key, what[:600]))
        return "stop", None, None
    if refuse:
        return "refuse", None, None
    # both accept: value and dimension
    wild = sem.wild(mv)
    if wild:
        res.labels.append("accepted_wildcard_value")
    try:
        ldim = D.from_lib(q.dimension)
    except D.NotADimension as exc:
        res.violations.append(("dimension:not-si", f"{where}: dimension of Quantity({expr}) uses {exc}"))
        return "stop", None, None
    except (TypeError, ValueError) as exc:
        if not wild:
            res.violations.append(("dimension:unreadable", f"{where}: dimension {q.dimension} of Quantity({expr}): {exc}"))
            return "stop", None, None
        ldim = None
    if not wild and ldim is not None and not Q.dims_close(ldim, mv.dim):
        res.violations.append((f"dimension:{_shape(expr)}",
            f"{where}: Quantity({expr}).dimension = {ldim.text()} ; model {mv.dim.text()}"))
        return "stop", None, None
    mass = mv.dim[1] if not wild else (ldim[1] if ldim is not None else 0)
    ok, detail = Q.value_close(sympy.sympify(q.scale_factor) / sympy.Integer(1000)**mass, mv)
    if ok is None:
        res.labels.append("value_not_judged_ill_conditioned")
    elif not ok:
        res.violations.append((f"value:{_shape(expr)}", f"{where}: Quantity({expr}).scale_factor/1000^{mass}: {detail}"))
        return "stop", None, None
    if not wild:
        try:
            si = convert_to_si(q)
        except _Hang:
            raise
        except Exception as exc:  # pylint: disable=broad-except
            res.labels.append("convert_to_si_raised:" + type(exc).__name__)
            res.notes.append(f"convert_to_si raised {type(exc).__name__}: {str(exc)[:120]} for dim {mv.dim.text()}")
        else:
            ok2, detail2 = Q.value_close(si, mv)
            if ok2 is False:
                res.violations.append((f"si_value:{_shape(expr)}", f"{where}: convert_to_si(Quantity({expr})): {detail2}"))
                return "stop", None, None
    return "accept", q, Q.Val(mv.v, mv.dim, mv.inexact, mv.fz and wild, mv.mag, "qty")


def _shape(expr: Any) -> str:
    expr = sympy.sympify(expr)
    name = type(expr).__name__
    if isinstance(expr, sympy.Pow):
        e = expr.exp
        tag = "int" if e.is_Integer else ("rat" if e.is_Rational else "other")
        return f"Pow[{tag}]"
    if "Quantity" in name:
        return "Quantity"
    return name


def judge(case: dict[str, Any], exclude: frozenset[str] = frozenset(), hang_s: int = 20) -> Result:
    _guard.install(_alarm)
    _guard.arm(hang_s)
    res = Result()
    try:
        _judge(case, res, exclude)
    except _Hang:
        res.status = "inconclusive"
        res.labels.append("hang_guard")
    except ValueError as exc:
        # SymPy's integer-root code fails on some 400-digit integers ("... is not a prime factor of ..."): a limit of the
        # harness's own exact arithmetic at the out-of-double-range magnitudes, not an observation of the library
        if "is not a prime factor" not in str(exc):
            raise
        res.status = "discard"
        res.labels.append("discard:sympy-integer-root-failure")
    finally:
        signal.alarm(0)
    return res


def _judge(case: dict[str, Any], res: Result, exclude: frozenset[str]) -> None:
    # pylint: disable=too-many-branches
    tree = case["tree"]
    Q.pad_counter("QTY")
    builder = Q.Builder(case["ev"])

    def on_inner(inner: Any, t: list[Any]) -> Any:
        outcome, q, val = judge_expr(inner, builder.leaves, res, exclude, "nested")
        if outcome != "accept":
            if outcome == "refuse":
                res.labels.append("nested_refused")
            raise Q.StopCase()
        res.labels.append("nested_accepted")
        return builder.register(q, val)

    builder.on_inner = on_inner
    if KEY_FLOAT_ZERO in exclude and _has_float_zero(tree):
        res.status = "excluded"
        res.labels.append("excluded:" + KEY_FLOAT_ZERO)
        return
    try:
        expr = builder.build(tree)
    except Q.StopCase:
        return
    except Q.Discard as d:
        res.status = "discard"
        res.labels.append("discard:" + str(d).split(":")[0][:40])
        return
    outcome, _q, mv = judge_expr(expr, builder.leaves, res, exclude, "top")
    if res.status != "judged" or res.violations:
        return
    # cross-check of the harness itself: intended (JSON) model vs the walk of the built object
    jsem = Q.Sem()
    try:
        jv = Q.jeval(tree, jsem)
    except Q.Discard:
        res.labels.append("intended_not_evaluable")
        return
    jrefuse = bool(jsem.refusals)
    if jrefuse != (outcome == "refuse"):
        res.labels.append("intended_vs_built_verdict_differs")  # SymPy canonicalisation removed/created a spoiler
        return
    if outcome == "accept" and mv is not None:
        jw = jsem.wild(jv)
        if jw != Q.Sem().wild(mv):
            res.labels.append("intended_vs_built_wildcard_differs")
            return
        if not jw:
            ok, detail = Q.value_close(mv.v, jv)
            if ok is False or not Q.dims_close(mv.dim, jv.dim):
                res.status = "inconclusive"
                res.labels.append("selfcheck_intended_vs_built")
                res.notes.append(f"intended {sympy.N(jv.v, 12)} {jv.dim.text()} vs built {sympy.N(mv.v, 12)} {mv.dim.text()} {detail}")
                return
            if case.get("dim") is not None and not Q.dims_close(jv.dim, _dv(case["dim"])):
                raise AssertionError(f"generator: requested dimension {case['dim']} but tree has {jv.dim.text()}: {tree}")


def _has_float_zero(t: Any) -> bool:
    if not isinstance(t, list):
        return False
    if t and t[0] in ("w", "nw") and t[1] == "zf":
        return True
    return any(_has_float_zero(x) for x in t[1:])


def nontrivial(case: dict[str, Any]) -> bool:
    t = case["tree"]
    return Q.tree_depth(t) >= 2 and len(Q.leaf_dims(t, set())) >= 2


def case_labels(case: dict[str, Any]) -> list[str]:
    t = case["tree"]
    ops = set(Q.tree_ops(t, []))
    labels = ["class=" + case["cls"], "ev=" + str(case["ev"]), "tag=" + str(case.get("tag")),
        "depth=" + str(min(Q.tree_depth(t), 6))]
    for o in sorted(ops & {"add", "mul", "pow", "abs", "min", "max", "fn", "Q", "p", "sp", "u", "q", "qs", "w", "nw", "f", "c",
        "sym", "deriv"}):
        labels.append("has_" + o)
    return labels


# ------------------------------------------------------------------------------------------------
# driver


def _record(rec: Recorder, case: dict[str, Any], res: Result) -> None:
    labels = case_labels(case) + res.labels + ["status=" + res.status]
    if res.status == "inconclusive":
        rec.inconclusive += 1
    for n in res.notes[:1]:
        lst = rec.notes.setdefault("remarks", [])
        if len(lst) < 6:
            lst.append(n)
    for key, what in res.violations:
        rec.violation(key, what, case)
    rec.case({"t": case["tree"], "ev": case["ev"]}, nontrivial=nontrivial(case) and res.status == "judged", labels=labels)


def _shard(task: dict[str, Any]) -> Recorder:
    rec = Recorder()
    exclude = frozenset(task["exclude"])

    def body(case: dict[str, Any]) -> None:
        _record(rec, case, judge(case, exclude))

    hyp_run(case_strategy(task["cls"]), body, task["n"], task["seed"])
    return rec


def exclusions(ctx: Ctx) -> frozenset[str]:
    keys = {k["key"] for k in ctx.known if k.get("status") == "open"}
    keys |= {k for k in os.environ.get("VERIF_C05_EXCLUDE", "").split(",") if k}
    return frozenset(keys)


def run(ctx: Ctx) -> None:
    total = ctx.pick(4000, 80000)
    exclude = exclusions(ctx)
    MU.selfcheck()
    import symplyphysics  # noqa: F401  pylint: disable=unused-import
    tasks = []
    wsum = sum(w for _, w in CLASS_MIX)
    for ci, (cls, w) in enumerate(CLASS_MIX):
        n_cls = max(16, total * w // wsum)
        shards = 16 if n_cls >= 640 else 4
        for i, n in enumerate(shard_counts(n_cls, shards)):
            tasks.append({"cls": cls, "n": n, "seed": ctx.seed * 1000 + ci * 50 + i, "exclude": sorted(exclude)})
    for status, val in run_tasks(_shard, tasks):
        if status != "ok":
            raise RuntimeError(f"C05 shard failed: {status}: {val}")
        ctx.merge(val)
    ctx.notes["excluded_input_classes"] = sorted(exclude)
    ctx.assumptions += [
        "SymPy's own canonicalisation of Add/Mul/Pow (ev=1) is value- and dimension-preserving; the oracle walks the canonicalised object, the intended JSON value is cross-checked against it (label selfcheck_intended_vs_built)",
        "model values are exact SymPy numbers (Floats replaced by their binary rationals); exact cases compared at 60 digits (tol 1e-40 * sum|terms|), cases containing a Float at 1e-11 * sum|terms|; float cancellations below 1e-6 of the scale are not value-judged",
        "zoo, NaN under Min/Max, infinite exponents and function arguments are outside the judged domain (discarded, counted)",
        "argument order of Add is made reproducible by keeping the generated QTY ids of one case within one digit count (pad_counter)",
    ]
    # minimise each new bucket
    known = {k["key"] for k in ctx.known}
    seen: set[str] = set()
    for v in list(ctx.violations):
        key = v["key"]
        if key in seen or key in known:
            continue
        seen.add(key)
        small = shrink(v["case"], _candidates, lambda c, key=key: any(k == key for k, _ in judge(c, exclude).violations),
            budget_s=ctx.pick(25, 90))
        got = [w for k, w in judge(small, exclude).violations if k == key]
        if got:
            ctx.violation(key, got[0], small)


def _candidates(case: dict[str, Any]) -> Any:
    tree = case["tree"]
    for p in expr_paths(tree, (), True):
        node = get_at(tree, p)
        if node[0] in Q.LEAF_OPS:
            if node[0] in ("q", "qs") and node[1] != ["n", "1"]:
                n2 = list(node)
                n2[1] = ["n", "1"]
                yield {**case, "tree": replace_at(tree, p, n2)}
            continue
        start = 2 if node[0] == "fn" else 1
        for c in node[start:]:
            if isinstance(c, list):
                yield {**case, "tree": replace_at(tree, p, c)}
        if node[0] in ("add", "mul", "min", "max") and len(node) > 3:
            for i in range(1, len(node)):
                yield {**case, "tree": replace_at(tree, p, node[:i] + node[i + 1:])}
        yield {**case, "tree": replace_at(tree, p, ["n", "1"])}
        yield {**case, "tree": replace_at(tree, p, ["q", ["n", "1"], "meter"])}


def replay(case: dict[str, Any]) -> list[tuple[str, str]]:
    return judge(case).violations
