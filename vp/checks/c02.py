"""C02 - calculation functions return solutions of the law they belong to.

Programs: every public function of every catalogue module (exhaustive discovery; decorator specs by
closure introspection).  Inputs: Hypothesis-generated argument recipes (exact rational mantissa x 10^k,
sign, unit among all tabled units of the guard's dimension, SI prefix; a second spelling of the same
physical arguments in other units).  Oracles:
 (1) residual: substitute the SI values of the arguments and of the returned quantity for the
     corresponding symbols of the module's published equation; |lhs - rhs| <= 1e-9 * sum|terms| + 1e-10 *
     sum|d residual/d ln x_i| at 50 digits (backward-error criterion) (root-agnostic; documented magnitude / rounded-up functions are compared with that operation
     applied to the harness's own solution of the law);
 (2) metamorphic: same physical arguments in other units / keyword instead of positional -> same SI result.
"""
from __future__ import annotations

from vp import guard as _guard

import inspect
import signal
from typing import Any

from hypothesis import strategies as st

from ..boot import Ctx, Recorder
from ..catalogue import decorator_specs, import_module, module_names, public_equations, public_functions, short
from ..hyp import hyp_run
from ..model import dims, units as MU
from ..pool import run_tasks

PID = "C02"
RULE = ("Programs: all public functions of all catalogue modules (exhaustive). Inputs per function: Hypothesis-generated "
    "argument recipes - magnitude = rational mantissa x 10^k (k in -3..3 quick, -6..6 thorough; retried at microscopic scales per base dimension when the generic magnitudes leave the function's domain), sign from the symbol's "
    "assumptions, unit drawn among all tabled units of the guard's dimension plus an SI prefix, and a second spelling "
    "of the same physical values in other units. Oracles: residual of the published equation at 50 digits "
    "(tol 1e-9 x sum|terms|) and unit/call-style invariance of the SI result (rel 1e-9). "
    "Vector modules: mutual-inverse round trips of law-function pairs and calculate-function pairs on generated components. Non-trivial case: the call returned, no mantissa equals 1, at least one argument is written in a non-coherent unit; "
    "distinct by (function, recipe).")

# Functions documented to return the magnitude (absolute value) or the rounded-up integer of the law's solution.
# The oracle for them is that operation applied to the harness's own solution.  (module suffix, function) -> op
DOCUMENTED_OPS: dict[tuple[str, str], str] = {
    ("laws.dynamics.buoyant_force_from_density_and_volume", "calculate_force_buoyant"): "abs",
    ("laws.dynamics.reaction_force_from_action_force", "calculate_force_reaction"): "abs",
    ("definitions.impedance_is_resistance_and_reactance", "calculate_impedance_magnitude"): "abs",
    ("laws.electricity.circuits.filters.filter_order_from_distortion_and_frequencies", "calculate_order"): "ceiling",
    ("laws.electricity.circuits.filters.band_pass_chebyshev_filter_oder_from_distortion_and_frequencies",
    "calculate_band_pass_chebyshev_filter_order"): "ceiling",
    ("laws.electricity.circuits.filters.butterworth_filter_order_from_distortion_and_frequencies",
    "calculate_butterworth_filter_order"): "ceiling",
    ("laws.electricity.circuits.filters.high_pass_chebyshev_filter_order_from_distortion_and_frequencies",
    "calculate_chebyshev_filter_order"): "ceiling",
    ("laws.electricity.circuits.filters.low_pass_chebyshev_filter_order_from_distortion_and_frequencies",
    "calculate_low_pass_chebyshev_filter_order"): "ceiling",
}

# Hand-written domain hints (implicit preconditions every real caller respects): predicate over the SI values of
# the arguments in signature order; cases outside the domain are discarded and counted, never judged.
def _distinct_first_two(v: list[Any]) -> bool:
    return bool(v[0] != v[1])


DOMAIN_HINTS: dict[tuple[str, str], Any] = {
    # filter orders: the two distortions must differ (otherwise the law degenerates to acosh(0)/acosh(...))
    ("laws.electricity.circuits.filters.band_pass_chebyshev_filter_oder_from_distortion_and_frequencies",
    "calculate_band_pass_chebyshev_filter_order"): _distinct_first_two,
    ("laws.electricity.circuits.filters.butterworth_filter_order_from_distortion_and_frequencies",
    "calculate_butterworth_filter_order"): _distinct_first_two,
    ("laws.electricity.circuits.filters.high_pass_chebyshev_filter_order_from_distortion_and_frequencies",
    "calculate_chebyshev_filter_order"): _distinct_first_two,
    ("laws.electricity.circuits.filters.low_pass_chebyshev_filter_order_from_distortion_and_frequencies",
    "calculate_low_pass_chebyshev_filter_order"): _distinct_first_two,
    # the function sorts its two radii; the published equation is for inner < outer
    ("laws.electricity.circuits.capacitance_of_spherical_capacitor", "calculate_capacity"): lambda v: v[1] < v[2],
}

MAXP = 8


def recipe_strategy(kmax: int) -> st.SearchStrategy[Any]:
    one = st.tuples(st.integers(2, 97), st.sampled_from([1, 2, 3, 4, 5, 7, 8, 9, 10]), st.integers(-kmax, kmax),
        st.integers(0, 9), st.integers(0, 50), st.integers(0, 50), st.integers(0, 40), st.integers(0, 40))
    return st.lists(one, min_size=MAXP, max_size=MAXP)


class _Hang(BaseException):
    pass


def _alarm(_s: int, _f: Any) -> None:
    raise _Hang()


# ------------------------------------------------------------------------------------------------
# function descriptors


def describe(mod: Any, fname: str, fn: Any) -> dict[str, Any]:
    """Static description of one function: parameters, guards, symbol correspondence, target equation."""
    # pylint: disable=too-many-locals,too-many-branches
    import sympy
    from sympy.physics.units import Dimension
    from symplyphysics.core.symbols.symbols import DimensionSymbol
    spec = decorator_specs(fn)
    inner = spec["inner"]
    sig = inspect.signature(inner)
    params = []
    ok = True
    why = ""
    for pname, p in sig.parameters.items():
        if p.kind not in (p.POSITIONAL_OR_KEYWORD, p.KEYWORD_ONLY):
            ok, why = False, "varargs"
            break
        guard = spec["inputs"].get(pname)
        ann = p.annotation if p.annotation is not inspect.Parameter.empty else None
        ann_s = ann if isinstance(ann, str) else getattr(ann, "__name__", str(ann))
        sym = None
        attr = pname[:-1] if pname.endswith("_") else pname
        cand = getattr(mod, attr, None)
        if isinstance(guard, DimensionSymbol) and isinstance(guard, sympy.Symbol):
            sym = guard
        elif isinstance(cand, sympy.Symbol) and isinstance(cand, DimensionSymbol):
            sym = cand
        dim = None
        if isinstance(guard, DimensionSymbol):
            dim = guard.dimension
        elif isinstance(guard, Dimension):
            dim = guard
        elif guard is None and sym is not None:
            dim = sym.dimension
        params.append({"name": pname, "guard": guard, "ann": str(ann_s), "sym": sym, "dim": dim,
            "default": p.default is not inspect.Parameter.empty})
    out_sym = spec["output"] if isinstance(spec["output"], sympy.Symbol) else None
    if out_sym is None and fname.startswith("calculate_"):
        # no symbol-typed output guard (none at all, or validate_output_same): calculate_<x> returns the module symbol <x>
        cand = getattr(mod, fname[len("calculate_"):], None)
        if isinstance(cand, sympy.Symbol) and isinstance(cand, DimensionSymbol) and \
                not isinstance(spec["output"], Dimension) and all(cand is not q["sym"] for q in params):
            out_sym = cand
    d = {"module": mod.__name__, "name": fname, "fn": fn, "params": params, "ok": ok, "why": why, "out": spec["output"],
        "out_sym": out_sym, "decorated": spec["decorated"], "inner": inner}
    # target equation
    d["equation"] = None
    if ok and out_sym is not None and all(p["sym"] is not None for p in params):
        want = {p["sym"] for p in params} | {out_sym}
        best = None
        for attr, eq in public_equations(mod):
            if not isinstance(eq, sympy.Equality):
                continue
            fs = eq.free_symbols
            if want <= fs:
                score = (attr not in ("law", "definition"), len(fs - want))
                if best is None or score < best[0]:
                    best = (score, attr, eq)
        if best is not None:
            d["equation"] = (best[1], best[2])
    # matrix law: Eq(Matrix of unknown symbols, Matrix of expressions in the parameters' symbols) and a function that returns
    # the entries (nested tuple / matrix, row by row)
    d["matrix_equation"] = None
    if ok and params and all(p["sym"] is not None for p in params):
        psyms = {p["sym"] for p in params}
        for attr in sorted(a for a in vars(mod) if not a.startswith("_")):
            eq = getattr(mod, attr)
            if not isinstance(eq, sympy.Equality):
                continue
            lhs, rhs = eq.lhs, eq.rhs
            if not (isinstance(lhs, sympy.MatrixBase) and isinstance(rhs, sympy.MatrixBase) and lhs.shape == rhs.shape):
                continue
            entries = list(lhs)
            if all(isinstance(e, sympy.Symbol) for e in entries) and not (set(entries) & psyms) and \
                    {x for x in rhs.free_symbols if not isinstance(x, sympy.physics.units.Quantity)} <= psyms:
                d["matrix_equation"] = (attr, eq)
                break
    return d


# ------------------------------------------------------------------------------------------------
# argument construction from a recipe


def _dimvec(dim: Any) -> Any:
    from symplyphysics.core.dimensions.dimensions import AnyDimension
    if dim is None or isinstance(dim, AnyDimension):
        return None
    try:
        return dims.from_lib(dim)
    except dims.NotADimension:
        return None


def _is_angle(dim: Any) -> bool:
    return dim is not None and "angle" in str(getattr(dim, "name", dim))


def _is_any(dim: Any) -> bool:
    from symplyphysics.core.dimensions.dimensions import AnyDimension
    return isinstance(dim, AnyDimension)


ANY_DIMS = (MU.L, MU.ENERGY, MU.T, MU.M / MU.L**3, MU.CHARGE, MU.L / MU.T)
REGIMES = ("1/2", "3", "8", "11", "14", "25")  # values given to the argument of a law's exponential
MICRO = (-9, -26, -12, -6, 2, 0, 0)  # typical microscopic scales per base dimension (powers of ten)


def build_args(desc: dict[str, Any], recipe: list[Any], variant: int, profile: str = "macro") -> tuple[list[Any], list[Any], dict[str, Any]] | None:
    """Returns (library argument objects, SI values as sympy numbers, info) or None if a parameter kind is unsupported."""
    # pylint: disable=too-many-locals,too-many-branches,too-many-statements
    import sympy
    from sympy.physics import units as U
    from symplyphysics import Quantity
    args: list[Any] = []
    si: list[Any] = []
    info = {"noncoherent": False, "unit_mantissa": False, "units": []}
    seen_dims: dict[Any, int] = {}
    for i, p in enumerate(desc["params"]):
        num, den, k, sgn, u1, u2, px1, px2 = recipe[i % len(recipe)]
        if profile == "tied":
            # ties: parameters of one dimension get exactly the same SI value (boundaries of piecewise laws, a - b = 0)
            dkey = str(_dimvec(p["dim"])) if _dimvec(p["dim"]) is not None else None
            if dkey is not None and dkey in seen_dims:
                j = seen_dims[dkey]
                # the whole recipe entry is shared: same SI value in the same unit spelling (a tie written in two different
                # inexact units is a tie only up to the last bit of the conversion)
                num, den, k, sgn, u1, u2, px1, px2 = recipe[j % len(recipe)]
                info["tied"] = True
            elif dkey is not None:
                seen_dims[dkey] = i
        mant = sympy.Rational(num, den * 7)
        if profile == "decades":
            # every magnitude a power of ten: ratios of logarithms come out as exact integers now and then (the
            # boundary of the documented rounded-up results)
            mant, k = sympy.Integer(1), (num + k) % 4 - 1
        if mant == 1:
            info["unit_mantissa"] = True
        val = mant * sympy.Integer(10)**k
        sym = p["sym"]
        positive = sym is None or sym.is_positive or sym.is_nonnegative or True
        if sym is not None and sym.is_positive is None and sym.is_nonnegative is None and sym.is_real and sgn == 0:
            positive = False
        if profile == "tiny" and sym is not None and sym.is_positive is None and sym.is_nonnegative is None and sgn % 2 == 0:
            positive = False  # tiny negative magnitudes: symbols without a sign assumption may be negative
        if not positive:
            val = -val
        ann = p["ann"]
        dv = _dimvec(p["dim"])
        if dv is None and _is_any(p["dim"]):
            # a parameter of any dimension: one generated dimension for all such parameters of the call
            dv = ANY_DIMS[(recipe[0][4] + recipe[0][0]) % len(ANY_DIMS)]
            info["any_dimension"] = dv.text()
        if profile == "tiny" and dv is not None and not dv.is_dimensionless:
            val = val * sympy.Rational(1, 10**12)
        if profile == "micro" and dv is not None and dv.is_numeric():
            shift = sum(e * m for e, m in zip(dv, MICRO))
            val = val * sympy.Integer(10)**sympy.floor(shift)
        if ann in ("Fraction", "Probability"):
            v = sympy.Rational(num % 9 + 1, 10)
            args.append(v)
            si.append(v)
            info["units"].append(ann)
            continue
        if p["guard"] is None and p["sym"] is None:
            # unguarded parameter without a symbol: plain number by annotation
            if ann in ("int",):
                args.append(int(1 + num % 5))
                si.append(sympy.Integer(int(1 + num % 5)))
            elif ann in ("float", "SupportsFloat", "Rational", "Expr", "Fraction", "Probability"):
                v = sympy.Rational(num % 9 + 1, 10) if ann in ("Fraction", "Probability") else mant
                args.append(float(v) if ann == "float" else v)
                si.append(sympy.nsimplify(float(v)) if ann == "float" else v)
            else:
                return None
            info["units"].append("-")
            continue
        if dv is None:
            return None
        if "Sequence" in ann or "list" in ann or "Vector" in ann or "tuple" in ann or "Matrix" in ann:
            return None
        if dv.is_dimensionless:
            if _is_angle(p["dim"]):
                choice = (u1 if variant == 0 else u2) % 3
                if choice == 0:
                    v = val if abs(val) < 6 else mant
                    args.append(Quantity(v * U.radian))
                    si.append(v)
                    info["units"].append("radian")
                elif choice == 1:
                    v = val if abs(val) < 6 else mant
                    args.append(v)
                    si.append(v)
                    info["units"].append("number")
                else:
                    v = val if abs(val) < 6 else mant
                    deg = v * 180 / sympy.pi
                    args.append(Quantity(deg * U.degree))
                    si.append(v)
                    info["units"].append("degree")
                    info["noncoherent"] = True
                continue
            if ann in ("int",):
                n = int(1 + num % 6)
                args.append(n)
                si.append(sympy.Integer(n))
                info["units"].append("int")
                continue
            choice = (u1 if variant == 0 else u2) % 3
            v = mant if abs(val) > 50 or abs(val) < sympy.Rational(1, 50) else val
            if profile == "decades":
                v = sympy.Integer(10)**((num + i) % 3 + (1 if i % 2 else 0))
            if ann == "float":
                args.append(float(v))
                si.append(sympy.Rational(float(v)))
                info["units"].append("float")
            elif choice == 0:
                args.append(v)
                si.append(v)
                info["units"].append("number")
            elif choice == 1:
                args.append(Quantity(v))
                si.append(v)
                info["units"].append("Quantity(number)")
            else:
                args.append(Quantity(v * 100 * U.percent))
                si.append(v)
                info["units"].append("percent")
                info["noncoherent"] = True
            continue
        # dimensional quantity: coherent SI unit with prefix, or a tabled unit of that dimension
        names = MU.names_of_dim(dv)
        pick = (u1 if variant == 0 else u2)
        pre = (px1 if variant == 0 else px2)
        prefixes = [None, None, "kilo", "milli", "micro", "mega", "centi", "nano", "giga", "deci"]
        if names and pick % 3 != 0:
            uname = names[pick % len(names)]
            unit = MU.lib_unit(uname)
            f = MU.factor(uname)
            q = val / f
            if not MU.exact(uname):
                q = sympy.Rational(sympy.nsimplify(q, rational=True))
            args.append(Quantity(q * unit))
            si.append(q * f)
            info["units"].append(uname)
            if f != 1:
                info["noncoherent"] = True
        else:
            unit = dv.si_unit()
            pname = prefixes[pre % len(prefixes)]
            if pname is None:
                args.append(Quantity(val * unit))
                info["units"].append("SI")
            else:
                pf = MU.prefix_factor(pname)
                from symplyphysics import prefixes as libprefixes
                args.append(Quantity((val / pf) * getattr(libprefixes, pname) * unit))
                info["units"].append(pname + "*SI")
                info["noncoherent"] = True
            si.append(val)
    return args, si, info


def si_value(q: Any, dimvec: Any | None = None) -> Any:
    """SI value of a returned quantity/number from its scale factor (mass is stored in grams by SymPy)."""
    import sympy
    from sympy.physics.units import Quantity as SymQuantity
    if isinstance(q, SymQuantity):
        dv = dims.from_lib(q.dimension)
        return sympy.sympify(q.scale_factor) / sympy.Integer(1000)**dv[1]
    return sympy.sympify(q)


def exactify(x: Any) -> Any:
    """Replace every Float by the exact rational it stores, so that the harness's own evaluation of the
    residual is not done in double precision."""
    import sympy
    x = sympy.sympify(x)
    fl = x.atoms(sympy.Float)
    if not fl:
        return x
    return x.xreplace({f: sympy.Rational(f) for f in fl})


def _num(x: Any) -> Any:
    import sympy
    return sympy.N(x, 50)


def _terms_scale(eq: Any, sub: dict[Any, Any], qsub: dict[Any, Any]) -> Any:
    """Sum of |terms| of both sides, each term of the ORIGINAL equation evaluated separately (so that
    cancellation between terms cannot shrink the scale)."""
    import sympy
    tot = sympy.Float(0, 50)
    for side in (eq.lhs, eq.rhs):
        for t in sympy.Add.make_args(side):
            v = _num(t.xreplace(sub).xreplace(qsub))
            if v.is_number and v.is_finite:
                tot += abs(v)
    return tot


def _ill_conditioned(eq: Any, sub: dict[Any, Any], qsub: dict[Any, Any], sc: Any) -> bool:
    """True if plain (non-adaptive) evaluation of the two sides at 16 and at 60 digits disagree by more than
    1e-9 of the term scale: the formula suffers catastrophic cancellation at this input, so a double-precision
    result cannot be judged (discarded and counted, DESIGN 0.5)."""
    import mpmath
    import sympy
    try:
        syms = list(sub.keys())
        # library symbols print under their display names: lambdify needs plain dummies
        dummies = {k: sympy.Dummy(f"v{i}") for i, k in enumerate(syms)}
        expr = (eq.lhs - eq.rhs).xreplace(qsub).xreplace(dummies)
        f = sympy.lambdify([dummies[k] for k in syms], expr, modules="mpmath")

        def at(dps: int) -> Any:
            with mpmath.workdps(dps):
                vals = []
                for k in syms:
                    v = sympy.sympify(sub[k])
                    if v.is_Rational:
                        vals.append(mpmath.mpf(int(v.p)) / mpmath.mpf(int(v.q)))
                    else:
                        vals.append(mpmath.mpmathify(sympy.N(v, dps + 5)))
                return mpmath.mpmathify(f(*vals))

        lo = at(16)
        hi = at(60)
        with mpmath.workdps(60):
            if not (mpmath.isfinite(lo) and mpmath.isfinite(hi)):
                return True
            return bool(abs(lo - hi) > mpmath.mpf("1e-9") * mpmath.mpf(str(sympy.N(sc, 30))))
    except (ZeroDivisionError, OverflowError, ValueError, TypeError):
        return True
    except Exception:  # pylint: disable=broad-except
        return False


def _sensitivity(eq: Any, sub: dict[Any, Any], qsub: dict[Any, Any], res0: Any) -> Any:
    """sum_i |d residual / d ln x_i| over all substituted symbols (arguments and result), by a relative
    perturbation of 1e-18 at 50 digits.  A residual below 1e-10 times this is explained by a relative error
    of 1e-10 in one of the values, i.e. by floating-point rounding inside the function (backward error)."""
    import sympy
    h = sympy.Float("1e-18", 50)
    tot = sympy.Float(0, 50)
    for k, v in sub.items():
        if v == 0:
            continue
        s2 = dict(sub)
        s2[k] = sympy.N(v, 50) * (1 + h)
        try:
            r = _num((eq.lhs - eq.rhs).xreplace(s2).xreplace(qsub))
        except Exception:  # pylint: disable=broad-except
            continue
        if r.is_number and r.is_finite:
            tot += abs(r - res0) / h
    return tot


# ------------------------------------------------------------------------------------------------
# judging one (function, recipe)


def judge(desc: dict[str, Any], recipe: list[Any], hang_s: int = 40, profile: str = "macro") -> tuple[list[tuple[str, str]], dict[str, Any]]:
    _guard.install(_alarm)
    _guard.arm(hang_s)
    try:
        return _judge(desc, recipe, profile)
    except _Hang:
        return [], {"status": "hang"}
    finally:
        signal.alarm(0)


def _call(fn: Any, names: list[str], args: list[Any], keyword: bool) -> tuple[str, Any]:
    try:
        if keyword:
            # keywords are written in REVERSED signature order: a call by name must not depend on the order of the names
            return "ok", fn(**dict(reversed(list(zip(names, args)))))
        return "ok", fn(*args)
    except _Hang:
        raise
    except RecursionError as exc:
        return "raised", exc
    except Exception as exc:  # pylint: disable=broad-except
        return "raised", exc


def _judge_matrix(desc: dict[str, Any], site: str, res: Any, args: list[Any], si: list[Any],
    info: dict[str, Any]) -> tuple[list[tuple[str, str]], dict[str, Any]]:
    """Entries returned by the function against the right-hand matrix of the published matrix equation (SI, complex)."""
    import sympy
    from sympy.physics.units import Quantity as SymQuantity

    def flat(x: Any) -> list[Any]:
        if isinstance(x, sympy.MatrixBase):
            return list(x)
        if isinstance(x, (list, tuple)):
            return [y for e in x for y in flat(e)]
        return [x]

    attr, eq = desc["matrix_equation"]
    got = flat(res)
    want = list(eq.rhs)
    if len(got) != len(want):
        info["status"] = "non-scalar-result"
        return [], info
    sub = {p["sym"]: v for p, v in zip(desc["params"], si)}
    qsub = {q: si_value(q) for q in eq.rhs.atoms(SymQuantity)}
    try:
        wv = [sympy.N(sympy.sympify(w).xreplace(sub).xreplace(qsub), 30) for w in want]
        gv = [sympy.N(si_value(g), 30) for g in got]
    except Exception:  # pylint: disable=broad-except
        info["status"] = "unreadable-result"
        return [], info
    if not all(v.is_number and v.is_finite for v in wv + gv):
        info["status"] = "non-finite-result"
        return [], info
    info["tier"] = "residual-matrix"
    info["result_zero"] = False
    scale = max(abs(v) for v in wv + gv)
    out = []
    for i, (g, w) in enumerate(zip(gv, wv)):
        # entries of one matrix differ in dimension: each entry is judged against its own magnitude, with the rounding
        # noise of a double-precision evaluation (1e-9 relative) and nothing else
        if abs(g - w) > sympy.Float("1e-9") * (abs(g) + abs(w)) + sympy.Float("1e-300"):
            if abs(g - w) <= sympy.Float("1e-13") * scale and max(abs(g), abs(w)) < sympy.Float("1e-12") * scale:
                continue  # an entry that is zero up to rounding beside entries of order `scale`
            out.append((f"residual:{site}", f"{site} returned entry {i} = {_fmt(g)} for {_show(args)}, but the published matrix "
                f"equation '{attr}' gives {_fmt(w)} there"))
            break
    return out, info


def _infinite_mismatch(eq: Any, sub: dict[Any, Any], qsub: dict[Any, Any]) -> str | None:
    """A side of the published equation that evaluates to +oo or -oo (a piecewise law on its infinite branch) is compared
    as an extended real number: the other side must be the same infinity.  zoo/nan sides (singular points) are not judged."""
    import sympy
    try:
        lv = sympy.sympify(eq.lhs).xreplace(sub).xreplace(qsub)
        rv = sympy.sympify(eq.rhs).xreplace(sub).xreplace(qsub)
        lv, rv = sympy.N(lv, 30), sympy.N(rv, 30)
    except Exception:  # pylint: disable=broad-except
        return None
    inf = (sympy.oo, -sympy.oo)
    if lv not in inf and rv not in inf:
        return None
    for v in (lv, rv):
        if v not in inf and not (v.is_number and v.is_finite and v.is_real is not False):
            return None
    if lv == rv:
        return ""
    return f"left-hand side evaluates to {lv}, right-hand side to {rv}"


def _steer_regime(desc: dict[str, Any], a: Any, b: Any, target: Any) -> bool:
    """Replace the SI value of one parameter (in both argument variants) so that the first exponential argument of the
    published equation equals `target`.  Only for monomial-like arguments that can be solved for a positive value."""
    import sympy
    from sympy.physics.units import Quantity as SymQuantity
    from symplyphysics import Quantity
    if desc["equation"] is None:
        return False
    _attr, eq = desc["equation"]
    exps = sorted([e for e in (eq.lhs - eq.rhs).atoms(sympy.exp)], key=str)
    if not exps:
        return False
    arg = exps[0].args[0]
    args_a, si_a, _ = a
    args_b, si_b, _ = b
    params = desc["params"]
    cands = [i for i, p in enumerate(params) if p["sym"] is not None and arg.has(p["sym"]) and _dimvec(p["dim"]) is not None
        and not _dimvec(p["dim"]).is_dimensionless and isinstance(args_a[i], SymQuantity)]
    if not cands:
        return False
    i = cands[-1]
    s_i = params[i]["sym"]
    sub = {p["sym"]: v for j, (p, v) in enumerate(zip(params, si_a)) if j != i and p["sym"] is not None}
    qsub = {q: si_value(q) for q in arg.atoms(SymQuantity)}
    try:
        expr = arg.xreplace(sub).xreplace(qsub)
        sols = sympy.solve(sympy.Eq(expr, -abs(target)) if sympy.N(expr.subs(s_i, 1)) < 0 else sympy.Eq(expr, abs(target)), s_i)
        vals = [sympy.nsimplify(sympy.N(v, 30), rational=True) for v in sols if sympy.N(v).is_real and sympy.N(v) > 0]
    except Exception:  # pylint: disable=broad-except
        return False
    if not vals:
        return False
    v = sympy.Rational(sympy.N(vals[0], 12))
    unit = _dimvec(params[i]["dim"]).si_unit()
    args_a[i] = Quantity(v * unit)
    args_b[i] = Quantity((v * 1000) * getattr(__import__("symplyphysics").prefixes, "milli") * unit)
    si_a[i] = v
    si_b[i] = v
    return True


def _judge(desc: dict[str, Any], recipe: list[Any], profile: str = "macro") -> tuple[list[tuple[str, str]], dict[str, Any]]:
    # pylint: disable=too-many-locals,too-many-branches,too-many-statements,too-many-return-statements
    import sympy
    from sympy.physics.units import Quantity as SymQuantity
    site = f"{short(desc['module'])}:{desc['name']}"
    info: dict[str, Any] = {"status": "ok", "tier": "meta"}
    regime = None
    if profile.startswith("regime:"):
        regime, profile = sympy.Rational(profile.split(":")[1]), "macro"
    a = build_args(desc, recipe, 0, profile)
    b = build_args(desc, recipe, 1, profile)
    if a is None or b is None:
        seq = _judge_sequence_sum(desc, recipe)
        if seq is not None:
            return seq
        return [], {"status": "unsupported-parameter"}
    if regime is not None:
        # steer one parameter so that the argument of the law's exponential takes a chosen value (h nu / k T = 12, ...):
        # random magnitudes practically never reach the regime where an exponential law changes character
        if not _steer_regime(desc, a, b, regime):
            return [], {"status": "no-regime-to-steer"}
    args_a, si_a, inf_a = a
    args_b, si_b, _inf_b = b
    names = [p["name"] for p in desc["params"]]
    info.update({"noncoherent": inf_a["noncoherent"], "unit_mantissa": inf_a["unit_mantissa"], "units": inf_a["units"],
        "tied": bool(inf_a.get("tied"))})
    st_a, res_a = _call(desc["fn"], names, args_a, False)
    if st_a != "ok":
        info["status"] = "raised:" + type(res_a).__name__
        return [], info
    out: list[tuple[str, str]] = []
    if desc.get("matrix_equation") is not None and isinstance(res_a, (list, tuple, sympy.MatrixBase)):
        return _judge_matrix(desc, site, res_a, args_a, si_a, info)
    if isinstance(res_a, (list, tuple)) or not isinstance(res_a, (SymQuantity, sympy.Basic, int, float)):
        info["status"] = "non-scalar-result"
        return [], info
    try:
        raw = si_value(res_a)
        n0 = _num(raw)
        if n0.is_number and n0.is_finite and n0 != 0 and abs(sympy.log(abs(n0), 10)) > 200:
            # astronomically small/large results (exp of +-1e15): every comparison is ill-conditioned; discarded, counted
            return [], {"status": "extreme-result", "tied": info["tied"]}
        va = exactify(raw)
        na = _num(va)
    except Exception:  # pylint: disable=broad-except
        info["status"] = "unreadable-result"
        return [], info
    if not (na.is_number and na.is_finite):
        info["status"] = "non-finite-result"
        if na in (sympy.oo, -sympy.oo) and desc["equation"] is not None:
            attr, eq = desc["equation"]
            sub = {p["sym"]: v for p, v in zip(desc["params"], si_a)}
            sub[desc["out_sym"]] = na
            try:
                bad = _infinite_mismatch(eq, sub, {q: si_value(q) for q in eq.atoms(SymQuantity)})
            except Exception:  # pylint: disable=broad-except
                bad = None
            if bad is not None:
                info["tier"] = "residual-infinite"
            if bad:
                return [(f"residual:{site}", f"{site} returned {na} for {_show(args_a)}, but in the published equation '{attr}' the {bad}")], info
        return [], info
    info["result_zero"] = bool(na == 0)
    if na != 0 and abs(sympy.log(abs(na), 10)) > 200:
        # astronomically small/large results (exp of +-1e15): every comparison is ill-conditioned; discarded, counted
        info["status"] = "extreme-result"
        return [], info
    # (2) metamorphic: other units + keyword call
    same_physical = all(sympy.simplify(x - y) == 0 for x, y in zip(si_a, si_b))
    if same_physical and info["result_zero"]:
        info["invariance_skipped"] = "zero-result"  # typically an underflow (2**-9e6); nothing to compare
    elif same_physical:
        st_b, res_b = _call(desc["fn"], names, args_b, True)
        if st_b != "ok" and _perturbation_sensitive(desc, names, args_a, na):
            info["invariance_skipped"] = "ill-conditioned"
        elif st_b != "ok":
            import re as _re
            cls = f"unit-or-call-style-dependence:{site}"
            if type(res_b).__name__ == "UnitsError" and _re.search(r"\*\*-?\d+\.\d+", str(res_b)):
                # root cause bucket: dimension exponents that are floats do not cancel exactly when the same
                # dimension is spelled in two ways (volt vs kg*m^2/(A*s^3))
                cls = "unit-spelling-dependence:float-exponent-dimension-rounding"
            out.append((cls,
                f"{site} returns {_fmt(na)} for {_show(args_a)} (positional) but raises {type(res_b).__name__}: {res_b} for the same "
                f"physical arguments {_show(args_b)} passed by keyword"))
        else:
            try:
                nb = _num(si_value(res_b))
                scale = abs(na) + abs(nb)
                extreme = na != 0 and abs(sympy.log(abs(na), 10)) > 100
                if not extreme and abs(na - nb) > sympy.Float("1e-7") * scale and _perturbation_sensitive(desc, names, args_a, na):
                    info["invariance_skipped"] = "ill-conditioned"
                elif not extreme and abs(na - nb) > sympy.Float("1e-7") * scale:
                    out.append((f"unit-or-call-style-dependence:{site}",
                        f"{site}: SI result {_fmt(na)} for {_show(args_a)} but {_fmt(nb)} for the same physical arguments {_show(args_b)}"))
            except Exception:  # pylint: disable=broad-except
                pass
    # (1) residual
    if desc["equation"] is None:
        return out, info
    attr, eq = desc["equation"]
    info["tier"] = "residual"
    sub = {p["sym"]: v for p, v in zip(desc["params"], si_a)}
    sub[desc["out_sym"]] = va
    try:
        qsub = {q: si_value(q) for q in eq.atoms(SymQuantity)}
        expr = (eq.lhs - eq.rhs).xreplace(sub).xreplace(qsub)
    except _Hang:
        raise
    except Exception as exc:  # pylint: disable=broad-except
        info["tier"] = "meta"
        info["residual_skipped"] = f"substitution:{type(exc).__name__}"
        return out, info
    if expr.free_symbols:
        info["tier"] = "meta"
        info["residual_skipped"] = "free-symbols-left"
        return out, info
    if any(isinstance(n, (sympy.Derivative, sympy.Integral, sympy.core.function.AppliedUndef)) for n in sympy.preorder_traversal(expr)):
        info["tier"] = "meta"
        info["residual_skipped"] = "calculus-node"
        return out, info
    hint = DOMAIN_HINTS.get((short(desc["module"]), desc["name"]))
    if hint is not None and not hint(si_a):
        info["tier"] = "meta"
        info["residual_skipped"] = "outside-domain-hint"
        return [o for o in out if not o[0].startswith("unit-or")], info
    try:
        res = _num((eq.lhs - eq.rhs).xreplace(sub).xreplace(qsub))
        sc = _terms_scale(eq, sub, qsub)
        if not (res.is_number and res.is_finite and sc.is_number and sc.is_finite):
            bad = _infinite_mismatch(eq, sub, qsub)
            if bad:
                out.append((f"residual:{site}", f"{site} returned {_fmt(na)} for {_show(args_a)}, but in the published equation '{attr}' the {bad}"))
                return out, info
            info["residual_skipped"] = "non-finite" if bad is None else "infinite-sides-agree"
            return out, info
        if sc != 0 and abs(sympy.log(sc, 10)) > 200:
            info["residual_skipped"] = "extreme-terms"
            return out, info
        tol = sympy.Float("1e-9") * sc
        if abs(res) > tol:
            tol = tol + sympy.Float("1e-10") * _sensitivity(eq, sub, qsub, res)
        if abs(res) > tol and DOCUMENTED_OPS.get((short(desc["module"]), desc["name"])) == "ceiling":
            n_exact = _exact_integer_solution(desc, sub)
            if n_exact is not None:
                # the solution of the law is EXACTLY an integer (decided symbolically): its rounded-up value is itself; the
                # perturbation test below would call this discontinuity ill-conditioned and skip it
                info["documented_op"] = "ceiling-at-exact-integer"
                if na != n_exact:
                    out.append((f"residual:{site}", f"{site} returned {_fmt(na)} for {_show(args_a)}, but the solution of the published "
                        f"equation '{attr}' is exactly the integer {n_exact}, whose rounded-up value is {n_exact}"))
                return out, info
        if abs(res) > tol and (_ill_conditioned(eq, sub, qsub, sc) or _perturbation_sensitive(desc, names, args_a, na)):
            info["residual_skipped"] = "ill-conditioned-in-double-precision"
            return out, info
    except _Hang:
        raise
    except Exception as exc:  # pylint: disable=broad-except
        info["residual_skipped"] = f"evaluation:{type(exc).__name__}"
        return out, info
    if abs(res) > tol:
        op = DOCUMENTED_OPS.get((short(desc["module"]), desc["name"]))
        if op is not None and _documented_ok(op, desc, sub, qsub, va):
            info["documented_op"] = op
            return out, info
        out.append((f"residual:{site}", _residual_msg(site, attr, args_a, na, res, sc)))
    return out, info


def _perturbation_sensitive(desc: dict[str, Any], names: list[str], args: list[Any], na: Any) -> bool:
    """True if multiplying each quantity argument by (1 + 1e-13) changes the SI result by more than 1e-9
    (relative) or makes the call fail: the case sits on a domain boundary or amplifies rounding (phases of
    1e12 rad, catastrophic cancellation), so a difference between two spellings of the same value proves nothing."""
    import sympy
    from sympy.physics.units import Quantity as SymQuantity
    from symplyphysics import Quantity
    eps = 1 + sympy.Rational(1, 10**13)
    for i, a in enumerate(args):
        if not isinstance(a, SymQuantity):
            continue
        pert = list(args)
        pert[i] = Quantity(a.scale_factor * eps, dimension=a.dimension)
        stt, res = _call(desc["fn"], names, pert, False)
        if stt != "ok":
            return True
        try:
            n2 = _num(si_value(res))
            if not n2.is_number or abs(n2 - na) > sympy.Float("1e-9") * (abs(n2) + abs(na)):
                return True
        except Exception:  # pylint: disable=broad-except
            return True
    # is the function's own double-precision evaluation reliable here?  Same arguments as 15-digit and as
    # 30-digit floats (SymPy then computes in that precision); a difference means rounding is amplified.
    outs = []
    for digits in (15, 30, 0):
        # 0: every magnitude as the exact rational it stores (SymPy then computes exactly / symbolically)
        conv = (lambda x, digits=digits: sympy.Float(x, digits)) if digits else (lambda x: exactify(sympy.sympify(x)))
        fargs = [Quantity(conv(a.scale_factor), dimension=a.dimension) if isinstance(a, SymQuantity) and
            sympy.sympify(a.scale_factor).is_real else a for a in args]
        stt, res = _call(desc["fn"], names, fargs, False)
        if stt != "ok":
            return True
        try:
            outs.append(_num(si_value(res)))
        except Exception:  # pylint: disable=broad-except
            return True
    if not all(o.is_number for o in outs):
        return True
    for o in outs[1:]:
        if abs(outs[0] - o) > sympy.Float("1e-9") * (abs(outs[0]) + abs(o)):
            return True
    return False


def _judge_sequence_sum(desc: dict[str, Any], recipe: list[Any]) -> tuple[list[tuple[str, str]], dict[str, Any]] | None:
    """Family adapter: a function with a single sequence-valued parameter guarded by an IndexedSymbol x whose module
    publishes Eq(total, IndexedSum(x[i], i)) (or Eq(IndexedSum(x[i], i), 0), where the function returns the missing
    element).  Oracle: the returned SI value equals the sum of the SI values of the generated elements (exact rationals),
    resp. minus that sum."""
    # pylint: disable=too-many-locals,too-many-return-statements
    import sympy
    from sympy.physics.units import Quantity as SymQuantity
    from symplyphysics import Quantity
    from symplyphysics.core.operations.sum_indexed import IndexedSum
    from symplyphysics.core.symbols.symbols import IndexedSymbol
    params = desc["params"]
    if len(params) != 1 or not isinstance(params[0]["guard"], IndexedSymbol):
        return None
    base = params[0]["guard"]
    mod = import_module(desc["module"])
    target = None
    for attr, eq in public_equations(mod):
        if not isinstance(eq, sympy.Equality):
            continue
        for side, other in ((eq.rhs, eq.lhs), (eq.lhs, eq.rhs)):
            if isinstance(side, IndexedSum) and isinstance(side.args[0], sympy.Indexed) and side.args[0].base == base:
                target = (attr, "total" if other != 0 else "zero")
    if target is None:
        return None
    dv = _dimvec(base.dimension)
    if dv is None:
        return None
    site = f"{short(desc['module'])}:{desc['name']}"
    n = 1 + recipe[0][3] % 4
    elems, si = [], []
    for i in range(n):
        num, den, k, sgn, u1, _u2, px1, _px2 = recipe[i % len(recipe)]
        val = sympy.Rational(num, den * 7) * sympy.Integer(10)**(k % 3)
        if target[1] == "zero" and sgn % 2:
            val = -val
        if dv.is_dimensionless:
            elems.append(float(val) if "float" in params[0]["ann"] else val)
            si.append(sympy.Rational(float(val)) if "float" in params[0]["ann"] else val)
            continue
        names = MU.names_of_dim(dv)
        if names and u1 % 2:
            un = names[u1 % len(names)]
            f = MU.factor(un)
            q = val / f
            if not MU.exact(un):
                q = sympy.Rational(sympy.nsimplify(q, rational=True))
            elems.append(Quantity(q * MU.lib_unit(un)))
            si.append(q * f)
        else:
            elems.append(Quantity(val * dv.si_unit()))
            si.append(val)
        _ = px1
    try:
        res = desc["fn"](elems)
    except _Hang:
        raise
    except Exception as exc:  # pylint: disable=broad-except
        return [], {"status": "raised:" + type(exc).__name__, "tier": "sequence-sum"}
    try:
        got = _num(si_value(res)) if isinstance(res, (SymQuantity, sympy.Basic, int, float)) else None
    except Exception:  # pylint: disable=broad-except
        got = None
    if got is None or not got.is_number:
        return [], {"status": "unreadable-result", "tier": "sequence-sum"}
    want = sum(si, sympy.S.Zero) * (1 if target[1] == "total" else -1)
    info = {"status": "ok", "tier": "sequence-sum", "noncoherent": True, "unit_mantissa": False, "units": ["sequence"],
        "result_zero": bool(got == 0)}
    if abs(got - want) > sympy.Float("1e-9") * (abs(got) + abs(want)) + sympy.Float("1e-30"):
        ok_int = isinstance(res, int) and abs(got - want) < 1  # integer-returning counters truncate
        if not ok_int:
            return [(f"residual:{site}", f"{site}({[str(e) for e in elems]}) returned SI value {_fmt(got)} but the module's equation "
                f"'{target[0]}' gives {_fmt(want)} for these elements")], info
    return [], info


def _residual_msg(site: str, attr: str, args: list[Any], na: Any, res: Any, sc: Any) -> str:
    return (f"{site}({_show(args)}) returned SI value {_fmt(na)}, which does not satisfy the module's equation '{attr}': "
        f"|lhs - rhs| = {_fmt(abs(res))} against a term scale of {_fmt(sc)}")


def _fmt(x: Any) -> str:
    import sympy
    try:
        return str(sympy.N(x, 15))
    except Exception:  # pylint: disable=broad-except
        return repr(x)


def _exact_integer_solution(desc: dict[str, Any], sub: dict[Any, Any]) -> Any:
    """The unique real solution of the published equation for the output symbol if it is exactly an integer, else None."""
    import sympy
    _attr, eq = desc["equation"]
    out = desc["out_sym"]
    try:
        sols = sympy.solve(eq, out)
        inputs = {k: exactify(v) for k, v in sub.items() if k != out}
        exact = [sympy.simplify(s.xreplace(inputs)) for s in sols]
    except Exception:  # pylint: disable=broad-except
        return None
    ints = [e for e in exact if e.is_Integer]
    if len(exact) != 1 or not ints:
        return None
    # the tie must survive plain double-precision evaluation as well (log(0.1)/log(10) is -0.9999999999999998 in doubles:
    # a function working in floats may then legitimately round the other way)
    try:
        syms = sorted(inputs, key=str)
        dummies = {k: sympy.Dummy(f"v{i}") for i, k in enumerate(syms)}  # library symbols print under display names
        f = sympy.lambdify([dummies[k] for k in syms], sols[0].xreplace(dummies), modules="math")
        fval = f(*[float(inputs[k]) for k in syms])
    except Exception:  # pylint: disable=broad-except
        return None
    return ints[0] if fval == float(ints[0]) else None


def _documented_ok(op: str, desc: dict[str, Any], sub: dict[Any, Any], qsub: dict[Any, Any], va: Any) -> bool:
    """result == op(solution) where the solution is obtained by the harness from the published equation."""
    import sympy
    _attr, eq = desc["equation"]
    out = desc["out_sym"]
    try:
        sols = sympy.solve(eq, out)
    except Exception:  # pylint: disable=broad-except
        return False
    inputs = {k: v for k, v in sub.items() if k != out}
    real_solutions = 0
    for s in sols:
        v = _num(s.xreplace(inputs).xreplace({q: qsub.get(q, si_value(q)) for q in s.atoms(sympy.physics.units.Quantity)}))
        if not v.is_number or not v.is_finite or (op == "ceiling" and not v.is_real):
            continue
        real_solutions += 1
        want = abs(v) if op == "abs" else sympy.ceiling(v)
        if op == "ceiling":
            # an exactly integral solution is its own rounded-up value: decide it exactly, not from 50 digits
            try:
                exact = sympy.nsimplify(sympy.simplify(exactify(s.xreplace(inputs))), rational=False)
                if exact.is_Integer or abs(v - sympy.nint(v)) < sympy.Float("1e-40"):
                    want = sympy.Integer(sympy.nint(v))
            except Exception:  # pylint: disable=broad-except
                pass
        if abs(_num(va) - want) <= sympy.Float("1e-9") * (abs(want) + 1):
            return True
    # no usable reference solution at this input (degenerate arguments): cannot be judged
    return real_solutions == 0


def _show(args: list[Any]) -> str:
    from sympy.physics.units import Quantity as SymQuantity
    parts = []
    for a in args:
        if isinstance(a, SymQuantity):
            parts.append(f"Q[{a.scale_factor} {a.dimension.name}]")
        else:
            parts.append(str(a))
    return ", ".join(parts)[:300]


# ------------------------------------------------------------------------------------------------
# driver


def _shard(task: dict[str, Any]) -> Recorder:
    import sympy
    rec = Recorder()
    recipes: list[Any] = []
    hyp_run(recipe_strategy(task["kmax"]), recipes.append, task["k"] * 3, task["seed"])
    recipes = recipes[-task["k"]:] if len(recipes) >= task["k"] else recipes
    from . import c02_vector
    for modname in task["mods"]:
        try:
            mod = import_module(modname)
        except Exception:  # pylint: disable=broad-except
            rec.count("module_not_importable")
            continue
        if ".vector." in modname:
            c02_vector.run_module(modname, [[list(x) for x in r] for r in recipes], rec)
        for fname, fn in public_functions(mod):
            desc = describe(mod, fname, fn)
            site = f"{short(modname)}:{fname}"
            rec.count("functions")
            if desc["equation"] is not None:
                rec.count("functions_with_residual_oracle")
            returned = 0
            tiers = set()
            for r_i, recipe in enumerate(recipes):
                res, info = judge(desc, recipe)
                profile = "macro"
                if info.get("status", "ok").split(":")[0] in ("raised", "non-finite-result", "extreme-result"):
                    # generic magnitudes left the function's domain: retry with microscopic scales
                    res2, info2 = judge(desc, recipe, profile="micro")
                    if info2.get("status") == "ok":
                        res, info, profile = res2, info2, "micro"
                if r_i == 0 or task.get("tiny_all"):
                    # additional attempt: every dimensional magnitude 1e-12 times smaller, negative signs allowed
                    res3, info3 = judge(desc, recipe, profile="tiny")
                    if info3.get("status") == "ok":
                        rec.count("profile:tiny-returned")
                        for key, what in res3:
                            rec.violation(key, what, {"module": modname, "function": fname, "recipe": recipe, "profile": "tiny"})
                        rec.case({"f": site, "r": recipe, "p": "tiny"}, nontrivial=bool(info3.get("noncoherent")) and not info3.get("result_zero"),
                            labels=["profile:tiny", "tier:" + str(info3.get("tier"))])
                    elif info3.get("status") == "hang":
                        rec.inconclusive += 1
                if r_i == 0 and desc["equation"] is not None and (desc["equation"][1].lhs - desc["equation"][1].rhs).has(sympy.exp):
                    targets = REGIMES if task.get("tiny_all") or task.get("all_regimes") else [REGIMES[(len(site) + k_) % len(REGIMES)] for k_ in (0, 3)]
                    for tg in targets:
                        res6, info6 = judge(desc, recipe, profile="regime:" + tg)
                        st6 = str(info6.get("status", "ok")).split(":")[0]
                        for key, what in res6:
                            rec.violation(key, what, {"module": modname, "function": fname, "recipe": recipe, "profile": "regime:" + tg})
                        if st6 == "hang":
                            rec.inconclusive += 1
                        if st6 != "no-regime-to-steer":
                            rec.case({"f": site, "r": recipe, "p": "regime:" + tg}, nontrivial=st6 == "ok",
                                labels=["profile:regime", "regime:status:" + st6, "regime:tier:" + str(info6.get("tier"))])
                if DOCUMENTED_OPS.get((short(modname), fname)) == "ceiling":
                    # documented rounded-up results: magnitudes that are powers of ten hit exactly integral solutions
                    for rot in range(6):
                        rr = [list(x) for x in recipe]
                        rr = rr[rot % len(rr):] + rr[:rot % len(rr)]
                        res5, info5 = judge(desc, [tuple(x) for x in rr], profile="decades")
                        st5 = str(info5.get("status", "ok")).split(":")[0]
                        for key, what in res5:
                            rec.violation(key, what, {"module": modname, "function": fname, "recipe": rr, "profile": "decades"})
                        rec.case({"f": site, "r": rr, "p": "decades"}, nontrivial=st5 == "ok",
                            labels=["profile:decades", "decades:status:" + st5] + (["decades:documented_op"] if info5.get("documented_op") else []))
                if r_i == 0 or task.get("tiny_all"):
                    # additional attempt: parameters of equal dimension tied to the same SI value
                    res4, info4 = judge(desc, recipe, profile="tied")
                    if info4.get("tied") or info4.get("status") not in (None, "unsupported-parameter"):
                        st4 = str(info4.get("status", "ok")).split(":")[0]
                        for key, what in res4:
                            rec.violation(key, what, {"module": modname, "function": fname, "recipe": recipe, "profile": "tied"})
                        if st4 == "hang":
                            rec.inconclusive += 1
                        if info4.get("tied"):
                            rec.case({"f": site, "r": recipe, "p": "tied"}, nontrivial=st4 in ("ok", "non-finite-result"),
                                labels=["profile:tied", "tied:status:" + st4, "tier:" + str(info4.get("tier"))])
                status = info.get("status", "ok")
                labels = ["status:" + status.split(":")[0], "profile:" + profile]
                if status == "hang":
                    rec.inconclusive += 1
                    rec.notes.setdefault("hang_guard_expired", []).append(site)
                    break  # do not spend another guard period on the same function
                if status == "ok":
                    returned += 1
                    tiers.add(info.get("tier"))
                    labels.append("tier:" + str(info.get("tier")))
                    if info.get("residual_skipped"):
                        labels.append("residual_skipped:" + info["residual_skipped"].split(":")[0])
                    if info.get("documented_op"):
                        labels.append("documented_op")
                nt = status == "ok" and info.get("noncoherent") and not info.get("unit_mantissa") and not info.get("result_zero")
                for key, what in res:
                    rec.violation(key, what, {"module": modname, "function": fname, "recipe": recipe, "profile": profile})
                rec.case({"f": site, "r": recipe}, nontrivial=bool(nt), labels=labels,
                    sample={"function": site, "units": info.get("units"), "tier": info.get("tier")} if nt and len(rec.samples) < 3 else None)
            if returned == 0:
                rec.notes.setdefault("uncovered_functions", []).append(site)
            elif not any(str(t).startswith("residual") for t in tiers):
                rec.notes.setdefault("metamorphic_only_functions", []).append(site)
    return rec


def run(ctx: Ctx) -> None:
    mods = module_names()
    k = ctx.pick(2, 24)
    kmax = ctx.pick(3, 6)
    nchunks = 48
    chunks = [mods[i::nchunks] for i in range(nchunks)]
    tasks = [{"mods": c, "k": k, "kmax": kmax, "seed": ctx.seed * 1000 + i, "tiny_all": False, "all_regimes": ctx.thorough}
        for i, c in enumerate(chunks)]
    for status, val in run_tasks(_shard, tasks, timeout=ctx.pick(900, 3600)):
        if status == "timeout":
            ctx.inconclusive += 1
            continue
        if status != "ok":
            raise RuntimeError(f"{PID} shard failed: {status}: {val}")
        ctx.merge(val)
    vec_cov = set(ctx.notes.get("vector_covered_functions", []))
    ctx.notes["vector_covered_functions"] = sorted(vec_cov)
    for key in ("uncovered_functions", "metamorphic_only_functions", "vector_covered_functions"):
        if key in ctx.notes:
            ctx.notes[key] = [f for f in ctx.notes[key] if f not in vec_cov or key == "vector_covered_functions"]
            ctx.notes[key] = sorted(ctx.notes[key])
            ctx.notes[key + "_count"] = len(ctx.notes[key])
    ctx.assumptions += [
        "parameter <-> symbol correspondence: the guard symbol of validate_input, else the module attribute named like the parameter without its trailing underscore",
        "a call that raises on dimensionally valid arguments is not a violation (the property is conditional on 'returns a value'); counted per function, functions never returning are listed as uncovered",
        "functions without a one-to-one symbol correspondence to a published algebraic equation are covered by the unit/call-style invariance only; they are listed by name in the evidence",
        "vector laws: every pair of law-functions / calculate-functions of one module that are solved for each other's vector argument (paired by name, other parameters identical) is checked as a round trip g(f(v, rest), rest) == v; every vector calculate_<X> whose module offers <X>_law/<X>_definition over the same vector parameters is compared, in SI, with that law function evaluated on the SI components (scalar Quantity parameters are substituted for the module symbols of the same name) for generated components and unit spellings (vp/checks/c02_vector.py); other vector- and sequence-valued functions are not generated",
    ]


def replay(case: dict[str, Any]) -> list[tuple[str, str]]:
    if str(case.get("kind", "")).startswith("vector-"):
        from . import c02_vector
        return c02_vector.replay(case)
    mod = import_module(case["module"])
    for fname, fn in public_functions(mod):
        if fname == case["function"]:
            return judge(describe(mod, fname, fn), [tuple(x) for x in case["recipe"]], profile=case.get("profile", "macro"))[0]
    return []
