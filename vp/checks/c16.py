"""C16 - vector-equation rearrangement is equivalence-preserving.

Three families of generated cases (plain JSON descriptions):
 * "vec":    a linear combination of vectors (atoms, sums, cross products; coefficients = numbers, scalar
             symbols, sums/products/quotients/squares of them, dot/norm/mixed of pool vectors), given as an
             expression or split into an Eq, an unknown atom, reduce_factor on/off -> solve_for_vector;
 * "scalar": polynomial (degree <= 2) or rational-linear scalar equation in an unknown (a scalar symbol, or
             the expression norm(v)/dot(v, w)) with such coefficients -> solve_for_scalar;
 * "apply":  equation/expression + a function from {dot with c, cross with c, scale, norm, add c, square} -> apply.
Oracle: the harness' own evaluator of the *description* in R^3 (mpmath, 60 digits) under 2 rational
assignments, and the harness' own term expansion of the description (never the library's into_terms /
split_factor); the library's answer is interpreted with vp.model.r3.eval_lib.
"""
from __future__ import annotations

from vp import guard as _guard

import contextlib
import itertools
import signal
import traceback
from typing import Any, Iterator

from hypothesis import strategies as st

from ..boot import Ctx, Recorder
from ..hyp import hyp_run
from ..model import r3
from ..pool import run_tasks, shard_counts
from ..shrink import get_at, paths, replace_at, shrink

PID = "C16"
RULE = ("Hypothesis-generated descriptions: (vec) 1-5 terms K*W with W an atomic vector (VectorSymbol or applied "
    "VectorFunction), a sum of atoms or a cross product of flat combinations, K from numbers (incl. -1, rationals), "
    "scalar symbols, their sums/products/quotients/squares/roots, applied sin/cos/exp factors, dot/norm/mixed of pool vectors (may mention the unknown); "
    "given as expression or Eq (generated split), any pool atom as unknown with forced classes "
    "(once / several terms / visible only after expand / only inside a product or coefficient / absent / cancelled), "
    "reduce_factor on/off; refusal cases (scalar expression, vector+scalar sum); (scalar) degree<=2 polynomial or "
    "rational-linear equations solved for a symbol or for norm(v)/dot(v,w); (apply) 6 function shapes. "
    "Judged under 2 rational assignments in the harness R^3 model (60 digits, tol 1e-40 relative to 1+sum|terms|): "
    "ret.lhs-ret.rhs == E/s for a coefficient s of the unknown recovered from the description (any merged sub-sum of "
    "its expanded monomials), == -E or E with reduction off, substitution of ret.rhs zeroes E when the unknown occurs "
    "nowhere else, ValueError iff the unknown is not a term, TypeError for non-vector input; every Eq returned by "
    "solve_for_scalar has residual 0 (exceptions = 'no answer', counted per class, not judged); apply == Eq(f(lhs), f(rhs)). "
    "Non-trivial = (vec) >= 3 terms with a non-numeric coefficient, or the unknown in >= 2 expanded terms; (scalar) "
    "degree 2, rational-linear, or a vector-valued coefficient; (apply) >= 2 terms. Distinct by hash of the description.")

MP = r3.MP
mpf = MP.mpf
TOL = mpf(10)**-40
NS = 2  # scalar symbols usable in coefficients
HANG_S = 60
MAX_UNKNOWN_MONOMIALS = 10

# ------------------------------------------------------------------------------------------------
# harness model: evaluation and expansion of descriptions


@contextlib.contextmanager
def precision(dps: int) -> Iterator[None]:
    """Temporarily evaluate the model and the interpreter at another working precision (conditioning probe)."""
    old = MP.dps
    MP.dps = dps
    try:
        yield
    finally:
        MP.dps = old


def stable(a: Any, b: Any) -> bool:
    """Two evaluations of the same quantity (60 and 120 digits) agree to 1e-45 relative to 1+|value|."""
    if isinstance(a, (tuple, list)) or isinstance(b, (tuple, list)):
        if not (isinstance(a, (tuple, list)) and isinstance(b, (tuple, list))) or len(a) != len(b):
            return False
        return all(stable(x, y) for x, y in zip(a, b))
    return bool(abs(a - b) <= mpf(10)**-45 * (1 + abs(b)))


HI_DPS = 120


class Discard(Exception):
    """ill-conditioned at the assignment (division by zero, zero coefficient): not judged, counted."""


def ev(d: Any, env: dict[str, Any]) -> Any:
    """Value of a description: mpf/mpc for scalar nodes, 3-tuple for vector nodes."""
    # pylint: disable=too-many-return-statements,too-many-branches
    op = d[0]
    if op == "V":
        return env["V"][d[1]]
    if op == "zero":
        return (mpf(0), mpf(0), mpf(0))
    if op == "add":
        a, b = ev(d[1], env), ev(d[2], env)
        return (a[0] + b[0], a[1] + b[1], a[2] + b[2])
    if op == "neg":
        a = ev(d[1], env)
        return (-a[0], -a[1], -a[2])
    if op == "scale":
        k, a = ev(d[1], env), ev(d[2], env)
        return (k * a[0], k * a[1], k * a[2])
    if op == "cross":
        a, b = ev(d[1], env), ev(d[2], env)
        return (a[1] * b[2] - a[2] * b[1], a[2] * b[0] - a[0] * b[2], a[0] * b[1] - a[1] * b[0])
    if op == "num":
        return r3.frac(d[1])
    if op == "S":
        return env["S"][d[1]]
    if op == "X":
        return env["X"]
    if op == "mul":
        return ev(d[1], env) * ev(d[2], env)
    if op == "addS":
        return ev(d[1], env) + ev(d[2], env)
    if op == "negS":
        return -ev(d[1], env)
    if op == "pow2":
        a = ev(d[1], env)
        return a * a
    if op == "fn":
        return {"sin": MP.sin, "cos": MP.cos, "exp": MP.exp}[d[1]](ev(d[2], env))
    if op == "sqrtS":
        a = ev(d[1], env)
        if a < 0:
            raise Discard("root of a negative number at the assignment")
        return MP.sqrt(a)
    if op == "div":
        b = ev(d[2], env)
        if abs(b) <= TOL:
            raise Discard("division by zero in the description")
        return ev(d[1], env) / b
    if op == "dot":
        a, b = ev(d[1], env), ev(d[2], env)
        return a[0] * b[0] + a[1] * b[1] + a[2] * b[2]
    if op == "norm":
        a = ev(d[1], env)
        return MP.sqrt(a[0] * a[0] + a[1] * a[1] + a[2] * a[2])
    if op == "mixed":
        a, b, c = ev(d[1], env), ev(d[2], env), ev(d[3], env)
        return (a[0] * (b[1] * c[2] - b[2] * c[1]) + a[1] * (b[2] * c[0] - b[0] * c[2]) + a[2] * (b[0] * c[1] - b[1] * c[0]))
    raise ValueError(f"unknown description node {op}")


VECTOR_OPS = ("V", "zero", "add", "neg", "scale", "cross")


def is_vec(d: Any) -> bool:
    return d[0] in VECTOR_OPS


def exp_sca(d: Any, envs: list[dict[str, Any]]) -> list[tuple[Any, ...]]:
    """Monomials of a scalar description after full distribution (values per assignment).
    Quotients distribute over the numerator only; norm and mixed-of-atoms are single monomials; dot is bilinear."""
    op = d[0]
    if op == "mul":
        return [tuple(x * y for x, y in zip(a, b)) for a in exp_sca(d[1], envs) for b in exp_sca(d[2], envs)]
    if op == "addS":
        return exp_sca(d[1], envs) + exp_sca(d[2], envs)
    if op == "negS":
        return [tuple(-x for x in a) for a in exp_sca(d[1], envs)]
    if op == "pow2":
        m = exp_sca(d[1], envs)
        return [tuple(x * y for x, y in zip(a, b)) for a in m for b in m]
    if op == "div":
        den = tuple(ev(d[2], e) for e in envs)
        if any(abs(x) <= TOL for x in den):
            raise Discard("division by zero in a coefficient")
        return [tuple(x / y for x, y in zip(a, den)) for a in exp_sca(d[1], envs)]
    if op == "dot":
        out = []
        for ca, ia in exp_flat(d[1], envs):
            for cb, ib in exp_flat(d[2], envs):
                vals = []
                for n, e in enumerate(envs):
                    va, vb = e["V"][ia], e["V"][ib]
                    vals.append(ca[n] * cb[n] * (va[0] * vb[0] + va[1] * vb[1] + va[2] * vb[2]))
                out.append(tuple(vals))
        return out
    # num, S, X, norm, mixed: one monomial
    return [tuple(ev(d, e) for e in envs)]


def exp_flat(d: Any, envs: list[dict[str, Any]]) -> list[tuple[tuple[Any, ...], int]]:
    """A cross-free vector description as a list of (coefficient values, atom index)."""
    op = d[0]
    one = tuple(mpf(1) for _ in envs)
    if op == "V":
        return [(one, d[1])]
    if op == "zero":
        return []
    if op == "add":
        return exp_flat(d[1], envs) + exp_flat(d[2], envs)
    if op == "neg":
        return [(tuple(-x for x in c), i) for c, i in exp_flat(d[1], envs)]
    if op == "scale":
        return [(tuple(x * y for x, y in zip(m, c)), i) for m in exp_sca(d[1], envs) for c, i in exp_flat(d[2], envs)]
    raise ValueError(f"not a flat vector description: {op}")


def has_cross(d: Any) -> bool:
    return d[0] == "cross" or any(isinstance(c, list) and has_cross(c) for c in d[1:])


def unknown_monomials(d: Any, u: int, envs: list[dict[str, Any]]) -> list[tuple[Any, ...]]:
    """Coefficients (values per assignment) of every expanded term whose vector factor is exactly atom u.
    Cross products of flat combinations expand into crosses of atoms: never an atomic term."""
    op = d[0]
    if op == "V":
        return [tuple(mpf(1) for _ in envs)] if d[1] == u else []
    if op in ("zero", "cross"):
        return []
    if op == "add":
        return unknown_monomials(d[1], u, envs) + unknown_monomials(d[2], u, envs)
    if op == "neg":
        return [tuple(-x for x in c) for c in unknown_monomials(d[1], u, envs)]
    if op == "scale":
        inner = unknown_monomials(d[2], u, envs)
        if not inner:
            return []
        return [tuple(x * y for x, y in zip(m, c)) for m in exp_sca(d[1], envs) for c in inner]
    raise ValueError(op)


def mentions(d: Any, u: int) -> int:
    """Number of leaves ["V", u] anywhere in the description."""
    if d[0] == "V":
        return int(d[1] == u)
    return sum(mentions(c, u) for c in d[1:] if isinstance(c, list))


def ops_of(d: Any, out: set[str]) -> set[str]:
    out.add(d[0])
    for c in d[1:]:
        if isinstance(c, list):
            ops_of(c, out)
    return out


# ------------------------------------------------------------------------------------------------
# generator


def _rat() -> st.SearchStrategy[str]:
    return st.builds(lambda s, n, d: f"{s * n}/{d}", st.sampled_from((-1, 1)), st.sampled_from((1, 2, 3, 4, 5, 7)),
        st.sampled_from((1, 1, 2, 3, 4)))


def _num() -> st.SearchStrategy[Any]:
    return st.one_of(st.builds(lambda r: ["num", r], _rat()), st.sampled_from([["num", "-1/1"], ["num", "2/1"], ["num", "1/1"]]))


def _atom(lo: int, hi: int) -> st.SearchStrategy[Any]:
    return st.builds(lambda i: ["V", i], st.sampled_from(tuple(range(lo, hi))))


def _sym() -> st.SearchStrategy[Any]:
    return st.builds(lambda j: ["S", j], st.sampled_from(tuple(range(NS))))


@st.composite
def _flat(draw: Any, lo: int, hi: int) -> Any:
    kind = draw(st.sampled_from(("atom", "atom", "atom", "sum", "scaled")))
    if kind == "atom":
        return draw(_atom(lo, hi))
    if kind == "sum":
        return ["add", draw(_atom(lo, hi)), draw(_atom(lo, hi))]
    return ["scale", draw(st.one_of(_num(), _sym())), draw(_atom(lo, hi))]


@st.composite
def _coef(draw: Any, lo: int, hi: int, vectors: bool = True) -> Any:
    """A scalar coefficient; atoms used inside dot/norm/mixed come from pool[lo:hi]."""
    kinds = ["num", "num", "sym", "sym", "numsym", "symsym", "sum", "sumsym", "quot", "quot2", "quotsum", "square", "sqsum",
        "rootprod", "fn", "fnsym", "fnquot"]
    if vectors and hi - lo >= 1:
        kinds += ["dot", "dot", "norm", "norm", "dotsym", "normquot", "dotflat"]
        if hi - lo >= 3:
            kinds.append("mixed")
    kind = draw(st.sampled_from(tuple(kinds)))
    s, n = _sym(), _num()
    if kind == "num":
        return draw(n)
    if kind == "sym":
        return draw(s)
    if kind == "numsym":
        return ["mul", draw(n), draw(s)]
    if kind == "symsym":
        return ["mul", draw(s), draw(s)]
    if kind == "sum":
        return ["addS", draw(s), draw(n)]
    if kind == "sumsym":
        return ["addS", ["S", 0], ["mul", draw(n), ["S", 1]]]
    if kind == "quot":
        return ["div", draw(st.one_of(n, s)), draw(s)]
    if kind == "quot2":
        return ["div", draw(s), ["addS", draw(s), draw(n)]]
    if kind == "quotsum":
        return ["div", ["addS", draw(s), draw(n)], draw(s)]
    if kind in ("fn", "fnsym", "fnquot"):
        # an applied elementary function as a top-level factor of the coefficient (sin(t) * b, b / exp(t), p * cos(t) * b)
        f = ["fn", draw(st.sampled_from(("sin", "cos", "exp"))), draw(st.one_of(s, s.map(lambda x: ["negS", x])))]
        if kind == "fn":
            return f
        return ["mul", draw(s), f] if kind == "fnsym" else ["div", draw(st.one_of(n, s)), f]
    if kind == "rootprod":
        # a root of a product / quotient / square of real symbols: sqrt(x*y) is NOT sqrt(x)*sqrt(y) for negative values
        inner = draw(st.sampled_from(("mul", "mul", "div", "pow2")))
        return ["sqrtS", ["pow2", draw(s)] if inner == "pow2" else [inner, draw(s), draw(s)]]
    if kind == "square":
        return ["pow2", draw(s)]
    if kind == "sqsum":
        return ["pow2", ["addS", draw(s), draw(n)]]
    if kind == "dot":
        return ["dot", draw(_atom(lo, hi)), draw(_atom(lo, hi))]
    if kind == "norm":
        return ["norm", draw(_flat(lo, hi))]
    if kind == "dotsym":
        return ["mul", draw(s), ["dot", draw(_atom(lo, hi)), draw(_atom(lo, hi))]]
    if kind == "normquot":
        return ["div", draw(st.one_of(n, s)), ["norm", draw(_atom(lo, hi))]]
    if kind == "dotflat":
        return ["dot", draw(_flat(lo, hi)), draw(_flat(lo, hi))]
    if kind == "mixed":
        idx = draw(st.permutations(list(range(lo, hi))))[:3]
        return ["mixed", ["V", idx[0]], ["V", idx[1]], ["V", idx[2]]]
    raise ValueError(kind)


@st.composite
def _term(draw: Any, lo: int, hi: int, wkind: str | None = None) -> Any:
    wkind = wkind or draw(st.sampled_from(("atom", "atom", "atom", "atom", "sum", "cross", "cross", "crossflat")))
    if wkind == "atom":
        w: Any = draw(_atom(lo, hi))
    elif wkind == "sum":
        w = ["add", draw(_atom(lo, hi)), draw(_flat(lo, hi))]
    elif wkind == "cross":
        w = ["cross", draw(_atom(lo, hi)), draw(_atom(lo, hi))]
    else:
        w = ["cross", draw(_flat(lo, hi)), draw(_flat(lo, hi))]
    shape = draw(st.sampled_from(("bare", "neg", "scaled", "scaled", "scaled", "scaled")))
    if shape == "bare":
        return w
    if shape == "neg":
        return ["neg", w]
    return ["scale", draw(_coef(lo, hi)), w]


def _assignments(draw: Any, k: int, n: int = 2) -> list[dict[str, Any]]:
    out = []
    for _ in range(n):
        # scalar values with denominators 7 and 11: no generated coefficient (s + n/d, s0 + q*s1, ...) can vanish
        svals = [f"{draw(st.sampled_from((-1, 1))) * draw(st.sampled_from((2, 3, 4, 5, 6, 8, 9, 10, 12, 13)))}/{den}" for den in (7, 11)]
        out.append({"V": [[draw(_rat()) for _ in range(3)] for _ in range(k)], "S": svals[:NS]})
    return out


@st.composite
def vec_case(draw: Any) -> Any:
    k = draw(st.sampled_from((3, 4, 5)))
    mode = draw(st.sampled_from(("free", "free", "free", "once", "multi", "multi", "hidden", "product-only", "absent",
        "cancel", "scalar-expr", "mixed-sum")))
    u = draw(st.sampled_from(tuple(range(k))))
    nterms = draw(st.sampled_from((1, 2, 2, 3, 3, 3, 4, 4, 5)))
    fun = [draw(st.sampled_from((False, False, False, True))) for _ in range(k)]
    case: dict[str, Any] = {"kind": "vec", "k": k, "u": u, "fun": fun, "mode": mode,
        "reduce": draw(st.booleans())}
    if mode == "scalar-expr":
        case["terms"] = [draw(_coef(0, k))]
        case["split"] = None
        case["assign"] = _assignments(draw, k)
        return case
    if mode == "mixed-sum" and draw(st.integers(0, 2)) == 0:
        # Eq(unknown, scalar): the left side is exactly the requested vector, the right side is no vector at all
        case["terms"] = [["V", u], draw(_coef(0, k))]
        case["split"] = 1
        case["reduce"] = True
        case["assign"] = _assignments(draw, k)
        return case
    # atoms other than the unknown, for the modes that control where it occurs
    others = [i for i in range(k) if i != u]

    def relabel(d: Any) -> Any:
        """Rename atoms so that the unknown does not occur (u -> some other atom)."""
        if d[0] == "V":
            return ["V", others[d[1] % len(others)]] if d[1] == u else d
        return [d[0]] + [relabel(c) if isinstance(c, list) else c for c in d[1:]]

    terms = [draw(_term(0, k)) for _ in range(nterms)]
    if mode in ("once", "multi", "hidden", "product-only", "absent", "cancel"):
        terms = [relabel(t) for t in terms]
    if mode == "once":
        terms.insert(draw(st.integers(0, len(terms))), ["scale", relabel(draw(_coef(0, k))), ["V", u]])
    elif mode == "multi":
        for _ in range(draw(st.sampled_from((2, 2, 3)))):
            t = draw(st.sampled_from(("scaled", "scaled", "bare", "neg")))
            new = {"scaled": ["scale", draw(_coef(0, k)), ["V", u]], "bare": ["V", u], "neg": ["neg", ["V", u]]}[t]
            terms.insert(draw(st.integers(0, len(terms))), new)
    elif mode == "hidden":
        other = ["V", draw(st.sampled_from(tuple(others)))]
        inner = draw(st.sampled_from((["add", ["V", u], other], ["add", other, ["scale", draw(_coef(0, k, vectors=False)), ["V", u]]])))
        terms.insert(draw(st.integers(0, len(terms))), ["scale", draw(st.one_of(_sym(), _coef(0, k))), inner])
        if draw(st.booleans()):
            terms.append(["scale", draw(_coef(0, k)), ["V", u]])
    elif mode == "product-only":
        other = ["V", draw(st.sampled_from(tuple(others)))]
        new = draw(st.sampled_from((["cross", ["V", u], other], ["scale", ["dot", ["V", u], other], other],
            ["scale", ["norm", ["V", u]], other], ["scale", draw(_sym()), ["cross", other, ["add", ["V", u], other]]])))
        terms.insert(draw(st.integers(0, len(terms))), new)
    elif mode == "cancel":
        c = draw(_coef(0, k, vectors=False))
        terms.insert(draw(st.integers(0, len(terms))), ["scale", c, ["V", u]])
        terms.insert(draw(st.integers(0, len(terms))), ["neg", ["scale", c, ["V", u]]])
    elif mode == "mixed-sum":
        terms.append(draw(_coef(0, k)))  # a scalar added to vectors: not a vector expression
    case["terms"] = terms
    case["split"] = draw(st.one_of(st.none(), st.integers(0, len(terms))))
    case["assign"] = _assignments(draw, k)
    return case


@st.composite
def scalar_case(draw: Any) -> Any:
    k = 4  # atoms 0..2 for coefficients, atom 3 reserved for an unknown *expression*
    shape = draw(st.sampled_from(("linear", "linear", "quadratic", "quadratic", "quadratic-nolinear", "ratlin")))
    target = draw(st.sampled_from(("symbol", "symbol", "symbol", "norm", "dot")))
    vectors = draw(st.sampled_from((True, True, False)))

    def c() -> Any:
        return draw(_coef(0, 3, vectors=vectors))

    x = ["X"]
    if shape == "linear":
        lhs: Any = ["addS", ["mul", c(), x], c()]
    elif shape == "quadratic":
        lhs = ["addS", ["addS", ["mul", c(), ["pow2", x]], ["mul", c(), x]], c()]
    elif shape == "quadratic-nolinear":
        lhs = ["addS", ["mul", c(), ["pow2", x]], c()]
    else:
        lhs = ["div", ["addS", ["mul", c(), x], c()], ["addS", ["mul", c(), x], c()]]
    form = draw(st.sampled_from(("expr", "eq", "eq")))
    if shape == "ratlin":
        form = "eq"
    rhs = None
    if form == "eq":
        rk = draw(st.sampled_from(("zero", "coef", "coef", "cx")))
        if rk == "zero" and shape != "ratlin":
            rhs = ["num", "0/1"]
        elif rk == "cx" and shape == "linear":
            rhs = ["mul", c(), x]
        else:
            rhs = c()
    return {"kind": "scalar", "k": k, "fun": [False] * k, "shape": shape, "target": target, "lhs": lhs, "rhs": rhs,
        "assign": _assignments(draw, k)}


@st.composite
def apply_case(draw: Any) -> Any:
    k = draw(st.sampled_from((3, 4)))
    scalar_eq = draw(st.sampled_from((False, False, False, True)))
    fun = [draw(st.sampled_from((False, False, False, True))) for _ in range(k)]
    if scalar_eq:
        terms = [draw(_coef(0, k)) for _ in range(draw(st.sampled_from((1, 2, 3))))]
        f = draw(st.sampled_from((["f-addS", draw(_coef(0, k))], ["f-mul", draw(_coef(0, k))], ["f-pow2"])))
    else:
        terms = [draw(_term(0, k)) for _ in range(draw(st.sampled_from((1, 2, 3, 4))))]
        f = draw(st.sampled_from((["f-dot", draw(_atom(0, k))], ["f-cross", draw(_atom(0, k))], ["f-scale", draw(_coef(0, k))],
            ["f-norm"], ["f-add", draw(_atom(0, k))], ["f-dot", draw(_flat(0, k))])))
    split = draw(st.one_of(st.none(), st.integers(0, len(terms))))
    return {"kind": "apply", "k": k, "fun": fun, "scalar_eq": scalar_eq, "terms": terms, "split": split, "f": f,
        "assign": _assignments(draw, k)}


# ------------------------------------------------------------------------------------------------
# library side


class _Hang(Exception):
    pass


def _alarm(_s: int, _f: Any) -> None:
    raise _Hang()


class Built:

    def __init__(self, case: dict[str, Any]) -> None:
        import sympy
        from symplyphysics.core.experimental.vectors import VectorFunction, VectorSymbol
        self.t = sympy.Symbol("t", real=True)
        self.V: list[Any] = []
        # display names from a tiny pool (derived from the case): distinct atoms often share a name and must still be
        # treated as distinct vectors by the solvers
        pool_ = ["a", "b", "a", "F"]
        salt = case["k"] + sum(1 for x in case["fun"] if x)
        for i in range(case["k"]):
            name = pool_[(i * 3 + salt) % len(pool_)]
            if case["fun"][i]:
                self.V.append(VectorFunction(name, (self.t,))(self.t))
            else:
                self.V.append(VectorSymbol(name))
        self.S = [sympy.Symbol(f"s{j}", real=True) for j in range(NS)]
        self.X: Any = None

    def build(self, d: Any) -> Any:
        # pylint: disable=too-many-return-statements,too-many-branches
        import sympy
        from symplyphysics.core.experimental.vectors import VectorCross, VectorDot, VectorMixedProduct, VectorNorm
        op, b = d[0], self.build
        if op == "V":
            return self.V[d[1]]
        if op == "S":
            return self.S[d[1]]
        if op == "X":
            return self.X
        if op == "num":
            return sympy.Rational(d[1])
        if op == "zero":
            return sympy.S.Zero
        if op in ("add", "addS"):
            return b(d[1]) + b(d[2])
        if op in ("neg", "negS"):
            return -b(d[1])
        if op in ("scale", "mul"):
            return b(d[1]) * b(d[2])
        if op == "div":
            return b(d[1]) / b(d[2])
        if op == "pow2":
            return b(d[1])**2
        if op == "fn":
            return {"sin": sympy.sin, "cos": sympy.cos, "exp": sympy.exp}[d[1]](b(d[2]))
        if op == "sqrtS":
            return sympy.sqrt(b(d[1]))
        if op == "cross":
            return VectorCross(b(d[1]), b(d[2]))
        if op == "dot":
            return VectorDot(b(d[1]), b(d[2]))
        if op == "mixed":
            return VectorMixedProduct(b(d[1]), b(d[2]), b(d[3]))
        if op == "norm":
            return VectorNorm(b(d[1]))
        raise ValueError(op)

    def lenv(self, a: dict[str, Any]) -> dict[Any, Any]:
        env: dict[Any, Any] = {}
        for i, atom in enumerate(self.V):
            env[atom] = tuple(r3.frac(x) for x in a["V"][i])
        for j, s in enumerate(self.S):
            env[s] = r3.frac(a["S"][j])
        import sympy
        env[sympy.I] = MP.mpc(0, 1)
        return env


def menv(a: dict[str, Any], x: Any = None) -> dict[str, Any]:
    return {"V": [tuple(r3.frac(c) for c in v) for v in a["V"]], "S": [r3.frac(s) for s in a["S"]], "X": x}


def sides(case: dict[str, Any]) -> tuple[list[Any], list[Any]]:
    terms, split = case["terms"], case["split"]
    if split is None:
        return terms, []
    return terms[:split], terms[split:]


def sum_desc(terms: list[Any], vector: bool) -> Any:
    if not terms:
        return ["zero"] if vector else ["num", "0/1"]
    out = terms[0]
    for t in terms[1:]:
        out = ["add" if vector else "addS", out, t]
    return out


def e_desc(case: dict[str, Any], vector: bool = True) -> Any:
    """E = lhs - rhs of the input as one description."""
    lhs, rhs = sides(case)
    out = sum_desc(lhs, vector)
    for t in rhs:
        out = ["add", out, ["neg", t]] if vector else ["addS", out, ["negS", t]]
    return out


def _exc_key(exc: BaseException) -> str:
    tb = traceback.extract_tb(exc.__traceback__)
    frame = "?"
    for fr in tb:
        if "symplyphysics" in fr.filename:
            frame = f"{fr.filename.split('symplyphysics/')[-1]}:{fr.name}"
    return f"{type(exc).__name__}@{frame}"


def vsub(a: Any, b: Any) -> Any:
    a, b = r3._as_vec(a), r3._as_vec(b)  # pylint: disable=protected-access
    return (a[0] - b[0], a[1] - b[1], a[2] - b[2])


def vscale(k: Any, a: Any) -> Any:
    return (k * a[0], k * a[1], k * a[2])


def vclose(a: Any, b: Any, extra: Any = 0) -> bool:
    a, b = r3._as_vec(a), r3._as_vec(b)  # pylint: disable=protected-access
    scale = 1 + sum(abs(x) for x in a) + sum(abs(x) for x in b) + extra
    return all(abs(x - y) <= TOL * scale for x, y in zip(a, b))


def show(v: Any) -> Any:
    if isinstance(v, tuple):
        return [MP.nstr(x, 10) for x in v]
    return MP.nstr(v, 10)


# ------------------------------------------------------------------------------------------------
# judges


# ------------------------------------------------------------------------------------------------
# scalar equations whose candidate roots must be CHECKED: radicals (squaring adds roots) and poles (clearing a
# denominator adds its zeros).  Plain SymPy objects, rational coefficients, judged at 50 digits.


@st.composite
def scheck_case(draw: Any) -> Any:
    shape = draw(st.sampled_from(("radical", "radical", "pole", "positive-unknown")))
    r = lambda lo=-6, hi=6: draw(st.integers(lo, hi))  # noqa: E731  pylint: disable=unnecessary-lambda-assignment
    nz = lambda: draw(st.integers(-5, 5).filter(lambda x: x != 0))  # noqa: E731  pylint: disable=unnecessary-lambda-assignment
    if shape == "radical":
        # sqrt(a x + b) = c x + d built from a chosen true root x0 >= ... : a x0 + b = (c x0 + d)^2 with c x0 + d >= 0
        x0, c, d = r(-4, 6), nz(), r(-4, 4)
        a = nz()
        t = c * x0 + d
        if t < 0:
            d, t = d - 2 * t, -t  # make the right side non-negative at x0
        b = t * t - a * x0
        return {"kind": "scheck", "shape": shape, "coef": [a, b, c, d], "form": draw(st.sampled_from(("eq", "eq", "expr")))}
    if shape == "pole":
        # A/(x - p) = B/((x - p)(x - q)): only x = q + B/A is a solution; x = p is the pole
        return {"kind": "scheck", "shape": shape, "coef": [nz(), nz(), r(), r()], "form": "eq"}
    # (x - p)(x + q) = 0 with p, q > 0 and the unknown declared positive: only x = p qualifies
    return {"kind": "scheck", "shape": shape, "coef": [draw(st.integers(1, 6)), draw(st.integers(1, 6))], "form": draw(st.sampled_from(("eq", "expr")))}


def judge_scheck(case: dict[str, Any]) -> list[tuple[str, str]]:
    import sympy
    from symplyphysics.core.experimental.solvers import solve_for_scalar
    shape, co = case["shape"], case["coef"]
    x = sympy.Symbol("x", positive=True) if shape == "positive-unknown" else sympy.Symbol("x", real=True)
    if shape == "radical":
        a, b, c, d = co
        lhs, rhs = sympy.sqrt(a * x + b), c * x + d
    elif shape == "pole":
        A, B, p_, q_ = co
        if p_ == q_:
            return [("__discard__", "degenerate pole case")]
        lhs, rhs = sympy.Rational(A) / (x - p_), sympy.Rational(B) / ((x - p_) * (x - q_))
    else:
        p_, q_ = co
        lhs, rhs = sympy.expand((x - p_) * (x + q_)), sympy.S.Zero
    arg: Any = sympy.Eq(lhs, rhs, evaluate=False) if case["form"] == "eq" else lhs - rhs
    try:
        ret = solve_for_scalar(arg, x)
    except _Hang:
        raise
    except Exception as exc:  # pylint: disable=broad-except
        return [(f"__noanswer_{type(exc).__name__}__", "")]
    if not isinstance(ret, list) or not ret or not all(isinstance(e, sympy.Eq) for e in ret):
        return [("scalar-result-not-Eq", f"solve_for_scalar({arg}, x) returned {ret!r}: not a list of equations")]
    out: list[tuple[str, str]] = []
    for eq in ret:
        if eq.lhs != x or eq.rhs.free_symbols:
            out.append(("scalar-lhs", f"returned {eq} for {arg}"))
            continue
        v = eq.rhs
        try:
            res = sympy.N((lhs - rhs).subs(x, v), 50)
        except Exception as exc:  # pylint: disable=broad-except
            res = sympy.nan
            _ = exc
        if res.has(sympy.nan, sympy.zoo, sympy.oo, -sympy.oo) or not res.is_number:
            out.append((f"scalar-residual:{shape}", f"solve_for_scalar({arg}, x) returned {eq}, where the equation is undefined (residual {res})"))
        elif abs(res) > sympy.Float("1e-30") * (1 + abs(sympy.N(v, 50))**2):
            out.append((f"scalar-residual:{shape}", f"solve_for_scalar({arg}, x) returned {eq}; residual {sympy.N(res, 12)}: the returned value does not satisfy the equation"))
        elif shape == "positive-unknown" and not (sympy.N(v, 50) > 0):
            out.append((f"scalar-residual:{shape}", f"solve_for_scalar({arg}, x) returned {eq} for an unknown declared positive"))
    out.append(("__scalar_answered__", ""))
    return out


def judge(case: dict[str, Any]) -> list[tuple[str, str]]:
    _guard.install(_alarm)
    _guard.arm(HANG_S)
    try:
        fn = {"vec": judge_vec, "scalar": judge_scalar, "apply": judge_apply, "scheck": judge_scheck}[case["kind"]]
        return fn(case)
    except _Hang:
        return [("__inconclusive__", "hang guard expired")]
    except Discard as exc:
        return [("__discard__", str(exc))]
    except r3.Uninterpretable as exc:
        return [("__uninterpretable__", str(exc)[:200])]
    except ZeroDivisionError:
        return [("__discard__", "division by zero at the assignment")]
    finally:
        signal.alarm(0)


def vec_class(case: dict[str, Any]) -> dict[str, Any]:
    """Harness view of a vec case: where the unknown occurs (from the description only)."""
    u = case["u"]
    envs = [menv(a) for a in case["assign"]]
    if case["mode"] == "scalar-expr" or any(not is_vec(t) for t in case["terms"]):
        return {"cls": "not-a-vector", "mono": [], "envs": envs}
    E = e_desc(case)
    mono = unknown_monomials(E, u, envs)
    total_mentions = mentions(E, u)
    if not mono:
        cls = "absent" if total_mentions == 0 else "only-inside-product"
    else:
        tot = [sum(m[n] for m in mono) for n in range(len(envs))]
        if all(abs(t) <= TOL for t in tot):
            cls = "cancelled"
        elif len(mono) == 1:
            cls = "once"
        else:
            cls = "several-terms"
    # occurrences outside the isolated terms: in other vectors (cross), in coefficients (dot/norm/mixed)
    as_term = _term_leaf_count(E, u)
    return {"cls": cls, "mono": mono, "envs": envs, "E": E, "elsewhere": total_mentions - as_term, "term_leaves": as_term}


def _term_leaf_count(d: Any, u: int) -> int:
    """Leaves ["V", u] that are reached through add/neg/scale(vector side) only, i.e. that become terms."""
    op = d[0]
    if op == "V":
        return int(d[1] == u)
    if op in ("add",):
        return _term_leaf_count(d[1], u) + _term_leaf_count(d[2], u)
    if op == "neg":
        return _term_leaf_count(d[1], u)
    if op == "scale":
        return _term_leaf_count(d[2], u)
    return 0


def judge_vec(case: dict[str, Any]) -> list[tuple[str, str]]:
    # pylint: disable=too-many-locals,too-many-branches,too-many-statements,too-many-return-statements
    import sympy
    from symplyphysics.core.experimental.solvers import solve_for_vector
    info = vec_class(case)
    cls = info["cls"]
    bt = Built(case)
    atom = bt.V[case["u"]]
    lhs_t, rhs_t = sides(case)
    vector = cls != "not-a-vector"
    try:
        lhs = sum((bt.build(t) for t in lhs_t), sympy.S.Zero)
        rhs = sum((bt.build(t) for t in rhs_t), sympy.S.Zero)
        arg: Any = lhs if case["split"] is None else sympy.Eq(lhs, rhs)
    except _Hang:
        raise
    except Exception as exc:  # pylint: disable=broad-except
        return [("__build_failed__", f"{type(exc).__name__}: {exc}")]
    if case["split"] is not None and not isinstance(arg, sympy.Eq):
        return [("__eq_evaluated__", str(arg))]
    red = bool(case["reduce"])
    tag = f"reduce={'on' if red else 'off'}"
    try:
        ret = solve_for_vector(arg, atom, red)
    except _Hang:
        raise
    except TypeError as exc:
        if not vector:
            return [("__refused_TypeError__", "")]
        return [(f"refusal:TypeError-on-vector-input:{cls}", f"TypeError '{exc}' for the vector input {case['terms']}")]
    except ValueError as exc:
        if not vector:
            return [("refusal:ValueError-instead-of-TypeError", f"ValueError '{exc}' for the non-vector input {case['terms']}")]
        if cls in ("absent", "only-inside-product", "cancelled"):
            return [("__refused_ValueError__", "")]
        return [(f"refusal:ValueError-although-term:{cls}",
            f"ValueError '{exc}' although atom {case['u']} is a term of {case['terms']} (split {case['split']})")]
    except RecursionError as exc:
        return [("exception:RecursionError", f"RecursionError in solve_for_vector on {case['terms']}: {exc}")]
    except Exception as exc:  # pylint: disable=broad-except
        return [(f"exception:{_exc_key(exc)}", f"{type(exc).__name__}: {exc} on {case['terms']} unknown {case['u']}")]
    if not vector:
        return [("refusal:non-vector-accepted", f"solve_for_vector accepted the non-vector input {case['terms']} and returned {ret}")]
    if cls in ("absent", "only-inside-product"):
        return [(f"refusal:accepted-although-not-a-term:{cls}",
            f"atom {case['u']} is not a term of {case['terms']} but solve_for_vector returned {ret}")]
    if not isinstance(ret, sympy.Eq):
        return [("result-not-Eq", f"returned {type(ret).__name__}: {ret}")]
    mono = info["mono"]
    if len(mono) > MAX_UNKNOWN_MONOMIALS:
        return [("__too_many_monomials__", "")]
    envs = info["envs"]
    n_env = len(envs)
    Evals = [ev(info["E"], e) for e in envs]
    lenvs = [bt.lenv(a) for a in case["assign"]]
    Ls = [r3.eval_lib(ret.lhs, le) for le in lenvs]
    Rs = [r3.eval_lib(ret.rhs, le) for le in lenvs]
    Ds = [vsub(l, r) for l, r in zip(Ls, Rs)]
    avals = [e["V"][case["u"]] for e in envs]
    # conditioning probe: the same numbers at doubled precision; a coefficient that is exactly zero at the assignment
    # (coplanar vectors -> mixed = 0, orthogonal -> dot = 0) shows up as rounding noise that does not reproduce
    with precision(HI_DPS):
        info_hi = vec_class(case)
        lenvs_hi = [bt.lenv(a) for a in case["assign"]]
        hi = ([ev(info_hi["E"], e) for e in info_hi["envs"]], [r3._as_vec(r3.eval_lib(ret.lhs, le)) for le in lenvs_hi],  # pylint: disable=protected-access
            [r3._as_vec(r3.eval_lib(ret.rhs, le)) for le in lenvs_hi], [list(m) for m in info_hi["mono"]])  # pylint: disable=protected-access
    lo = (Evals, [r3._as_vec(x) for x in Ls], [r3._as_vec(x) for x in Rs], [list(m) for m in mono])  # pylint: disable=protected-access
    if not stable(lo, hi):
        return [("__discard__", "ill-conditioned at the assignment (values change with the working precision)")]
    out: list[tuple[str, str]] = []
    # candidate coefficients: every merged sub-sum of the unknown's expanded monomials
    cands = []
    for r in range(1, len(mono) + 1):
        for sub in itertools.combinations(range(len(mono)), r):
            cands.append(tuple(sum(mono[i][n] for i in sub) for n in range(n_env)))
    sizes = [sum(abs(m[n]) for m in mono) for n in range(n_env)]
    if red:
        if ret.lhs != atom:
            out.append((f"lhs-form:{tag}", f"left side is {ret.lhs}, expected the bare unknown"))
        ok = False
        usable = False
        for s in cands:
            if any(abs(s[n]) <= TOL * (1 + sizes[n]) for n in range(n_env)):
                continue
            usable = True
            if all(vclose(vscale(s[n], Ds[n]), Evals[n]) for n in range(n_env)):
                ok = True
                break
        if not usable:
            return [("__discard__", "every candidate coefficient vanishes at an assignment")]
        if not ok:
            out.append((f"equivalence:{tag}:{cls}",
                f"{tag} terms={case['terms']} split={case['split']} unknown={case['u']}: returned {ret}; lhs-rhs={show(Ds[0])} is not "
                f"E/s for any coefficient s of the unknown (E={show(Evals[0])}, candidates={[show(c[0]) for c in cands[:6]]})"))
    else:
        sign = None
        for sg in (-1, 1):
            if all(vclose(Ds[n], vscale(mpf(sg), Evals[n])) for n in range(n_env)):
                sign = sg
                break
        if sign is None:
            out.append((f"equivalence:{tag}:{cls}",
                f"{tag} terms={case['terms']} split={case['split']} unknown={case['u']}: returned {ret}; lhs-rhs={show(Ds[0])} is neither "
                f"-E nor E (E={show(Evals[0])})"))
        else:
            # documented form: (-k_j) * v_j on the left
            okl = any(all(vclose(Ls[n], vscale(sign * s[n], avals[n])) for n in range(n_env)) for s in cands)
            if not okl:
                out.append((f"lhs-form:{tag}", f"left side {ret.lhs} is not (coefficient of the unknown) * unknown; terms={case['terms']}"))
    # solution property: the unknown occurs nowhere else -> substituting the right side zeroes E
    if red and not out and info["elsewhere"] == 0 and info["term_leaves"] == 1 and len(mono) == 1:
        for n in range(n_env):
            e2 = dict(envs[n])
            e2["V"] = list(e2["V"])
            e2["V"][case["u"]] = r3._as_vec(Rs[n])  # pylint: disable=protected-access
            res = ev(info["E"], e2)
            scale = sum(abs(x) for x in Evals[n]) + sum(abs(x) for x in r3._as_vec(Rs[n]))  # pylint: disable=protected-access
            if not vclose(res, (mpf(0), mpf(0), mpf(0)), extra=scale * (1 + sizes[n])):
                out.append((f"solution:{cls}", f"substituting the returned right side for the unknown leaves E = {show(res)}; terms={case['terms']} ret={ret}"))
                break
        out.append(("__solution_checked__", ""))
    out.append((f"__answered_{cls}__", ""))
    return out


def judge_scalar(case: dict[str, Any]) -> list[tuple[str, str]]:
    # pylint: disable=too-many-locals,too-many-branches
    import sympy
    from symplyphysics.core.experimental.solvers import solve_for_scalar
    from symplyphysics.core.experimental.vectors import VectorDot, VectorNorm
    bt = Built(case)
    if case["target"] == "symbol":
        bt.X = sympy.Symbol("x", real=True)
    elif case["target"] == "norm":
        bt.X = VectorNorm(bt.V[3])
    else:
        bt.X = VectorDot(bt.V[3], bt.V[0])
    try:
        lhs = bt.build(case["lhs"])
        arg: Any = lhs if case["rhs"] is None else sympy.Eq(lhs, bt.build(case["rhs"]))
    except _Hang:
        raise
    except Exception as exc:  # pylint: disable=broad-except
        return [("__build_failed__", f"{type(exc).__name__}: {exc}")]
    if case["rhs"] is not None and not isinstance(arg, sympy.Eq):
        return [("__eq_evaluated__", str(arg))]
    try:
        ret = solve_for_scalar(arg, bt.X)
    except _Hang:
        raise
    except Exception as exc:  # pylint: disable=broad-except
        return [(f"__noanswer_{type(exc).__name__}__", "")]
    if not isinstance(ret, list) or not ret or not all(isinstance(e, sympy.Eq) for e in ret):
        return [("scalar-result-not-Eq", f"solve_for_scalar({arg}, {bt.X}) returned {ret!r}: not a list of equations")]
    out: list[tuple[str, str]] = []
    E = case["lhs"] if case["rhs"] is None else ["addS", case["lhs"], ["negS", case["rhs"]]]
    for eq in ret:
        if eq.lhs != bt.X:
            out.append(("scalar-lhs", f"returned {eq} whose left side is not the unknown {bt.X}"))
            continue
        for a in case["assign"]:
            le = bt.lenv(a)
            le[bt.X] = mpf(0)  # only reached if the answer still mentions the unknown
            if eq.rhs.has(bt.X):
                out.append(("scalar-solution-mentions-unknown", f"{eq} for {arg}"))
                break
            val = r3.eval_lib(eq.rhs, le)
            if isinstance(val, tuple):
                out.append(("scalar-solution-is-vector", f"{eq}"))
                break
            with precision(HI_DPS):
                le_hi = bt.lenv(a)
                val_hi = r3.eval_lib(eq.rhs, le_hi)
            if not stable(val, val_hi):
                return [("__discard__", "ill-conditioned at the assignment (a coefficient of the unknown vanishes there)")]
            env = menv(a, val)
            res = ev(E, env)
            # scale: sum of |monomials| of E at x = val
            scale = _ratlin_scale(E, env) if case["shape"] == "ratlin" else sum(abs(m[0]) for m in exp_sca(E, [env]))
            if abs(res) > TOL * (1 + scale) * 10:
                out.append((f"scalar-residual:{case['shape']}",
                    f"solve_for_scalar({arg}, {bt.X}) returned {eq}; residual {show(res)} (scale {show(scale)}) at {a['S']}"))
                break
    out.append(("__scalar_answered__", ""))
    return out


def _ratlin_scale(E: Any, env: dict[str, Any]) -> Any:
    """|numerator terms|/|denominator| + |rhs| for (c0 x + c1)/(c2 x + c3) - rhs."""
    quot = E[1] if E[0] == "addS" else E
    rest = abs(ev(E[2], env)) if E[0] == "addS" else mpf(0)
    den = ev(quot[2], env)
    if abs(den) <= TOL * (1 + sum(abs(m[0]) for m in exp_sca(quot[2], [env]))):
        raise Discard("solution sits on the pole of the rational-linear equation")
    return sum(abs(m[0]) for m in exp_sca(quot[1], [env])) / abs(den) + rest


def apply_fn(bt: Built, f: Any) -> Any:
    from symplyphysics.core.experimental.vectors import VectorCross, VectorDot, VectorNorm
    kind = f[0]
    if kind == "f-dot":
        c = bt.build(f[1])
        return lambda side: VectorDot(side, c)
    if kind == "f-cross":
        c = bt.build(f[1])
        return lambda side: VectorCross(side, c)
    if kind in ("f-scale", "f-mul"):
        c = bt.build(f[1])
        return lambda side: side * c
    if kind == "f-norm":
        return VectorNorm
    if kind in ("f-add", "f-addS"):
        c = bt.build(f[1])
        return lambda side: side + c
    if kind == "f-pow2":
        return lambda side: side**2
    raise ValueError(kind)


def apply_model(f: Any, side: Any) -> Any:
    """The description of f(side)."""
    kind = f[0]
    return {"f-dot": lambda: ["dot", side, f[1]], "f-cross": lambda: ["cross", side, f[1]], "f-scale": lambda: ["scale", f[1], side],
        "f-mul": lambda: ["mul", side, f[1]], "f-norm": lambda: ["norm", side], "f-add": lambda: ["add", side, f[1]],
        "f-addS": lambda: ["addS", side, f[1]], "f-pow2": lambda: ["pow2", side]}[kind]()


def judge_apply(case: dict[str, Any]) -> list[tuple[str, str]]:
    # pylint: disable=too-many-locals
    import sympy
    from symplyphysics.core.experimental.solvers import apply
    bt = Built(case)
    vector = not case["scalar_eq"]
    lhs_t, rhs_t = sides(case)
    try:
        lhs = sum((bt.build(t) for t in lhs_t), sympy.S.Zero)
        rhs = sum((bt.build(t) for t in rhs_t), sympy.S.Zero)
        arg: Any = lhs if case["split"] is None else sympy.Eq(lhs, rhs)
        fn = apply_fn(bt, case["f"])
        if case["split"] is not None and not isinstance(arg, sympy.Eq):
            return [("__eq_evaluated__", str(arg))]
    except _Hang:
        raise
    except Exception as exc:  # pylint: disable=broad-except
        return [("__build_failed__", f"{type(exc).__name__}: {exc}")]
    try:
        want_l, want_r = fn(lhs), fn(rhs if case["split"] is not None else sympy.S.Zero)
    except _Hang:
        raise
    except Exception as exc:  # pylint: disable=broad-except
        # f itself does not work on a side (e.g. VectorNorm -> Abs(-dot - dot) -> RecursionError inside SymPy,
        # see notes/C16.md): apply cannot be blamed for it; counted
        return [(f"__f_raises_{type(exc).__name__}__", str(exc)[:100])]
    try:
        ret = apply(arg, fn)
    except _Hang:
        raise
    except Exception as exc:  # pylint: disable=broad-except
        return [(f"apply-exception:{_exc_key(exc)}", f"apply raised {type(exc).__name__}: {exc} although f works on both sides; {case['terms']} f={case['f']}")]
    if not isinstance(ret, sympy.Eq):
        return [("apply-not-Eq", f"apply returned {type(ret).__name__}: {ret}")]
    out: list[tuple[str, str]] = []
    if ret.lhs != want_l or ret.rhs != want_r:
        out.append((f"apply-structure:{case['f'][0]}", f"apply({arg}, f) = {ret}, expected Eq({want_l}, {want_r})"))
    lside = sum_desc(lhs_t, vector)
    rside = sum_desc(rhs_t, vector)
    for a in case["assign"]:
        env, le = menv(a), bt.lenv(a)
        for name, got_e, side in (("lhs", ret.lhs, lside), ("rhs", ret.rhs, rside)):
            want = ev(apply_model(case["f"], side), env)
            got = r3.eval_lib(got_e, le)
            good = vclose(got, want) if isinstance(want, tuple) else (not isinstance(got, tuple) and abs(got - want) <= TOL * (1 + abs(got) + abs(want)))
            if not good:
                out.append((f"apply-value:{name}:{case['f'][0]}", f"apply({arg}, f={case['f']}).{name} = {got_e} evaluates to {show(got)}, model {show(want)}"))
        if out:
            break
    out.append(("__apply_checked__", ""))
    return out


# ------------------------------------------------------------------------------------------------
# driver


def classify(case: dict[str, Any]) -> tuple[bool, list[str]]:
    kind = case["kind"]
    labels = [f"kind={kind}"]
    if kind == "vec":
        info = vec_class(case)
        labels += [f"vec:class={info['cls']}", f"vec:mode={case['mode']}", f"vec:reduce={'on' if case['reduce'] else 'off'}",
            "vec:form=" + ("expr" if case["split"] is None else "eq")]
        if info["cls"] == "not-a-vector":
            return False, labels
        nterms = len(case["terms"])
        labels.append(f"vec:terms={nterms}")
        nonnum = any(t[0] == "scale" and ops_of(t[1], set()) - {"num"} for t in case["terms"])
        ops: set[str] = set()
        for t in case["terms"]:
            ops_of(t, ops)
        for o in ("cross", "dot", "norm", "mixed", "div"):
            if o in ops:
                labels.append(f"vec:has_{o}")
        if case["fun"][case["u"]]:
            labels.append("vec:unknown-is-applied-function")
        if info.get("elsewhere", 0) > 0 and info["mono"]:
            labels.append("vec:unknown-also-in-coefficient-or-product")
        if any(t == ["scale", ["num", "-1/1"], ["V", case["u"]]] or t == ["neg", ["V", case["u"]]] for t in case["terms"]):
            labels.append("vec:coefficient-minus-one")
        return (nterms >= 3 and nonnum) or len(info["mono"]) >= 2, labels
    if kind == "scheck":
        return True, labels + [f"scheck:shape={case['shape']}", f"scheck:form={case['form']}"]
    if kind == "scalar":
        ops = ops_of(case["lhs"], set()) | (ops_of(case["rhs"], set()) if case["rhs"] else set())
        labels += [f"scalar:shape={case['shape']}", f"scalar:target={case['target']}",
            "scalar:form=" + ("expr" if case["rhs"] is None else "eq")]
        vecco = bool(ops & {"dot", "norm", "mixed"})
        for o in ("dot", "norm", "mixed"):
            if o in ops:
                labels.append(f"scalar:has_{o}")
        return case["shape"] != "linear" or vecco, labels
    labels += [f"apply:f={case['f'][0]}", "apply:form=" + ("expr" if case["split"] is None else "eq"),
        "apply:scalar-equation" if case["scalar_eq"] else "apply:vector-equation"]
    return len(case["terms"]) >= 2, labels


def _shard(task: dict[str, Any]) -> Recorder:
    rec = Recorder()
    strat = {"vec": vec_case, "scalar": scalar_case, "apply": apply_case, "scheck": scheck_case}[task["kind"]]()

    def body(case: dict[str, Any]) -> None:
        res = judge(case)
        try:
            nt, labels = classify(case)
        except Discard:
            nt, labels = False, [f"kind={case['kind']}", "classify:discard"]
        sub = ""
        if case["kind"] == "scalar":
            ops = ops_of(case["lhs"], set()) | (ops_of(case["rhs"], set()) if case["rhs"] else set())
            sub = f":{case['shape']}:{case['target']}:" + ("dot" if "dot" in ops else "nodot")
        for key, what in res:
            if key == "__inconclusive__":
                rec.inconclusive += 1
                labels.append("hang_guard")
            elif key.startswith("__"):
                labels.append(case["kind"] + ":" + key.strip("_") + (sub if "noanswer" in key or "scalar_answered" in key else ""))
            else:
                rec.violation(key, what, case)
        if case["kind"] == "scheck":
            sub = f":{case['shape']}"
            labels = [l if not l.startswith("scheck:noanswer") and not l.startswith("scheck:scalar_answered") else l + sub for l in labels]
        desc = {k: v for k, v in case.items() if k != "assign"}
        rec.case(desc, nontrivial=nt, labels=labels)

    hyp_run(strat, body, task["n"], task["seed"])
    return rec


def run(ctx: Ctx) -> None:
    counts = {"vec": ctx.pick(3600, 42000), "scalar": ctx.pick(1000, 12000), "apply": ctx.pick(600, 6000),
        "scheck": ctx.pick(320, 4000)}
    shards = ctx.pick(16, 48)
    import symplyphysics.core.experimental.solvers  # noqa: F401  pylint: disable=unused-import
    tasks = []
    for off, (kind, n) in enumerate(counts.items()):
        for i, m in enumerate(shard_counts(n, shards)):
            if m:
                tasks.append({"kind": kind, "n": m, "seed": ctx.seed * 1000 + off * 200 + i})
    for status, val in run_tasks(_shard, tasks):
        if status != "ok":
            raise RuntimeError(f"C16 shard failed: {status}: {val}")
        ctx.merge(val)
    ctx.assumptions += [
        "the R^3 component formulas typed in vp/checks/c16.py (ev) are the meaning of the descriptions; library answers are interpreted by vp/model/r3.py:eval_lib",
        "the coefficient of the isolated term may be any merged sub-sum of the unknown's expanded monomials (SymPy merges like terms); the harness expansion distributes products over sums, squares, numerators of quotients and dot products, never denominators, norms or mixed products of atoms",
        "solve_for_scalar: an exception (SymPy found no solution -> IndexError, or any other) is 'no answer', counted per class in coverage.classes, never judged; only returned equations are judged",
        "an unknown whose expanded coefficients cancel identically may be refused (ValueError) or answered",
        "cases where a candidate coefficient or a denominator vanishes at an assignment are discarded and counted",
    ]
    known = {k["key"] for k in ctx.known}
    new_keys = {v["key"] for v in ctx.violations if v["key"] not in known}
    budget = ctx.pick(40, 240) / max(1, len(new_keys))
    done: set[str] = set()
    for v in list(ctx.violations):
        key = v["key"]
        if key in done or key in known:
            continue
        done.add(key)
        small = shrink(v["case"], _candidates, lambda c, key=key: any(k == key for k, _ in judge(c)), budget_s=budget)
        res = [w for k, w in judge(small) if k == key]
        if res:
            ctx.violation(key, res[0], small)


def _simplify_tree(tree: Any) -> Any:
    for p in paths(tree):
        node = get_at(tree, p)
        if not isinstance(node, list) or node[0] in ("V", "S", "num", "zero", "X"):
            continue
        vec = is_vec(node)
        repl = [c for c in node[1:] if isinstance(c, list) and is_vec(c) == vec]
        if not vec:
            repl.append(["num", "1/1"])
            repl.append(["S", 0])
        for r in repl:
            if r != node:
                yield replace_at(tree, p, r)


def _candidates(case: dict[str, Any]) -> Any:
    if case.get("kind") == "scheck":
        co = case["coef"]
        for i, c in enumerate(co):
            for smaller in (1, -1, 0, c // 2):
                if abs(smaller) < abs(c) and not (smaller == 0 and case["shape"] != "pole" and i in (0, 2)):
                    yield {**case, "coef": co[:i] + [smaller] + co[i + 1:]}
        if case["form"] != "eq":
            yield {**case, "form": "eq"}
        return
    if "terms" in case:
        terms = case["terms"]
        for i in range(len(terms)):
            if len(terms) > 1:
                new = terms[:i] + terms[i + 1:]
                split = case["split"]
                if split is not None and i < split:
                    split -= 1
                yield {**case, "terms": new, "split": split}
        for i, t in enumerate(terms):
            for r in _simplify_tree(t):
                if is_vec(r) == is_vec(t):
                    yield {**case, "terms": terms[:i] + [r] + terms[i + 1:]}
        if case.get("split") is not None and case["kind"] != "apply":
            yield {**case, "split": None}
    for side in ("lhs", "rhs"):
        if case.get("kind") == "scalar" and case.get(side):
            for r in _simplify_tree(case[side]):
                yield {**case, side: r}
    if case.get("f") and len(case["f"]) > 1:
        for r in _simplify_tree(case["f"][1]):
            if is_vec(r) == is_vec(case["f"][1]):
                yield {**case, "f": [case["f"][0], r]}
    if any(case["fun"]):
        yield {**case, "fun": [False] * len(case["fun"])}
    if len(case["assign"]) > 1:
        yield {**case, "assign": case["assign"][:1]}
        yield {**case, "assign": case["assign"][1:]}


def replay(case: dict[str, Any]) -> list[tuple[str, str]]:
    return [(k, w) for k, w in judge(case) if not k.startswith("__")]
