"""C13 - circulation and flux integrals satisfy Stokes', Green's and Gauss' theorems.

One generated case = one field + one region + one set of reparametrisations; it is evaluated in ONE worker
task under a hang guard (expiry == inconclusive).  For every case the library's routes

    Stokes : circulation_along_curve(boundary)            vs circulation_along_surface_boundary(surface)
    Green  : flux_across_curve(boundary)                  vs flux_across_surface_boundary(region), region given
             parametrised and implicitly ([x, y] with dependent limits)
    Gauss  : sum of flux_across_surface over six outward faces vs flux_across_volume_boundary(box)
             (+ full cylindrical / spherical shells for flux_across_volume_boundary in curvilinear systems)

are each compared with the harness' own closed form (vp/checks/c13_model.py: monomial moments, never
sympy.integrate, never symplyphysics), so two library routes cannot be wrong together.  Every result must be
free of base scalars and parameters, unchanged by an affine change of parameter speed, negated by a
reversal of orientation.
"""
from __future__ import annotations

from vp import guard as _guard

import os
import signal
import time
import traceback
from typing import Any

from hypothesis import strategies as st

from ..boot import Ctx
from ..hyp import hyp_run
from ..pool import run_tasks
from ..shrink import shrink
from . import c13_model as M

PID = "C13"
RULE = ("Hypothesis-generated cases, one per worker task: a Cartesian field with 2-3 components, each 0-3 terms "
    "c*x^i*y^j*z^l of total degree <= 3 with rational c (minorities: one sin/cos(kappa*coordinate) factor on "
    "rectangles/boxes, a symbolic coefficient k, a symbolic radius R, weak / strong fields (every coefficient times an exact 1e-11 .. 1e9),  construction by lambda or from_vector, calls "
    "through the laws/fields wrappers) on a region drawn from: ellipse/circle disc with flat, tilted, paraboloid or "
    "cone cap (Stokes), planar ellipse/circle and rectangle (Green; region parametrised and implicit), tilted "
    "rectangle with four straight edges (Stokes), box with six outward faces, optionally with a tilted top plane = "
    "dependent z-limit (Gauss), full cylindrical/spherical "
    "shell with a field in curvilinear components (Gauss, volume route only). Each library route is evaluated in "
    "its base form, after an affine change of parameter speed (must not change the value) and after an orientation "
    "reversal (swapped limits, t -> -t, or swapped surface parameters; must negate it), and compared with the "
    "harness closed form (exact: simplify(a-b) == 0, else 30 digits, tolerance 1e-20*(1+|a|+|b|)); results must "
    "have no free symbols other than k, R. Non-trivial = div F (Green/Gauss) or curl F (Stokes) is non-constant "
    "over the region (curvilinear shells: the field depends on a coordinate); distinct by hash of "
    "theorem+field+region.")

# Root cause bucket of the defect found on the unchanged tree (see notes/C13.md): the divergence is integrated
# over the parameter rectangle without being evaluated on the parametrised surface.
DEFECT_KEY = "green:flux_across_surface_boundary:parametrised-region:nonconstant-divergence"
# the minimal reproduction; judged on its own (no exclusion) when the key is listed open, so that the
# KNOWN-FINDING line is printed while generated cases of this class are skipped by construction
DEFECT_CASE: dict[str, Any] = {
    "thm": "green",
    "field": {"comps": [[{"c": "1/1", "p": [2, 0, 0]}], []], "mode": "lambda", "law": False},
    "region": {"shape": "disc", "a": "1/1", "b": "1/1", "cap": ["flat", "0/1"], "dim": 2},
    "variant": {},
}

HANG_S = 300

# ------------------------------------------------------------------------------------------------
# generator


# Hypothesis' own categorical draws favour the first alternatives and mutate earlier examples, which with a few dozen
# expensive cases gives a badly skewed class histogram (measured: cone caps 2 of 74, 'rare' flags in half the cases,
# runs of near-identical fields).  The strategy therefore draws ONE thing from Hypothesis - a Random object seeded by
# Hypothesis (st.randoms(use_true_random=True): deterministic in VERIF_SEED, no other entropy) - and all categorical
# choices below are uniform picks from explicitly weighted lists.

_COEF = ["1/1", "-1/1", "2/1", "-2/1", "3/1", "1/2", "-1/2", "1/3", "-3/2", "2/3"]
_HALF = ["1/1", "2/1", "3/1", "1/2", "3/2"]


def _chance(rnd: Any, num: int, den: int) -> bool:
    return rnd.randrange(den) < num


def _cart_field(rnd: Any, ncomp: int, planar: bool, trig_vars: list[int], allow_sym: bool) -> dict[str, Any]:
    maxdeg = rnd.choice([1, 2, 2, 3, 3, 3])
    trig = None
    if trig_vars and _chance(rnd, 1, 4):
        trig = [rnd.choice(["sin", "cos"]), rnd.choice(trig_vars), rnd.choice(["1/1", "2/1", "1/2", "3/2"])]
    comps = []
    for _ in range(ncomp):
        nterms = rnd.choice([0, 1, 1, 2, 2, 3])
        terms = []
        for _ in range(nterms):
            deg = rnd.choice([x for x in (0, 1, 1, 2, 2, 2, 3, 3, 3) if x <= maxdeg])
            p = [0, 0, 0]
            for _ in range(deg):
                p[rnd.choice([0, 1] if planar else [0, 1, 2])] += 1
            term: dict[str, Any] = {"c": rnd.choice(_COEF), "p": p}
            if trig is not None and _chance(rnd, 1, 2):
                term["t"] = trig
                if sum(p) > 2:  # keep the integrals small: monomial of degree <= 2 next to a trig factor
                    term["p"] = [min(x, 1) for x in p]
            terms.append(term)
        comps.append(terms)
    if not any(comps):
        comps[0] = [{"c": "1/1", "p": [1, 1, 0]}]
    if trig is not None and not any(t.get("t") for c in comps for t in c):
        next(c for c in comps if c)[0]["t"] = trig
    if allow_sym and _chance(rnd, 1, 7):
        next(c for c in comps if c)[0]["k"] = True
    return {"comps": comps, "mode": rnd.choice(["lambda", "lambda", "vector"]), "law": _chance(rnd, 1, 4)}


def _curv_field(rnd: Any, sysname: str) -> dict[str, Any]:
    comps = []
    for i in range(3):
        nterms = rnd.choice([0, 1, 1, 2])
        terms = []
        for _ in range(nterms):
            term: dict[str, Any] = {"c": rnd.choice(_COEF), "r": rnd.choice([-2, -1, 0, 1, 1, 2, 3]),
                "ct": rnd.choice([0, 0, 1, 2]), "st": rnd.choice([0, 0, 1, 2])}
            if sysname == "cyl":
                term["z"] = rnd.choice([0, 1, 2])
            else:
                term["cp"] = rnd.choice([0, 0, 1, 2])
                term["sp"] = rnd.choice([0, 1, 1, 2])
                if i == 1:
                    term["sp"] = max(term["sp"], 1)  # keeps F_theta / sin(phi) polynomial
            terms.append(term)
        comps.append(terms)
    if not comps[0]:
        comps[0] = [{"c": "1/1", "r": 1, "ct": 0, "st": 0, "z": 0} if sysname == "cyl" else
            {"c": "1/1", "r": 1, "ct": 0, "st": 0, "cp": 0, "sp": 0}]
    return {"comps": comps, "mode": rnd.choice(["lambda", "vector"]), "law": False}


def _variant(rnd: Any) -> dict[str, Any]:
    return {
        "speed": [rnd.choice(["2/1", "3/1", "1/2", "3/2"]), rnd.choice(["0/1", "1/1", "-1/2", "1/3"])],
        "uspeed": rnd.choice(["2/1", "1/2", "3/1"]),
        "rev_curve": rnd.choice(["swaplimits", "neg"]),
        "rev_surface": rnd.choice(["swapparams", "swaplimits", "neg"]),
        "implicit_order": rnd.choice(["xy", "yx"]),
    }


def _plus(lo: str, width: str) -> str:
    return str(M.Rational(lo) + M.Rational(width))


# strata (theorem, shape) and their share of the generated cases; the stratum is fixed by the driver so that a small
# number of expensive cases is spread evenly
STRATA = (("stokes", "disc", 5), ("stokes", "rect", 3), ("green", "disc", 4), ("green", "rect", 3), ("gauss", "box", 4),
    ("gauss_curv", "cyl", 2), ("gauss_curv", "sph", 1))


_FSCALES = ["1/100000000000", "1/1000000000000", "3/20000000000", "1000000000/1"]


def make_case(rnd: Any, thm: str, shape: str) -> dict[str, Any]:
    """A case; one in five Cartesian cases has a WEAK or STRONG field: every coefficient times an exact 1e-11 .. 1e9 (both
    sides of each theorem are linear in the field, values stay exact rationals times pi)."""
    case = _make_case(rnd, thm, shape)
    if thm != "gauss_curv" and _chance(rnd, 1, 5):
        f = M.Rational(rnd.choice(_FSCALES))
        for comp in case["field"]["comps"]:
            for term in comp:
                term["c"] = str(M.Rational(term["c"]) * f)
        case["fscale"] = str(f)
    return case


def _make_case(rnd: Any, thm: str, shape: str) -> dict[str, Any]:
    # pylint: disable=too-many-branches
    if thm == "gauss_curv":
        r0 = rnd.choice(["1/2", "1/1", "3/2"])
        region: dict[str, Any] = {"shape": shape, "r": [r0, _plus(r0, rnd.choice(["1/1", "3/2", "1/2"]))]}
        if shape == "cyl":
            z0 = rnd.choice(["0/1", "-1/1", "1/2"])
            region["z"] = [z0, _plus(z0, rnd.choice(["1/1", "2/1", "5/2"]))]
        return {"thm": thm, "field": _curv_field(rnd, shape), "region": region, "variant": {}}
    if thm == "gauss":
        region = {"shape": "box"}
        for n in "xyz":
            lo = rnd.choice(["0/1", "-1/1", "1/1", "-3/2", "1/2"])
            region[n] = [lo, _plus(lo, rnd.choice(_HALF))]
        wedge = _chance(rnd, 1, 3)
        if wedge:  # dependent upper z-limit: a plane that never drops below the box top
            region["top"] = rnd.choice([["1/2", "0/1"], ["0/1", "1/1"], ["1/1", "-1/2"], ["-1/1", "1/2"], ["-1/2", "-1/1"]])
        field = _cart_field(rnd, rnd.choice([3, 3, 3, 2]), False, [0, 1] if wedge else [0, 1, 2], True)
        return {"thm": thm, "field": field, "region": region, "variant": _variant(rnd)}
    if shape == "disc":
        a = rnd.choice(_HALF)
        b = a if _chance(rnd, 1, 3) else rnd.choice(_HALF)
        if _chance(rnd, 1, 9):
            a = b = "R"
        region = {"shape": "disc", "a": a, "b": b}
        z0 = rnd.choice(["0/1", "0/1", "1/1", "-1/2"])
        if thm == "stokes":
            kind = rnd.choice(["flat", "tilt", "parab", "cone"])
            if kind == "flat":
                region["cap"] = ["flat", z0]
            elif kind == "tilt":
                region["cap"] = ["tilt", rnd.choice(["1/2", "-1/1", "2/1"]), rnd.choice(["1/1", "-1/2", "0/1"]), z0]
            else:
                region["cap"] = [kind, rnd.choice(["1/1", "2/1", "-1/1"]), z0]
            region["dim"] = 2 if region["cap"] == ["flat", "0/1"] and _chance(rnd, 1, 2) else 3
        else:
            region["cap"] = ["flat", "0/1"]
            region["dim"] = 2
        trig_vars: list[int] = []
    else:
        region = {"shape": "rect", "x0": rnd.choice(["0/1", "-1/1", "1/1", "-3/2"]), "w": rnd.choice(_HALF),
            "y0": rnd.choice(["0/1", "-1/1", "1/2", "-2/1"]), "h": rnd.choice(_HALF)}
        if thm == "stokes":
            if _chance(rnd, 1, 2):
                region["cap"] = ["tilt", rnd.choice(["1/2", "-1/1", "2/1"]), rnd.choice(["1/1", "-1/2", "0/1"]),
                    rnd.choice(["0/1", "1/1"])]
            else:
                region["cap"] = ["flat", rnd.choice(["0/1", "1/1", "-1/2"])]
            region["dim"] = 2 if region["cap"] == ["flat", "0/1"] and _chance(rnd, 1, 2) else 3
        else:
            region["cap"] = ["flat", "0/1"]
            region["dim"] = 2
        trig_vars = [0, 1]
    if thm == "green":
        field = _cart_field(rnd, 2, True, trig_vars, True)
    else:
        field = _cart_field(rnd, rnd.choice([3, 3, 3, 2]), False, trig_vars, True)
    return {"thm": thm, "field": field, "region": region, "variant": _variant(rnd)}


def case_strategy(thm: str, shape: str) -> st.SearchStrategy[dict[str, Any]]:
    return st.randoms(use_true_random=True).map(lambda rnd: make_case(rnd, thm, shape))


def generate(n: int, seed: int) -> list[dict[str, Any]]:
    """n case descriptions, spread over the strata in proportion to their weights (deterministic in seed)."""
    total = sum(w for _, _, w in STRATA)
    counts = [n * w // total for _, _, w in STRATA]
    i = 0
    while sum(counts) < n:
        counts[i % len(counts)] += 1
        i += 1
    per: list[list[dict[str, Any]]] = []
    for j, ((thm, shape, _), cnt) in enumerate(zip(STRATA, counts)):
        got: list[dict[str, Any]] = []
        if cnt:
            hyp_run(case_strategy(thm, shape), got.append, cnt, seed * 100 + j)
        per.append(got)
    # interleave the strata so that expensive ones are not queued together
    out: list[dict[str, Any]] = []
    k = 0
    while any(per):
        if per[k % len(per)]:
            out.append(per[k % len(per)].pop(0))
        k += 1
    return out


# ------------------------------------------------------------------------------------------------
# library side


def _lib() -> Any:
    import types
    from symplyphysics.core.coordinate_systems.coordinate_systems import CoordinateSystem
    from symplyphysics.core.fields import analysis
    from symplyphysics.core.fields.vector_field import VectorField
    from symplyphysics.core.vectors.vectors import Vector
    from symplyphysics.laws.fields import (circulation_is_integral_along_curve as law_cc,
        circulation_is_integral_of_curl_over_surface as law_cs, flux_is_integral_across_curve as law_fc,
        flux_is_integral_across_surface as law_fs)
    return types.SimpleNamespace(CoordinateSystem=CoordinateSystem, an=analysis, VectorField=VectorField,
        Vector=Vector, law_cc=law_cc, law_cs=law_cs, law_fc=law_fc, law_fs=law_fs)


class Routes:
    """The library's integrals for one case. Every method returns a SymPy expression."""

    def __init__(self, case: dict[str, Any]) -> None:
        import sympy
        self.L = L = _lib()
        self.case = case
        field = case["field"]
        S = L.CoordinateSystem.System
        if case["thm"] == "gauss_curv":
            self.sysname = case["region"]["shape"]
            self.C = L.CoordinateSystem(S.CYLINDRICAL if self.sysname == "cyl" else S.SPHERICAL)
            names = ("r", "theta", "z") if self.sysname == "cyl" else ("r", "theta", "phi")

            def comps_at(v: Any) -> list[Any]:
                return [M.curv_comp_expr(c, v[0], v[1], v[2], self.sysname) for c in field["comps"]]
        else:
            self.C = L.CoordinateSystem(S.CARTESIAN)
            names = ("x", "y", "z")

            def comps_at(v: Any) -> list[Any]:
                return [M.comp_expr(c, v) for c in field["comps"]]

        self.bs = self.C.coord_system.base_scalars()
        if field["mode"] == "lambda":
            self.field = L.VectorField(lambda p: comps_at([getattr(p, n) for n in names]), self.C)
        else:
            self.field = L.VectorField.from_vector(L.Vector(comps_at(self.bs), self.C))
        self.law = bool(field.get("law"))
        # parameters: the law modules' own symbols when going through the wrappers
        self.t = L.law_cc.parameter if self.law else sympy.Symbol("t")
        self.p1 = L.law_cs.parameter1 if self.law else sympy.Symbol("u")
        self.p2 = L.law_cs.parameter2 if self.law else sympy.Symbol("v")

    # -- thin call wrappers ----------------------------------------------------------------
    def circ_curve(self, traj: list[Any], lo: Any, hi: Any) -> Any:
        if self.law:
            return self.L.law_cc.circulation_law(self.field, traj, lo, hi)
        return self.L.an.circulation_along_curve(self.field, traj, (self.t, lo, hi))

    def flux_curve(self, traj: list[Any], lo: Any, hi: Any) -> Any:
        if self.law:
            return self.L.law_fc.flux_law(self.field, traj, lo, hi)
        return self.L.an.flux_across_curve(self.field, traj, (self.t, lo, hi))

    def circ_surface(self, surf: list[Any], lim1: Any, lim2: Any) -> Any:
        if self.law and lim1[0] == self.p1 and lim2[0] == self.p2:
            return self.L.law_cs.circulation_law(self.field, surf, lim1[1:], lim2[1:])
        return self.L.an.circulation_along_surface_boundary(self.field, surf, lim1, lim2)

    def flux_surface(self, surf: list[Any], lim1: Any, lim2: Any) -> Any:
        if self.law and lim1[0] == self.p1 and lim2[0] == self.p2:
            return self.L.law_fs.flux_law(self.field, surf, lim1[1:], lim2[1:])
        return self.L.an.flux_across_surface(self.field, surf, lim1, lim2)

    def flux_region(self, surf: list[Any], lim1: Any, lim2: Any) -> Any:
        return self.L.an.flux_across_surface_boundary(self.field, surf, lim1, lim2)

    def flux_volume(self, xl: Any, yl: Any, zl: Any) -> Any:
        return self.L.an.flux_across_volume_boundary(self.field, xl, yl, zl)


def _affine(variant: dict[str, Any]) -> tuple[Any, Any, Any]:
    sp = variant.get("speed", ["1/1", "0/1"])
    return M.Rational(sp[0]), M.Rational(sp[1]), M.Rational(variant.get("uspeed", "1/1"))


def _disc_traj(region: dict[str, Any], uu: Any, tt: Any) -> list[Any]:
    import sympy
    S3 = M.disc_surface(region)
    out = [sympy.sympify(c).subs({M.U: uu, M.CT: sympy.cos(tt), M.ST: sympy.sin(tt)}, simultaneous=True) for c in S3]
    return out[:region.get("dim", 3)]


def _rect_traj(region: dict[str, Any], xx: Any, yy: Any) -> list[Any]:
    al, be, z0 = M.rect_plane(region)
    return [xx, yy, al * xx + be * yy + z0][:region.get("dim", 3)]


def plan(case: dict[str, Any], routes: Routes) -> list[dict[str, Any]]:
    """The list of library evaluations of a case: each {fn, region, clause, sign, call}."""
    # pylint: disable=too-many-locals,too-many-statements,too-many-branches
    import sympy
    thm, region, variant = case["thm"], case["region"], case["variant"]
    pi2 = 2 * sympy.pi
    t, u, v = routes.t, routes.p1, routes.p2
    c, d, cu = _affine(variant)
    items: list[dict[str, Any]] = []

    def add(fn: str, reg: str, clause: str, sign: int, call: Any, cls: str = "") -> None:
        items.append({"fn": fn, "region": reg, "clause": clause, "sign": sign, "call": call, "cls": cls})

    shape = region["shape"]
    if thm in ("stokes", "green") and shape == "disc":
        curve_fn = ("circulation_along_curve", routes.circ_curve) if thm == "stokes" else ("flux_across_curve", routes.flux_curve)
        bd = lambda tt: _disc_traj(region, 1, tt)  # noqa: E731
        add(curve_fn[0], "disc", "value", 1, lambda: curve_fn[1](bd(t), 0, pi2))
        if variant:
            add(curve_fn[0], "disc", "reparam", 1, lambda: curve_fn[1](bd(c * t + d), -d / c, (pi2 - d) / c))
            if variant["rev_curve"] == "swaplimits":
                add(curve_fn[0], "disc", "orientation", -1, lambda: curve_fn[1](bd(t), pi2, 0))
            else:
                add(curve_fn[0], "disc", "orientation", -1, lambda: curve_fn[1](bd(-t), 0, pi2))
        sf = lambda uu, tt: _disc_traj(region, uu, tt)  # noqa: E731
        if thm == "stokes":
            name, call = "circulation_along_surface_boundary", routes.circ_surface
            add(name, "disc", "value", 1, lambda: call(sf(u, v), (u, 0, 1), (v, 0, pi2)))
            cap = region["cap"]
            if cap[0] in ("flat", "tilt", "parab") and region.get("dim", 3) == 3:
                # the same cap swept by chords: Cartesian parameters over a NON-rectangular domain (the limits of the
                # first parameter depend on the second); same orientation as the polar parametrisation
                a_, b_ = M.rat(region["a"]), M.rat(region["b"])
                half_ = a_ * sympy.sqrt(1 - v**2 / b_**2)
                if cap[0] == "flat":
                    zc = M.Rational(cap[1])
                elif cap[0] == "tilt":
                    zc = M.Rational(cap[1]) * u + M.Rational(cap[2]) * v + M.Rational(cap[3])
                else:
                    zc = M.Rational(cap[1]) * (1 - u**2 / a_**2 - v**2 / b_**2) + M.Rational(cap[2])
                add(name, "disc:chords", "value", 1, lambda: call([u, v, zc], (u, -half_, half_), (v, -b_, b_)))
            if variant:
                add(name, "disc", "reparam", 1,
                    lambda: call(sf(cu * u, c * v + d), (u, 0, 1 / cu), (v, -d / c, (pi2 - d) / c)))
                rs = variant["rev_surface"]
                if rs == "swapparams":
                    add(name, "disc", "orientation", -1, lambda: call(sf(u, v), (v, 0, pi2), (u, 0, 1)))
                elif rs == "swaplimits":
                    add(name, "disc", "orientation", -1, lambda: call(sf(u, v), (u, 0, 1), (v, pi2, 0)))
                else:
                    add(name, "disc", "orientation", -1, lambda: call(sf(u, -v), (u, 0, 1), (v, 0, pi2)))
        else:
            name, call = "flux_across_surface_boundary", routes.flux_region
            add(name, "disc:parametrised", "value", 1, lambda: call(sf(u, v), (u, 0, 1), (v, 0, pi2)), "param")
            if variant:
                add(name, "disc:parametrised", "reparam", 1,
                    lambda: call(sf(cu * u, c * v + d), (u, 0, 1 / cu), (v, -d / c, (pi2 - d) / c)), "param")
                add(name, "disc:parametrised", "reparam", 1, lambda: call(sf(u, v), (v, 0, pi2), (u, 0, 1)), "param")
            x, y = routes.bs[0], routes.bs[1]
            a, b = M.rat(region["a"]), M.rat(region["b"])
            if variant.get("implicit_order", "xy") == "xy":
                half = a * sympy.sqrt(1 - y**2 / b**2)
                add(name, "disc:implicit", "value", 1, lambda: call([x, y], (x, -half, half), (y, -b, b)))
            else:
                half = b * sympy.sqrt(1 - x**2 / a**2)
                add(name, "disc:implicit", "value", 1, lambda: call([x, y], (y, -half, half), (x, -a, a)))
    elif thm in ("stokes", "green") and shape == "rect":
        x0, x1, y0, y1 = M._rect(region)  # pylint: disable=protected-access
        w, h = x1 - x0, y1 - y0
        curve_fn = ("circulation_along_curve", routes.circ_curve) if thm == "stokes" else ("flux_across_curve", routes.flux_curve)

        def edges(tt: Any) -> list[list[Any]]:
            return [
                _rect_traj(region, x0 + w * tt, y0 + 0 * tt),
                _rect_traj(region, x1 + 0 * tt, y0 + h * tt),
                _rect_traj(region, x1 - w * tt, y1 + 0 * tt),
                _rect_traj(region, x0 + 0 * tt, y1 - h * tt),
            ]

        add(curve_fn[0], "rect", "value", 1, lambda: sum(curve_fn[1](e, 0, 1) for e in edges(t)))
        # a NON-linear parametrisation of the same straight edges whose parameter runs backwards: s = (1 - t)^2 with t
        # from 1 down to 0 traverses each edge once in the same direction (ds/dt < 0 on the range, limits swapped)
        # (flux only: the line element |dl| enters there; the circulation integrand has no such factor)
        if thm == "green":
            add(curve_fn[0], "rect", "reparam", 1, lambda: sum(curve_fn[1](e, 1, 0) for e in edges((1 - t)**2)))
        if variant:
            add(curve_fn[0], "rect", "reparam", 1,
                lambda: sum(curve_fn[1](e, -d / c, (1 - d) / c) for e in edges(c * t + d)))
            if variant["rev_curve"] == "swaplimits":
                add(curve_fn[0], "rect", "orientation", -1, lambda: sum(curve_fn[1](e, 1, 0) for e in edges(t)))
            else:
                add(curve_fn[0], "rect", "orientation", -1, lambda: sum(curve_fn[1](e, 0, 1) for e in edges(1 - t)))
        sf = lambda uu, vv: _rect_traj(region, x0 + w * uu, y0 + h * vv)  # noqa: E731
        if thm == "stokes":
            name, call = "circulation_along_surface_boundary", routes.circ_surface
            add(name, "rect", "value", 1, lambda: call(sf(u, v), (u, 0, 1), (v, 0, 1)))
            if region.get("dim", 3) == 3:
                bx, by = routes.bs[0], routes.bs[1]
                add(name, "rect:base-scalars-swapped", "value", 1,
                    lambda: call(_rect_traj(region, by, bx), (by, x0, x1), (bx, y0, y1)))
            if variant:
                add(name, "rect", "reparam", 1,
                    lambda: call(sf(cu * u, c * v + d), (u, 0, 1 / cu), (v, -d / c, (1 - d) / c)))
                rs = variant["rev_surface"]
                if rs == "swapparams":
                    add(name, "rect", "orientation", -1, lambda: call(sf(u, v), (v, 0, 1), (u, 0, 1)))
                elif rs == "swaplimits":
                    add(name, "rect", "orientation", -1, lambda: call(sf(u, v), (u, 0, 1), (v, 1, 0)))
                else:
                    add(name, "rect", "orientation", -1, lambda: call(sf(u, 1 - v), (u, 0, 1), (v, 0, 1)))
        else:
            name, call = "flux_across_surface_boundary", routes.flux_region
            add(name, "rect:parametrised", "value", 1, lambda: call(sf(u, v), (u, 0, 1), (v, 0, 1)), "param")
            if variant:
                add(name, "rect:parametrised", "reparam", 1,
                    lambda: call(sf(cu * u, c * v + d), (u, 0, 1 / cu), (v, -d / c, (1 - d) / c)), "param")
            x, y = routes.bs[0], routes.bs[1]
            if variant.get("implicit_order", "xy") == "xy":
                add(name, "rect:implicit", "value", 1, lambda: call([x, y], (x, x0, x1), (y, y0, y1)))
            else:
                add(name, "rect:implicit", "value", 1, lambda: call([x, y], (y, y0, y1), (x, x0, x1)))
            # the same rectangle with the system's own base scalars in SWAPPED roles: the first coordinate is written with
            # the base scalar y, the second with x (a substitution done one scalar after the other goes wrong here)
            add(name, "rect:implicit-swapped", "value", 1, lambda: call([y, x], (y, x0, x1), (x, y0, y1)))
    elif thm == "gauss":
        rg = {n: (M.Rational(region[n][0]), M.Rational(region[n][1])) for n in "xyz"}
        (xa, xb), (ya, yb), (za, zb) = rg["x"], rg["y"], rg["z"]
        hx, hy = xb - xa, yb - ya
        _ = zb

        def gtop(xx: Any, yy: Any) -> Any:
            return M.box_top(region, xx, yy)

        def faces(uu: Any, vv: Any) -> list[list[Any]]:
            # parametrised so that d/du x d/dv points out of the box (the top may be a tilted plane z = g(x, y))
            return [
                [xb, ya + hy * uu, za + (gtop(xb, ya + hy * uu) - za) * vv],
                [xa, ya + hy * vv, za + (gtop(xa, ya + hy * vv) - za) * uu],
                [xa + hx * vv, yb, za + (gtop(xa + hx * vv, yb) - za) * uu],
                [xa + hx * uu, ya, za + (gtop(xa + hx * uu, ya) - za) * vv],
                [xa + hx * uu, ya + hy * vv, gtop(xa + hx * uu, ya + hy * vv)],
                [xa + hx * vv, ya + hy * uu, za],
            ]

        call = routes.flux_surface
        add("flux_across_surface", "box", "value", 1, lambda: sum(call(f, (u, 0, 1), (v, 0, 1)) for f in faces(u, v)))
        if variant:
            add("flux_across_surface", "box", "reparam", 1, lambda: sum(
                call(f, (u, 0, 1 / cu), (v, -d / c, (1 - d) / c)) for f in faces(cu * u, c * v + d)))
            rs = variant["rev_surface"]
            if rs == "swapparams":
                add("flux_across_surface", "box", "orientation", -1,
                    lambda: sum(call(f, (v, 0, 1), (u, 0, 1)) for f in faces(u, v)))
            elif rs == "swaplimits":
                add("flux_across_surface", "box", "orientation", -1,
                    lambda: sum(call(f, (u, 0, 1), (v, 1, 0)) for f in faces(u, v)))
            else:
                add("flux_across_surface", "box", "orientation", -1,
                    lambda: sum(call(f, (u, 0, 1), (v, 0, 1)) for f in faces(u, 1 - v)))
        add("flux_across_volume_boundary", "box", "value", 1,
            lambda: routes.flux_volume((xa, xb), (ya, yb), (za, gtop(routes.bs[0], routes.bs[1]))))
    elif thm == "gauss_curv":
        r0, r1 = M.Rational(region["r"][0]), M.Rational(region["r"][1])
        if shape == "cyl":
            z0, z1 = M.Rational(region["z"][0]), M.Rational(region["z"][1])
            add("flux_across_volume_boundary", "cyl", "value", 1, lambda: routes.flux_volume((r0, r1), (0, pi2), (z0, z1)))
        else:
            add("flux_across_volume_boundary", "sph", "value", 1,
                lambda: routes.flux_volume((r0, r1), (0, pi2), (0, sympy.pi)))
    else:
        raise ValueError((thm, shape))
    return items


# ------------------------------------------------------------------------------------------------
# judgement

_SUBS = {"k": "3/7", "R": "5/3"}


def _compare(got: Any, want: Any) -> tuple[str, str]:
    """('ok'|'freevars'|'differs'|'inconclusive', detail)."""
    import sympy
    got = sympy.sympify(got)
    extra = got.free_symbols - {M.K, M.RAD}
    if extra:
        return "freevars", f"result {str(got)[:160]} contains {sorted(str(s) for s in extra)}"
    try:
        if got.has(sympy.Integral):
            got = got.doit()
        diff = sympy.simplify(got - want)
        if diff == 0:
            return "ok", ""
        sub = {M.K: sympy.Rational(_SUBS["k"]), M.RAD: sympy.Rational(_SUBS["R"])}
        gn, wn = sympy.N(got.subs(sub), 30), sympy.N(want.subs(sub), 30)
        if not (gn.is_number and wn.is_number) or gn.has(sympy.nan, sympy.zoo, sympy.oo) or not gn.is_finite:
            return "inconclusive", f"cannot evaluate {str(got)[:120]} numerically"
        if abs(gn - wn) <= sympy.Float("1e-20") * (1 + abs(gn) + abs(wn)):
            return "ok", ""
        return "differs", f"library {str(got)[:120]} (= {sympy.N(gn, 12)}) vs closed form {str(want)[:120]} (= {sympy.N(wn, 12)})"
    except (TypeError, ValueError, NotImplementedError) as exc:
        return "inconclusive", f"{type(exc).__name__} comparing {str(got)[:120]}"


def _exc_frame(exc: BaseException) -> str:
    frame = "?"
    for fr in traceback.extract_tb(exc.__traceback__):
        if "symplyphysics" in fr.filename:
            frame = f"{fr.filename.split('symplyphysics/')[-1]}:{fr.name}"
    return frame


def judge(case: dict[str, Any], exclude: tuple[str, ...] = ()) -> list[tuple[str, str]]:
    """All violations of one case as (key, what); pseudo-keys '__...__' carry bookkeeping."""
    out: list[tuple[str, str]] = []
    want = M.truth(case)
    routes = Routes(case)
    nonconst = M.nonconstant(case)
    for item in plan(case, routes):
        defect_class = item["cls"] == "param" and nonconst
        if defect_class and DEFECT_KEY in exclude:
            out.append(("__excluded__", DEFECT_KEY))
            continue
        base = f"{item['fn']}:{item['region']}"
        t0 = time.time()
        try:
            got = item["call"]()
        except Exception as exc:  # pylint: disable=broad-except
            out.append((f"exception:{base}:{type(exc).__name__}",
                f"{type(exc).__name__}: {exc} at {_exc_frame(exc)} ({item['clause']} form)"))
            continue
        out.append(("__time__", f"{item['fn']}:{time.time() - t0:.2f}"))
        verdict, detail = _compare(got, item["sign"] * want)
        if verdict == "ok":
            continue
        if verdict == "inconclusive":
            out.append(("__inconclusive__", f"{base}: {detail}"))
            continue
        if defect_class:
            key = DEFECT_KEY
        elif verdict == "freevars":
            key = f"freevars:{base}"
        else:
            key = f"{item['clause']}:{base}"
        expect = {"value": "the closed form", "reparam": "the closed form after a change of parameter speed",
            "orientation": "minus the closed form after orientation reversal"}[item["clause"]]
        out.append((key, f"{item['fn']} on {item['region']} should give {expect} {item['sign'] * want}: {detail}"))
    return out


class _Hang(Exception):
    pass


def _alarm(_s: int, _f: Any) -> None:
    raise _Hang()


def judge_guarded(case: dict[str, Any], exclude: tuple[str, ...] = (), hang_s: int = HANG_S) -> list[tuple[str, str]]:
    _guard.install(_alarm)
    _guard.arm(hang_s)
    try:
        return judge(case, exclude)
    except _Hang:
        return [("__hang__", "in-process hang guard expired")]
    finally:
        signal.alarm(0)


# ------------------------------------------------------------------------------------------------
# labels


def labels_of(case: dict[str, Any]) -> list[str]:
    field, region = case["field"], case["region"]
    labels = [f"thm:{case['thm']}", f"shape:{region['shape']}", f"mode:{field['mode']}",
        f"components:{len(field['comps'])}"]
    if "cap" in region and case["thm"] == "stokes":
        labels.append(f"cap:{region['cap'][0]}")
        labels.append(f"trajectory_dim:{region.get('dim', 3)}")
    if region["shape"] == "box":
        labels.append("box:tilted_top(dependent_limits)" if region.get("top", ["0/1", "0/1"]) != ["0/1", "0/1"] else "box:plain")
    if region.get("a") == "R":
        labels.append("symbolic_radius")
    elif region["shape"] == "disc":
        labels.append("circle" if region["a"] == region["b"] else "ellipse")
    terms = [t for c in field["comps"] for t in c]
    if case["thm"] != "gauss_curv":
        labels.append(f"degree:{max([sum(t['p']) for t in terms] or [0])}")
        if any(t.get("t") for t in terms):
            labels.append("trig_factor")
    if any(t.get("k") for t in terms):
        labels.append("symbolic_coefficient")
    if field.get("law"):
        labels.append("via_laws_wrappers")
    if case.get("fscale"):
        labels.append("field_scale:" + ("weak" if M.Rational(case["fscale"]) < 1 else "strong"))
    v = case.get("variant") or {}
    if v:
        labels.append(f"rev_curve:{v['rev_curve']}")
        labels.append(f"rev_surface:{v['rev_surface']}")
    labels.append("nonconstant_integrand" if M.nonconstant(case) else "constant_integrand")
    return labels


def desc_of(case: dict[str, Any]) -> dict[str, Any]:
    return {"thm": case["thm"], "field": case["field"], "region": case["region"]}


# ------------------------------------------------------------------------------------------------
# driver


def _one(task: dict[str, Any]) -> dict[str, Any]:
    t0 = time.time()
    res = judge(task["case"], tuple(task["exclude"]))
    return {"res": res, "wall": time.time() - t0}


def _open_keys(ctx: Ctx) -> tuple[str, ...]:
    return tuple(k["key"] for k in ctx.known if k.get("status") == "open")


def run(ctx: Ctx) -> None:
    # pylint: disable=too-many-locals,too-many-branches
    # imports are paid once, before the workers are forked
    import symplyphysics.laws.fields  # noqa: F401  pylint: disable=unused-import
    _lib()
    exclude = tuple(k for k in _open_keys(ctx) if k == DEFECT_KEY)
    n = int(os.environ.get("VERIF_C13_CASES", "0") or "0") or ctx.pick(160, 2400)  # env override: development only
    cases = generate(n, ctx.seed)
    if exclude:
        # the class is skipped in generated cases; its minimal reproduction is still judged so that the
        # KNOWN-FINDING line keeps being printed for as long as the defect exists
        ctx.count("known_defect_canonical_case")
        for key, what in judge_guarded(DEFECT_CASE):
            if not key.startswith("__"):
                ctx.violation(key, what, DEFECT_CASE)
    tasks = [{"case": c, "exclude": list(exclude)} for c in cases]
    walls: list[float] = []
    per_fn: dict[str, float] = {}
    results = run_tasks(_one, tasks, timeout=HANG_S)
    for (status, val), case in zip(results, cases):
        labels = labels_of(case)
        if status == "timeout":
            ctx.inconclusive += 1
            labels.append("hang_guard")
            ctx.case(desc_of(case), nontrivial=False, labels=labels)
            continue
        if status != "ok":
            raise RuntimeError(f"C13 worker failed on {case}: {val}")
        walls.append(val["wall"])
        excluded = 0
        for key, what in val["res"]:
            if key == "__excluded__":
                excluded += 1
            elif key == "__time__":
                fn, secs = what.rsplit(":", 1)
                per_fn[fn] = max(per_fn.get(fn, 0.0), float(secs))
            elif key == "__inconclusive__":
                ctx.inconclusive += 1
                labels.append("comparison_inconclusive")
            elif not key.startswith("__"):
                ctx.violation(key, what, case)
        if excluded:
            labels.append(f"excluded:{DEFECT_KEY}")
            ctx.count("excluded_evaluations", excluded)
        ctx.case(desc_of(case), nontrivial=M.nonconstant(case), labels=labels)
    walls.sort()
    if walls:
        ctx.notes["case_seconds"] = {"median": round(walls[len(walls) // 2], 2), "max": round(walls[-1], 2),
            "sum": round(sum(walls), 1)}
    ctx.notes["slowest_single_integral_s"] = {k: round(v, 2) for k, v in sorted(per_fn.items())}
    ctx.notes["hang_guard_s"] = HANG_S
    ctx.assumptions += [
        "fields are polynomial (degree <= 3) with at most one sin/cos(kappa*coordinate) factor, so every integral has a closed form",
        "closed curves are traversed counter-clockwise seen from +z, surfaces carry the normal d/dp1 x d/dp2, box faces are "
        "parametrised outward by the harness (as the laws/fields descriptions require: 'positively oriented')",
        "Green's theorem is exercised with 2-component fields of x, y only (flux_across_curve documents that precondition)",
        "harness closed forms (vp/checks/c13_model.py) are computed on both sides of each theorem and must agree, else harness error",
        "a case whose worker exceeds the hang guard, or whose result cannot be evaluated numerically, is inconclusive",
    ]
    # minimise one case per new key
    known = {k["key"] for k in ctx.known}
    seen: set[str] = set()
    for vio in list(ctx.violations):
        key = vio["key"]
        if key in seen or key in known:
            continue
        seen.add(key)
        small = shrink(vio["case"], _candidates,
            lambda c, key=key: any(k == key for k, _ in judge_guarded(c, (), 60)), budget_s=ctx.pick(40, 120))
        res = [w for k, w in judge_guarded(small, (), 60) if k == key]
        if res:
            ctx.violation(key, res[0], small)


def _candidates(case: dict[str, Any]) -> Any:
    field, region = case["field"], case["region"]
    comps = field["comps"]
    if case.get("variant"):
        yield {**case, "variant": {}}
    for i, comp in enumerate(comps):
        for j in range(len(comp)):
            new = comps[:i] + [comp[:j] + comp[j + 1:]] + comps[i + 1:]
            if any(new):
                yield {**case, "field": {**field, "comps": new}}
        for j, term in enumerate(comp):
            alts = []
            if term.get("t"):
                alts.append({k: v for k, v in term.items() if k != "t"})
            if term.get("k"):
                alts.append({k: v for k, v in term.items() if k != "k"})
            if "p" in term:
                for a, p in enumerate(term["p"]):
                    if p:
                        alts.append({**term, "p": term["p"][:a] + [p - 1] + term["p"][a + 1:]})
            if term["c"] != "1/1":
                alts.append({**term, "c": "1/1"})
            for alt in alts:
                yield {**case, "field": {**field, "comps": comps[:i] + [comp[:j] + [alt] + comp[j + 1:]] + comps[i + 1:]}}
    if field.get("law"):
        yield {**case, "field": {**field, "law": False}}
    if field["mode"] != "lambda":
        yield {**case, "field": {**field, "mode": "lambda"}}
    if region["shape"] == "disc":
        if region["a"] != "1/1" or region["b"] != "1/1":
            yield {**case, "region": {**region, "a": "1/1", "b": "1/1"}}
        if region["cap"] != ["flat", "0/1"]:
            yield {**case, "region": {**region, "cap": ["flat", "0/1"]}}
    if region["shape"] == "rect":
        if region["cap"] != ["flat", "0/1"]:
            yield {**case, "region": {**region, "cap": ["flat", "0/1"]}}
        for n, val in (("x0", "0/1"), ("y0", "0/1"), ("w", "1/1"), ("h", "1/1")):
            if region[n] != val:
                yield {**case, "region": {**region, n: val}}
    if region["shape"] == "box":
        if "top" in region:
            yield {**case, "region": {k: v for k, v in region.items() if k != "top"}}
        for n in "xyz":
            if region[n] != ["0/1", "1"]:
                yield {**case, "region": {**region, n: ["0/1", "1"]}}


def replay(case: dict[str, Any]) -> list[tuple[str, str]]:
    return [(k, w) for k, w in judge_guarded(case, (), 600) if not k.startswith("__")]
