"""M-qexpr: reference semantics of quantity expressions, shared by C05 and C06.

Two drivers feed one arithmetic core (`Sem`):

* `jeval(tree)`   - evaluates the plain-JSON case description (the *intended* value/dimension),
* `walk(expr)`    - evaluates the SymPy expression object that is actually handed to the library
                    (what the constructor / the inference really sees after SymPy's canonicalisation).

Leaves get their meaning from the harness (M-units table, generated magnitudes, declared dimensions of
symbols) by *object identity*; sums, products, powers, abs, min/max and functions are computed by the
model's own arithmetic on exact SymPy numbers (Floats are replaced by their exact binary rationals and
flagged `inexact`) and on M-dim vectors.  The model never calls symplyphysics' collectors.

Rules implemented (property texts C05/C06):
  * a term whose value is zero, +-infinite or NaN is a wildcard (compatible with any dimension);
  * Add/Min/Max: all non-wildcard terms must have the same dimension vector, judged on the terms *as
    written* (order-independent), otherwise refusal `add_dims`/`min_dims`/`max_dims`;
  * Pow: the exponent must be dimensionless or a wildcard (`exp_dim`); dimension = base**exponent value;
  * functions (C05 only): every argument dimensionless or wildcard (`fn_arg_dim`);
  * free symbol (`symbol`) / unevaluated Derivative (`derivative`) refuse (C05 only).
Refusals are *collected* (the walk continues), so a case knows every reason and whether a reason could be
masked by the two order/typing dependent library behaviours that are emulated for root-cause keys only:
`amnesic` (running fold forgets the dimension when the partial result is a wildcard) and
`float_zero_wild=False` (a Float zero is not recognised as a wildcard).
"""
from __future__ import annotations

import itertools
from typing import Any, Callable

import mpmath
import sympy
from sympy import S
from sympy.functions.elementary.miscellaneous import MinMaxBase
from sympy.physics import units as U
from sympy.physics.units import Quantity as SymQuantity
from sympy.physics.units.prefixes import PREFIXES as _SYM_PREFIXES, Prefix

from . import dims as D
from . import units as MU

ONE = D.ONE
PREFIX_BY_NAME = {str(p.name): p for p in _SYM_PREFIXES.values()}
FUNCS = {"exp": sympy.exp, "sin": sympy.sin, "cos": sympy.cos, "log": sympy.log}
# two-argument functions (every argument must be dimensionless, not only the last one)
FUNCS2 = {"atan2": sympy.atan2, "besselj": sympy.besselj}


class Discard(Exception):
    """The case is outside the judged domain (zoo, nan in min/max, ambiguous float cancellation...)."""


class Policy:
    """Oracle = Policy(). The other settings emulate library behaviours for root-cause keys only."""

    def __init__(self, float_zero_wild: bool = True, amnesic: bool = False, first_adopt: bool = False,
        structural_zero_ok: bool = True, numeric_shortcut: bool = False) -> None:
        self.float_zero_wild = float_zero_wild
        self.amnesic = amnesic
        self.first_adopt = first_adopt  # collect_expression: the first quantity/symbolic term fixes the dimension
        self.structural_zero_ok = structural_zero_ok  # False: an unevaluated zero-valued numeric term is not a wildcard
        # True: any sub-expression for which complex() succeeds is a plain dimensionless number and is not inspected
        # (symplyphysics' is_number(); e.g. (q1 + q2)**0 unevaluated, q + oo)
        self.numeric_shortcut = numeric_shortcut


class Val:
    __slots__ = ("v", "dim", "inexact", "fz", "mag", "kind", "node", "direct_wild")

    def __init__(self, v: Any, dim: D.DimVec = ONE, inexact: bool = False, fz: bool = False, mag: Any = None,
        kind: str = "") -> None:
        self.v = v
        self.dim = dim
        self.inexact = inexact
        self.fz = fz  # a zero that is Float-typed on the library side
        self.mag = absf(v) if mag is None else mag
        self.kind = kind  # "num" | "qty" | "sym" | "" : how collect_expression classifies the term (emulation only)
        self.node: Any = None  # the SymPy node this value was computed for (walk only; emulation only)
        self.direct_wild = False  # Mul node with a wildcard number/quantity among its direct arguments (emulation only)


def absf(v: Any) -> Any:
    """|v| as an mpf (rough scale; inf/nan -> 0)."""
    if v in (S.Infinity, S.NegativeInfinity, S.NaN, S.ComplexInfinity):
        return mpmath.mpf(0)
    a = sympy.N(sympy.Abs(v), 20)
    if a in (S.Infinity, S.NaN) or not a.is_number:
        return mpmath.mpf(0)
    try:
        return mpmath.mpf(str(a))
    except (ValueError, TypeError):
        return mpmath.mpf(0)


def is_special(v: Any) -> bool:
    return v in (S.Infinity, S.NegativeInfinity, S.NaN)


def is_zero(v: Any) -> bool:
    if is_special(v):
        return False
    z = v.is_zero
    if z is None:
        a = sympy.N(sympy.Abs(v), 50)
        if a < sympy.Float("1e-45"):
            raise Discard("undecided exact zero")
        return False
    return bool(z)


def dims_close(a: D.DimVec, b: D.DimVec) -> bool:
    for x, y in zip(a, b):
        d = sympy.N(x - y, 30)
        if not d.is_number:
            d = sympy.N(sympy.simplify(x - y), 30)
            if not d.is_number:
                return False
        if abs(d) > 1e-9:
            return False
    return True


def exact_number(e: Any) -> tuple[Any, bool, bool]:
    """(exact value, inexact?, float zero?) of a SymPy numeric atom."""
    if e is S.ComplexInfinity:
        raise Discard("zoo")
    if isinstance(e, sympy.Float):
        if e in (S.Infinity, S.NegativeInfinity, S.NaN):
            return sympy.sympify(e), True, False
        r = sympy.Rational(e)
        return r, True, bool(r == 0)
    return e, False, False


class Sem:
    """Arithmetic core. One instance per evaluation; collects refusals."""

    def __init__(self, policy: Policy | None = None, check_fn_args: bool = True) -> None:
        self.policy = policy or Policy()
        self.check_fn_args = check_fn_args
        self.refusals: list[dict[str, Any]] = []
        self.observed = 0  # leaves whose meaning had to be read from the library object
        self.flags: set[str] = set()

    # -- wildcard ------------------------------------------------------------------------------
    def wild(self, t: Val) -> bool:
        if is_special(t.v):
            return True
        if t.v is S.ComplexInfinity:
            raise Discard("zoo")
        if is_zero(t.v):
            if t.fz and not self.policy.float_zero_wild:
                return False
            return True
        return False

    def refuse(self, kind: str, **info: Any) -> None:
        self.refusals.append({"kind": kind, **info})

    # -- leaves ----------------------------------------------------------------------------------
    def number(self, e: Any) -> Val:
        v, inexact, fz = exact_number(e)
        return Val(v, ONE, inexact, fz, kind="num")

    # -- nodes -----------------------------------------------------------------------------------
    def _unify(self, terms: list[Val], op: str, fold: Callable[[Any, Any], Any]) -> D.DimVec:
        """Dimension of an Add/Min/Max node; records a refusal when non-wildcard terms disagree."""
        nonwild = [t for t in terms if not self.wild(t)]
        dim = nonwild[0].dim if nonwild else ONE
        bad = any(not dims_close(t.dim, dim) for t in nonwild[1:])
        possible = False
        if bad:
            possible = self._amnesia_possible(terms, op, fold)
        elif len(nonwild) < len(terms):
            # order-independent input classes behind two collect_expression behaviours (for exclusion switches)
            views = [(t, *self._lib_view(t)) for t in terms]
            if any(self.wild(t) and not self._lib_view(t, True)[1] for t in terms):
                self.flags.add("zero_term_not_structural")
            nonnum = [(t, w) for t, k, w in views if k != "num"]
            if all(w for _, k, w in views if k == "num") and any(
                    w and any(not dims_close(t.dim, o.dim) for o, _ in nonnum) for t, w in nonnum):
                self.flags.add("first_adopt_possible")
        if self.policy.amnesic or self.policy.first_adopt:
            ebad, edim = (self._emulate_fold(terms, fold) if self.policy.amnesic else self._emulate_first(terms))
            if ebad:
                self.refuse(op + "_dims", amnesia_possible=possible, emulated=True)
            return edim
        if bad:
            self.refuse(op + "_dims", amnesia_possible=possible, n_terms=len(terms),
                n_wild=len(terms) - len(nonwild))
        return dim

    def _amnesia_possible(self, terms: list[Val], op: str, fold: Callable[[Any, Any], Any]) -> bool:
        """Order-independent: could SOME order of a running fold pass through a wildcard partial result?"""
        if any(self.wild(t) for t in terms):
            return True
        if op != "add":
            return False
        n = len(terms)
        if n > 8:
            return True
        for r in range(2, n + 1):
            for sub in itertools.combinations(terms, r):
                s = sum((t.v for t in sub), S.Zero)
                if is_special(s) or is_zero(s):
                    return True
        return False

    def _emulate_fold(self, terms: list[Val], fold: Callable[[Any, Any], Any]) -> tuple[bool, D.DimVec]:
        """Library-like running fold in the given order (collect_quantity._collect_add/_collect_min_max)."""
        run = Val(terms[0].v, terms[0].dim, terms[0].inexact, terms[0].fz)
        dim = terms[0].dim
        for t in terms[1:]:
            tdim = t.dim
            if self.wild(run):
                dim = tdim
            elif self.wild(t):
                tdim = dim
            if not dims_close(dim, tdim):
                return True, dim
            nv = fold(run.v, t.v)
            # Add/Mul of numbers collapse a Float zero to an exact zero; Min/Max keep the selected object
            fz = bool(is_zero(nv)) and fold is not _fold_add and (run.fz or t.fz)
            run = Val(nv, dim, run.inexact or t.inexact, fz)
        return False, dim

    def _lib_view(self, t: Val, structural: bool | None = None) -> tuple[str, bool]:
        """How collect_expression's split sees a term: (nums|qtys|syms, recognised as wildcard?).
        structural=True emulates is_any_dimension() being a structural membership test: an unevaluated numeric
        expression of value 0, or a compound symbolic term whose value is 0 because of something deeper than a
        direct zero factor, is not recognised."""
        if structural is None:
            structural = not self.policy.structural_zero_ok
        w = self.wild(t)
        if t.kind == "qty":
            return "qty", w
        node = t.node
        compound = node is not None and not node.is_Atom
        if t.kind == "num" or (compound and w and _plain_number(node)):
            return "num", (w and not (structural and compound))
        if w and structural and compound:
            return "sym", bool(t.direct_wild)
        return "sym", w

    def _emulate_first(self, terms: list[Val]) -> tuple[bool, D.DimVec]:
        """collect_expression._collect_unique_dimension: nums, then quantities, then symbolic terms."""
        views = [(t, *self._lib_view(t)) for t in terms]
        nums = [(t, w) for t, k, w in views if k == "num"]
        rest = [(t, w) for t, k, w in views if k == "qty"] + [(t, w) for t, k, w in views if k == "sym"]
        dim = None
        if not all(w for _, w in nums):
            dim = ONE
        for t, w in rest:
            if dim is None:
                dim = t.dim
                continue
            if w:
                continue
            if not dims_close(dim, t.dim):
                return True, dim
        return False, (dim if dim is not None else ONE)

    def add(self, terms: list[Val]) -> Val:
        dim = self._unify(terms, "add", _fold_add)
        v = S.Zero
        for t in terms:
            v = v + t.v
        inexact = any(t.inexact for t in terms)
        if inexact and not is_special(v):
            # the library adds Floats; an exact cancellation that Floats do not reproduce (or the reverse) is
            # not judged
            try:
                fs = 0.0
                for t in terms:
                    fs += float(t.v) if not is_special(t.v) else 0.0
                if not any(is_special(t.v) for t in terms) and (fs == 0.0) != is_zero(v):
                    raise Discard("ambiguous float cancellation")
            except (TypeError, OverflowError):
                pass
        mag = mpmath.fsum(t.mag for t in terms)
        return Val(v, dim, inexact, False, mag)

    def mul(self, factors: list[Val]) -> Val:
        v = S.One
        dim = ONE
        mag = mpmath.mpf(1)
        for t in factors:
            v = v * t.v
            dim = dim * t.dim
            mag = mag * t.mag
        if v is S.ComplexInfinity:
            raise Discard("zoo")
        return Val(v, dim, any(t.inexact for t in factors), False, mag)

    def pow(self, b: Val, e: Val) -> Val:
        ewild = self.wild(e)
        if not ewild and not e.dim.is_dimensionless and not dims_close(e.dim, ONE):
            self.refuse("exp_dim")
        ev = e.v
        if ev.is_real is False or is_special(ev):
            raise Discard("non-real or infinite exponent")
        if is_special(b.v) or is_zero(b.v):
            if is_zero(ev):
                return Val(S.One, ONE, False, False, mpmath.mpf(1))
            v = b.v**ev
            if v is S.ComplexInfinity or not (is_special(v) or is_zero(v)):
                raise Discard("zoo / power of a wildcard base")
            return Val(v, ONE, b.inexact or e.inexact, b.fz and is_zero(v), mpmath.mpf(0))
        v = b.v**ev
        if v is S.ComplexInfinity:
            raise Discard("zoo")
        dim = b.dim**ev
        av = absf(v)
        ab = absf(b.v)
        try:
            amp = (b.mag / ab)**abs(mpmath.mpf(str(sympy.N(ev, 15)))) if ab > 0 else mpmath.mpf(1)
        except (ValueError, TypeError, ZeroDivisionError):
            amp = mpmath.mpf(1)
        return Val(v, dim, b.inexact or e.inexact, False, av * max(amp, 1) * (1 + e.mag))

    def abs(self, x: Val) -> Val:
        if is_special(x.v):
            v = S.NaN if x.v is S.NaN else S.Infinity
        else:
            v = sympy.Abs(x.v)
        return Val(v, x.dim, x.inexact, False, x.mag)

    def minmax(self, terms: list[Val], which: str) -> Val:
        fold = _fold_min if which == "min" else _fold_max
        for t in terms:
            if t.v is S.NaN:
                raise Discard("nan under min/max")
            if not is_special(t.v) and t.v.is_real is not True:
                raise Discard("non-real under min/max")
        dim = self._unify(terms, which, fold)
        best = terms[0]
        for t in terms[1:]:
            if fold(best.v, t.v) is not best.v:
                best = t
        # the dimension of the node is the common dimension, the value the selected term
        return Val(best.v, dim, any(t.inexact for t in terms), best.fz, max(t.mag for t in terms))

    def fn(self, name: str, args: list[Val]) -> Val:
        if self.check_fn_args:
            for a in args:
                if not self.wild(a) and not dims_close(a.dim, ONE):
                    self.refuse("fn_arg_dim")
        if any(is_special(a.v) for a in args):
            raise Discard("function of an infinite/NaN argument")
        x = args[0]
        if name in FUNCS2:
            if len(args) != 2:
                raise Discard("two-argument function with another arity")
            v = FUNCS2[name](args[0].v, args[1].v)
            if v is S.ComplexInfinity or v is S.NaN or v.has(sympy.AccumBounds):
                raise Discard("function value undefined")
            return Val(v, ONE, args[0].inexact or args[1].inexact, False, 1 + args[0].mag + args[1].mag)
        v = FUNCS[name](x.v)
        if v is S.ComplexInfinity or v is S.NaN or v.has(sympy.AccumBounds):
            raise Discard("function value undefined")
        av = absf(v)
        if name == "exp":
            mag = av * (1 + x.mag)
        elif name == "log":
            ax = absf(x.v)
            mag = av + (x.mag / ax if ax > 0 else 0)
        else:
            mag = 1 + x.mag
        return Val(v, ONE, x.inexact, False, mag)


def _fold_add(a: Any, b: Any) -> Any:
    return a + b


def _num_lt(a: Any, b: Any) -> bool:
    if a == b:
        return False
    if a is S.NegativeInfinity or b is S.Infinity:
        return True
    if a is S.Infinity or b is S.NegativeInfinity:
        return False
    d = sympy.N(a - b, 50)
    return bool(d < 0)


def _fold_min(a: Any, b: Any) -> Any:
    return b if _num_lt(b, a) else a


def _fold_max(a: Any, b: Any) -> Any:
    return b if _num_lt(a, b) else a


# ------------------------------------------------------------------------------------------------
# JSON helpers


def rat(s: str) -> Any:
    return sympy.Rational(s)


def dim_of(j: list[str]) -> D.DimVec:
    return D.from_json(j)


WILD_VALUES: dict[str, Any] = {"z": S.Zero, "zf": 0.0, "inf": S.Infinity, "ninf": S.NegativeInfinity, "nan": S.NaN}


def wild_val(kind: str, dim: D.DimVec = ONE) -> Val:
    if kind == "z":
        return Val(S.Zero, dim)
    if kind == "zf":
        return Val(S.Zero, dim, True, True)
    return Val(WILD_VALUES[kind], dim)


LEAF_OPS = ("n", "f", "c", "u", "p", "sp", "q", "qs", "w", "nw", "S", "X", "F", "D", "sym")


def leaf_number_val(sem: Sem, t: list[Any]) -> Val:
    op = t[0]
    if op == "n":
        return Val(rat(t[1]), ONE, kind="num")
    if op == "f":
        r = sympy.Rational(float(t[1]))
        return Val(r, ONE, True, bool(r == 0), kind="num")
    if op == "c":
        return Val(rat(t[1]) + rat(t[2]) * S.ImaginaryUnit, ONE, kind="num")
    if op == "sp":
        k = MU.PREFIXES[t[1]]
        if k >= 0:
            return Val(sympy.Integer(10)**k, ONE, kind="num")
        return Val(sympy.Rational(10.0**k), ONE, True, kind="num")  # symplyphysics.prefixes.* are Python floats below 1
    if op == "nw":
        w = wild_val(t[1])
        w.kind = "num"
        return w
    raise ValueError(op)


def unit_val(name: str) -> Val:
    f, dv, ex = MU.TABLE[name]
    return Val(sympy.sympify(f), dv, not ex, kind="qty")


def jeval(t: list[Any], sem: Sem, env: dict[str, Any] | None = None) -> Val:
    """Intended value/dimension of a JSON tree. `env` supplies symbol/function meanings for C06:
    {"S": [Val...], "X": [Val...], "F": callable(j, args, argvals)->Val, "D": callable(...)->Val}."""
    op = t[0]
    if op in ("n", "f", "c", "sp", "nw"):
        return leaf_number_val(sem, t)
    if op == "u":
        return unit_val(t[1])
    if op == "p":
        return Val(MU.prefix_factor(t[1]), ONE, kind="sym")
    if op == "q":
        m = jeval(t[1], sem, env)
        u = unit_val(t[2])
        r = sem.mul([m, u])
        r.kind = "qty"
        return r
    if op == "qs":
        m = jeval(t[1], sem, env)
        return Val(m.v, dim_of(t[2]), m.inexact, m.fz, kind="qty")
    if op == "w":
        w = wild_val(t[1], dim_of(t[2]))
        w.kind = "qty"
        return w
    if op == "Q":
        r = jeval(t[1], sem, env)
        return Val(r.v, r.dim, r.inexact, r.fz, r.mag, kind="qty")
    if op == "add":
        return sem.add([jeval(x, sem, env) for x in t[1:]])
    if op == "mul":
        return sem.mul([jeval(x, sem, env) for x in t[1:]])
    if op == "pow":
        return sem.pow(jeval(t[1], sem, env), jeval(t[2], sem, env))
    if op == "abs":
        return sem.abs(jeval(t[1], sem, env))
    if op in ("min", "max"):
        return sem.minmax([jeval(x, sem, env) for x in t[1:]], op)
    if op == "fn":
        return sem.fn(t[1], [jeval(x, sem, env) for x in t[2:]])
    if op == "sym":
        sem.refuse("symbol")
        return Val(S.One, ONE)
    if op == "deriv":
        jeval(t[1], sem, env)
        sem.refuse("derivative")
        return Val(S.One, ONE)
    if env is not None:
        if op == "S":
            return env["S"][t[1]]
        if op == "X":
            return env["X"][t[1]]
        if op == "F":
            return env["F"](t[1], [jeval(a, sem, env) for a in t[2]])
        if op == "D":
            return env["D"](t[1])
    raise ValueError(f"unknown op {op}")


def tree_ops(t: Any, out: list[str]) -> list[str]:
    if isinstance(t, list) and t and isinstance(t[0], str):
        out.append(t[0])
        for x in t[1:]:
            if isinstance(x, list):
                if x and isinstance(x[0], list):  # list of trees (function args)
                    for y in x:
                        tree_ops(y, out)
                else:
                    tree_ops(x, out)
    return out


def tree_depth(t: Any) -> int:
    if not isinstance(t, list) or not t or not isinstance(t[0], str):
        return 0
    if t[0] in ("q", "qs"):
        return 0
    if t[0] in LEAF_OPS:
        return 0
    kids = [x for x in t[1:] if isinstance(x, list)]
    return 1 + max([tree_depth(k) for k in kids] or [0])


def leaf_dims(t: Any, out: set[tuple[str, ...]]) -> set[tuple[str, ...]]:
    """Distinct non-trivial dimension vectors among the leaves of a JSON tree (C05 rule)."""
    if not isinstance(t, list) or not t or not isinstance(t[0], str):
        return out
    op = t[0]
    if op in ("u",):
        dv = MU.dim(t[1])
        if not dv.is_dimensionless:
            out.add(tuple(dv.to_json()))
    elif op == "q":
        dv = MU.dim(t[2])
        if not dv.is_dimensionless:
            out.add(tuple(dv.to_json()))
    elif op in ("qs", "w"):
        dv = dim_of(t[2])
        if not dv.is_dimensionless:
            out.add(tuple(dv.to_json()))
    else:
        for x in t[1:]:
            if isinstance(x, list):
                leaf_dims(x, out)
    return out


# ------------------------------------------------------------------------------------------------
# building library objects from JSON


class StopCase(Exception):
    """Raised by the inner-quantity callback when the case ends at a nested construction."""


def pad_counter(base: str = "QTY", room: int = 400) -> None:
    """SymPy orders Add arguments by the generated names (string order): make sure the ids handed out during
    one case all have the same number of digits, so that creation order == canonical order in every process."""
    from symplyphysics.core.symbols import id_generator
    cur = id_generator._ids.get(base, 0)  # pylint: disable=protected-access
    nxt = 10**len(str(cur + 1))
    if cur + 1 + room >= nxt:
        id_generator._ids[base] = nxt  # pylint: disable=protected-access


class Builder:
    """Builds the library expression of a JSON tree. ev=0: every node evaluate=False (structure exactly as
    written); ev=1: Python operators / auto-evaluating constructors (what ordinary callers write)."""

    def __init__(self, ev: int, on_inner: Callable[[Any, list[Any]], Any] | None = None) -> None:
        self.ev = ev
        self.leaves: dict[int, Val] = {}
        self.keep: list[Any] = []
        self.on_inner = on_inner
        self.sem = Sem()  # intended values of leaves (refusals impossible in leaves)
        self.env: dict[str, Any] | None = None
        self.lib_env: dict[str, Any] = {}
        self.free_symbol = sympy.Symbol("free_x")
        self.atoms: Any = None  # C06: resolver of symbols / applied functions for walk()

    def register(self, obj: Any, val: Val) -> Any:
        self.keep.append(obj)
        self.leaves[id(obj)] = val
        return obj

    def number(self, t: list[Any]) -> Any:
        op = t[0]
        if op == "n":
            return rat(t[1])
        if op == "f":
            return float(t[1]) if self.ev else sympy.Float(float(t[1]))
        if op == "c":
            return rat(t[1]) + rat(t[2]) * S.ImaginaryUnit
        if op == "sp":
            from symplyphysics import prefixes
            return getattr(prefixes, t[1])
        if op == "nw":
            v = WILD_VALUES[t[1]]
            return sympy.Float(0.0) if t[1] == "zf" else v
        raise ValueError(op)

    def build(self, t: list[Any]) -> Any:
        # pylint: disable=too-many-return-statements,too-many-branches
        from symplyphysics import Quantity
        op = t[0]
        ev = bool(self.ev)
        if op in ("n", "f", "c", "sp", "nw"):
            return self.number(t)
        if op == "u":
            return MU.lib_unit(t[1])
        if op == "p":
            return PREFIX_BY_NAME[t[1]]
        if op == "q":
            q = Quantity(self.number(t[1]) * MU.lib_unit(t[2]))
            return self.register(q, jeval(t, self.sem))
        if op == "qs":
            q = Quantity(self.number(t[1]) * dim_of(t[2]).si_unit())
            return self.register(q, jeval(t, self.sem))
        if op == "w":
            val = WILD_VALUES[t[1]]
            dv = dim_of(t[2])
            q = Quantity(val, dimension=dv.to_lib()) if not dv.is_dimensionless else Quantity(val)
            return self.register(q, jeval(t, self.sem))
        if op == "Q":
            inner = self.build(t[1])
            if self.on_inner is None:
                q = Quantity(inner)
                return self.register(q, jeval(t, Sem(), self.env))
            return self.on_inner(inner, t)
        if op == "sym":
            return self.free_symbol
        if op == "deriv":
            inner = self.build(t[1])
            dq = self.register(Quantity(2 * U.second), Val(sympy.Integer(2), MU.T, kind="qty"))
            return sympy.Derivative(inner * dq**2, dq)
        if op in ("S", "X", "F", "D"):
            return self.lib_env[op](t)
        kids = [self.build(x) for x in t[2:]] if op == "fn" else [self.build(x) for x in t[1:]]
        if op == "add":
            if ev:
                r = kids[0]
                for k in kids[1:]:
                    r = r + k
                return r
            return sympy.Add(*kids, evaluate=False)
        if op == "mul":
            if ev:
                r = kids[0]
                for k in kids[1:]:
                    r = r * k
                return r
            return sympy.Mul(*kids, evaluate=False)
        if op == "pow":
            if ev:
                return sympy.sympify(kids[0])**kids[1]
            return sympy.Pow(kids[0], kids[1], evaluate=False)
        if op == "abs":
            r = sympy.Abs(kids[0]) if ev else sympy.Abs(kids[0], evaluate=False)
            if ev and isinstance(r, SymQuantity) and id(r) not in self.leaves:
                # Quantity._eval_Abs made a new object: give it the model meaning of what was built below it
                try:
                    sem = Sem()
                    val = sem.abs(walk(kids[0], sem, self.leaves, self.atoms))
                    if not sem.refusals and not sem.observed:
                        val.kind = "qty"
                        self.register(r, val)
                except Discard:
                    pass
            return r
        if op in ("min", "max"):
            cls = sympy.Min if op == "min" else sympy.Max
            try:
                return cls(*kids) if ev else cls(*kids, evaluate=False)
            except ValueError as exc:  # SymPy itself refuses Min/Max of NaN
                raise Discard("nan under min/max") from exc
        if op == "fn":
            f = FUNCS[t[1]] if t[1] in FUNCS else FUNCS2[t[1]]
            return f(*kids) if ev else f(*kids, evaluate=False)
        raise ValueError(f"unknown op {op}")


# ------------------------------------------------------------------------------------------------
# walking the SymPy expression the library really receives


def walk(e: Any, sem: Sem, leaves: dict[int, Val], atoms: Callable[[Any, Sem], Val | None] | None = None) -> Val:
    """Model value/dimension of a SymPy expression. `atoms` resolves C06 leaves (symbols, applied functions,
    derivatives, indexed elements); without it such nodes are C05 refusals."""
    # pylint: disable=too-many-return-statements,too-many-branches
    e = sympy.sympify(e)
    v = leaves.get(id(e))
    if v is not None:
        return v
    if isinstance(e, SymQuantity):
        name = str(e.name)
        if name in MU.TABLE and MU.lib_unit(name) is e:
            return unit_val(name)
        # a quantity object created by SymPy/symplyphysics during canonicalisation (e.g. Abs of a product):
        # its meaning can only be read from the object
        sem.observed += 1
        dv = D.from_lib(e.dimension)
        sv = walk(sympy.sympify(e.scale_factor), sem, {}, None)
        return Val(sv.v / sympy.Integer(1000)**dv[1], dv, sv.inexact, sv.fz, kind="qty")
    if isinstance(e, Prefix):
        return Val(MU.prefix_factor(str(e.name)), ONE, kind="sym")  # not a number for symplyphysics' is_number()
    if atoms is not None:
        r = atoms(e, sem)
        if r is not None:
            return r
    if e.is_Atom:
        if e.is_number or e in (S.Infinity, S.NegativeInfinity, S.NaN, S.ComplexInfinity):
            r = sem.number(e)
            r.node = e
            return r
        sem.refuse("symbol")
        return Val(S.One, ONE)
    if sem.policy.numeric_shortcut and (e.atoms(SymQuantity) or e.free_symbols) and _plain_number(e):
        c = complex(e)
        if c != c:
            v = S.NaN
        elif c.real in (float("inf"), float("-inf")):
            v = S.Infinity if c.real > 0 else S.NegativeInfinity
        else:
            v = sympy.nsimplify(c.real, rational=True) if c.imag == 0 else sympy.sympify(c)
        r = Val(v, ONE, True, False, kind="num")
        r.node = e
        return r
    r = _walk_node(e, sem, leaves, atoms)
    if r is not None:
        r.node = e
        if e.is_number:
            r.kind = "num"
        return r
    if isinstance(e, sympy.Derivative):
        sem.refuse("derivative")
        return Val(S.One, ONE)
    raise Discard(f"node type outside the modelled set: {type(e).__name__}")


def _plain_number(e: Any) -> bool:
    """What symplyphysics' is_number() says (emulation of the nums/qtys/syms split only)."""
    try:
        complex(e)
    except (TypeError, ValueError):
        return False
    return True


def _walk_node(e: Any, sem: Sem, leaves: dict[int, Val], atoms: Any) -> Val | None:
    if isinstance(e, sympy.Add):
        return sem.add([walk(a, sem, leaves, atoms) for a in e.args])
    if isinstance(e, sympy.Mul):
        vals = [walk(a, sem, leaves, atoms) for a in e.args]
        r = sem.mul(vals)
        r.direct_wild = any(sem.wild(v) and (v.kind == "qty" or (v.kind == "num" and v.node is not None and v.node.is_Atom))
            for v in vals)
        return r
    if isinstance(e, sympy.Pow):
        return sem.pow(walk(e.base, sem, leaves, atoms), walk(e.exp, sem, leaves, atoms))
    if isinstance(e, sympy.Abs):
        return sem.abs(walk(e.args[0], sem, leaves, atoms))
    if isinstance(e, MinMaxBase):
        return sem.minmax([walk(a, sem, leaves, atoms) for a in e.args], "min" if isinstance(e, sympy.Min) else "max")
    for name, f in list(FUNCS.items()) + list(FUNCS2.items()):
        if isinstance(e, f):
            return sem.fn(name, [walk(a, sem, leaves, atoms) for a in e.args])
    return None


# ------------------------------------------------------------------------------------------------
# comparing a library number with a model value


def value_close(lib: Any, model: Val) -> tuple[bool | None, str]:
    """(ok?, detail). None == ill-conditioned / not judged."""
    lib = sympy.sympify(lib)
    mv = model.v
    if is_special(mv):
        if mv is S.NaN:
            return (lib is S.NaN or (isinstance(lib, sympy.Float) and lib == S.NaN)), f"lib={lib} model=nan"
        return bool(lib == mv), f"lib={lib} model={mv}"
    if lib in (S.Infinity, S.NegativeInfinity, S.NaN, S.ComplexInfinity):
        return False, f"lib={lib} model={sympy.N(mv, 20)}"
    inexact = model.inexact or bool(lib.atoms(sympy.Float))
    diff = sympy.N(sympy.Abs(lib - mv), 60) if not inexact else sympy.N(sympy.Abs(sympy.N(lib, 30) - mv), 30)
    if not diff.is_number or diff is S.NaN:
        return None, f"difference not numeric: {diff}"
    scale = max(model.mag, absf(mv))
    try:
        d = mpmath.mpf(str(diff))
    except (ValueError, TypeError):
        # |lib - model| did not come out as a real number (a complex residue of a power of a negative float): not judged
        return None, f"difference not a real number: {diff}"
    if inexact:
        av = absf(mv)
        if scale > 0 and av < scale * mpmath.mpf("1e-6") and d > 0:
            return None, "ill-conditioned float cancellation"
        tol = mpmath.mpf("1e-11") * scale
    else:
        tol = mpmath.mpf("1e-40") * scale
    return bool(d <= tol), f"lib={sympy.N(lib, 20)} model={sympy.N(mv, 20)} |diff|={sympy.N(diff, 5)} tol={mpmath.nstr(tol, 5)}"


def has_numberlike_subexpression(e: Any) -> bool:
    """Input class behind `numeric_shortcut`: a compound sub-expression that contains a quantity or a symbol and
    for which complex() nevertheless succeeds."""
    for node in sympy.preorder_traversal(sympy.sympify(e)):
        if not node.is_Atom and not isinstance(node, (SymQuantity, Prefix)) and (node.atoms(SymQuantity) or node.free_symbols) \
                and _plain_number(node):
            return True
    return False
