"""M-r3: component semantics of coordinate-free vector algebra, written without the library.

Two evaluators:
 * eval_desc(desc, env): value of a *description* tree (plain JSON) - the reference model.  Scalars are
   Dual numbers (value, d/dt) so the same code yields the derivative of the tree by forward-mode
   differentiation; vectors are 3-tuples of Dual.
 * eval_lib(expr, env): value of a library/SymPy expression made of Add/Mul/Pow/Abs/numbers, scalar
   symbols, VectorSymbol, VectorDot/Cross/MixedProduct/Norm, applied (vector) functions of the
   parameter and (Vector)Derivative of those.  Plain mpf arithmetic.
All arithmetic is mpmath at 60 digits on rational inputs, so cancellations are visible exactly.
"""
from __future__ import annotations

from fractions import Fraction
from typing import Any

import mpmath

MP = mpmath.mp.clone()
MP.dps = 60
mpf = MP.mpf


def frac(text: str | int | Fraction) -> Any:
    f = Fraction(text)
    return mpf(f.numerator) / mpf(f.denominator)


STRICT_KINK = False  # set by a check while it compares derivatives


class Dual:
    __slots__ = ("v", "d")

    def __init__(self, v: Any, d: Any = 0) -> None:
        self.v = mpf(v)
        self.d = mpf(d)

    def __add__(self, o: "Dual") -> "Dual":
        return Dual(self.v + o.v, self.d + o.d)

    def __sub__(self, o: "Dual") -> "Dual":
        return Dual(self.v - o.v, self.d - o.d)

    def __neg__(self) -> "Dual":
        return Dual(-self.v, -self.d)

    def __mul__(self, o: "Dual") -> "Dual":
        return Dual(self.v * o.v, self.d * o.v + self.v * o.d)

    def __truediv__(self, o: "Dual") -> "Dual":
        return Dual(self.v / o.v, (self.d * o.v - self.v * o.d) / (o.v * o.v))

    def sqrt(self) -> "Dual":
        r = MP.sqrt(self.v)
        if r == 0 and STRICT_KINK:
            # sqrt at 0 (the norm of the zero vector) is not differentiable: no derivative to compare with
            raise ZeroDivisionError("derivative of a square root at zero")
        return Dual(r, self.d / (2 * r) if r != 0 else mpf(0))

    def abs(self) -> "Dual":
        if self.v >= 0:
            return Dual(self.v, self.d)
        return Dual(-self.v, -self.d)


ZERO = Dual(0)
Vec = tuple  # 3-tuple of Dual


def v_add(a: Vec, b: Vec) -> Vec:
    return (a[0] + b[0], a[1] + b[1], a[2] + b[2])


def v_scale(k: Dual, a: Vec) -> Vec:
    return (k * a[0], k * a[1], k * a[2])


def v_dot(a: Vec, b: Vec) -> Dual:
    return a[0] * b[0] + a[1] * b[1] + a[2] * b[2]


def v_cross(a: Vec, b: Vec) -> Vec:
    return (a[1] * b[2] - a[2] * b[1], a[2] * b[0] - a[0] * b[2], a[0] * b[1] - a[1] * b[0])


def eval_desc(d: Any, env: dict[str, Any]) -> Any:
    """env: {"V": [vec...], "S": [dual...]}. Returns Dual (scalar nodes) or 3-tuple of Dual."""
    op = d[0]
    if op == "V":
        return env["V"][d[1]]
    if op == "S":
        return env["S"][d[1]]
    if op == "num":
        return Dual(frac(d[1]))
    if op == "zero":
        return (ZERO, ZERO, ZERO)
    if op == "add":
        return v_add(eval_desc(d[1], env), eval_desc(d[2], env))
    if op == "neg":
        return v_scale(Dual(-1), eval_desc(d[1], env))
    if op == "scale":
        return v_scale(eval_desc(d[1], env), eval_desc(d[2], env))
    if op == "cross":
        return v_cross(eval_desc(d[1], env), eval_desc(d[2], env))
    if op == "dot":
        return v_dot(eval_desc(d[1], env), eval_desc(d[2], env))
    if op == "mixed":
        return v_dot(eval_desc(d[1], env), v_cross(eval_desc(d[2], env), eval_desc(d[3], env)))
    if op == "norm":
        a = eval_desc(d[1], env)
        return v_dot(a, a).sqrt()
    if op == "mul":
        return eval_desc(d[1], env) * eval_desc(d[2], env)
    if op == "addS":
        return eval_desc(d[1], env) + eval_desc(d[2], env)
    if op == "negS":
        return -eval_desc(d[1], env)
    if op == "pow2":
        a = eval_desc(d[1], env)
        return a * a
    raise ValueError(f"unknown description node {op}")


def is_vector_desc(d: Any) -> bool:
    return d[0] in ("V", "zero", "add", "neg", "scale", "cross")


class Uninterpretable(Exception):
    """The library returned a node the interpreter has no semantics for (harness limit, not a verdict)."""


def eval_lib(e: Any, env: dict[Any, Any]) -> Any:
    """Interpret a SymPy/library expression. env maps atoms (symbols, applied functions, derivative
    nodes) to mpf or 3-tuples of mpf. Returns mpf/mpc or a 3-tuple."""
    # pylint: disable=too-many-return-statements,too-many-branches
    import sympy
    from symplyphysics.core.experimental.vectors import (VectorCross, VectorDot, VectorMixedProduct,
        VectorNorm)

    if e in env:
        return env[e]
    if isinstance(e, (int, Fraction)):
        return frac(e)
    if e.is_Number:
        if e.is_Rational:
            return mpf(int(e.p)) / mpf(int(e.q))
        return mpf(str(sympy.N(e, 60)))
    if isinstance(e, sympy.NumberSymbol):
        return mpf(str(sympy.N(e, 60)))
    if isinstance(e, sympy.Add):
        vals = [eval_lib(a, env) for a in e.args]
        vecs = [v for v in vals if isinstance(v, tuple)]
        if vecs:
            for v in vals:
                if not isinstance(v, tuple) and v != 0:
                    raise Uninterpretable(f"sum of vector and non-zero scalar: {e}")
            out = (mpf(0), mpf(0), mpf(0))
            for v in vecs:
                out = (out[0] + v[0], out[1] + v[1], out[2] + v[2])
            return out
        return MP.fsum(vals)
    if isinstance(e, sympy.Mul):
        k: Any = mpf(1)
        vec = None
        for a in e.args:
            v = eval_lib(a, env)
            if isinstance(v, tuple):
                if vec is not None:
                    raise Uninterpretable(f"product of two vectors: {e}")
                vec = v
            else:
                k = k * v
        if vec is not None:
            return (k * vec[0], k * vec[1], k * vec[2])
        return k
    if isinstance(e, sympy.Pow):
        b = eval_lib(e.base, env)
        x = eval_lib(e.exp, env)
        if isinstance(b, tuple) or isinstance(x, tuple):
            raise Uninterpretable(f"power with vector operand: {e}")
        if b == 0 and x < 0:
            raise ZeroDivisionError(str(e))
        return MP.power(b, x)
    if isinstance(e, sympy.Abs):
        return abs(eval_lib(e.args[0], env))
    if isinstance(e, VectorDot):
        a, b = (eval_lib(x, env) for x in e.args)
        a, b = _as_vec(a), _as_vec(b)
        return a[0] * b[0] + a[1] * b[1] + a[2] * b[2]
    if isinstance(e, VectorCross):
        a, b = (_as_vec(eval_lib(x, env)) for x in e.args)
        return (a[1] * b[2] - a[2] * b[1], a[2] * b[0] - a[0] * b[2], a[0] * b[1] - a[1] * b[0])
    if isinstance(e, VectorMixedProduct):
        a, b, c = (_as_vec(eval_lib(x, env)) for x in e.args)
        cr = (b[1] * c[2] - b[2] * c[1], b[2] * c[0] - b[0] * c[2], b[0] * c[1] - b[1] * c[0])
        return a[0] * cr[0] + a[1] * cr[1] + a[2] * cr[2]
    if isinstance(e, VectorNorm):
        a = _as_vec(eval_lib(e.args[0], env))
        return MP.sqrt(a[0] * a[0] + a[1] * a[1] + a[2] * a[2])
    raise Uninterpretable(f"{type(e).__name__}: {e}")


def _as_vec(v: Any) -> Any:
    if isinstance(v, tuple):
        return v
    if v == 0:
        return (mpf(0), mpf(0), mpf(0))
    raise Uninterpretable("scalar where a vector is required")


def close(a: Any, b: Any, tol: float = 1e-40) -> bool:
    """Equality of two interpreted values (scalars or vectors), relative to the magnitudes."""
    if isinstance(a, tuple) or isinstance(b, tuple):
        a, b = _as_vec(a), _as_vec(b)
        scale = 1 + sum(abs(x) for x in a) + sum(abs(x) for x in b)
        return all(abs(x - y) <= tol * scale for x, y in zip(a, b))
    return bool(abs(a - b) <= tol * (1 + abs(a) + abs(b)))


def plain(v: Any) -> Any:
    """Dual/tuple-of-Dual -> mpf/tuple-of-mpf (value part)."""
    if isinstance(v, tuple):
        return tuple(x.v for x in v)
    return v.v


def deriv(v: Any) -> Any:
    if isinstance(v, tuple):
        return tuple(x.d for x in v)
    return v.d


def show(v: Any) -> Any:
    if isinstance(v, tuple):
        return [MP.nstr(x, 12) for x in v]
    return MP.nstr(v, 12)
