"""M-units: hand-typed unit table (SI brochure values) with exact SI factors and M-dim vectors.

`factor` is the number of coherent SI units (kg-based!) in one unit; SymPy itself stores mass in
grams (kilogram.scale_factor == 1000) - `sympy_scale(factor, dim)` converts.
`selfcheck()` compares the table with SymPy's own unit definitions (not symplyphysics code) and
raises on disagreement, so a surprise in SymPy is a harness error and never a verdict.
"""
from __future__ import annotations

from typing import Any

import sympy
from sympy import Rational as R
from sympy.physics import units as U

from .dims import DimVec, make

L, M, T, I, K, N, J = (make(**{n: 1}) for n in ("length", "mass", "time", "current", "temperature",
    "amount_of_substance", "luminous_intensity"))
ONE = DimVec()
FORCE = M * L / T**2
ENERGY = FORCE * L
POWER = ENERGY / T
PRESSURE = FORCE / L**2
CHARGE = I * T
VOLTAGE = POWER / I
RESIST = VOLTAGE / I

# name -> (factor in coherent SI units, dimension vector, exact?)
TABLE: dict[str, tuple[Any, DimVec, bool]] = {
    "meter": (R(1), L, True),
    "kilometer": (R(1000), L, True),
    "centimeter": (R(1, 100), L, True),
    "millimeter": (R(1, 1000), L, True),
    "micrometer": (R(1, 10**6), L, True),
    "nanometer": (R(1, 10**9), L, True),
    "angstrom": (R(1, 10**10), L, True),
    "kilogram": (R(1), M, True),
    "gram": (R(1, 1000), M, True),
    "milligram": (R(1, 10**6), M, True),
    "tonne": (R(1000), M, True),
    "second": (R(1), T, True),
    "millisecond": (R(1, 1000), T, True),
    "microsecond": (R(1, 10**6), T, True),
    "minute": (R(60), T, True),
    "hour": (R(3600), T, True),
    "day": (R(86400), T, True),
    "year": (R("31556925.216"), T, False),  # SymPy's `year` is the tropical year (365.24219 d), a Float
    "ampere": (R(1), I, True),
    "kelvin": (R(1), K, True),
    "mole": (R(1), N, True),
    "candela": (R(1), J, True),
    "hertz": (R(1), ONE / T, True),
    "becquerel": (R(1), ONE / T, True),
    "newton": (R(1), FORCE, True),
    "joule": (R(1), ENERGY, True),
    "watt": (R(1), POWER, True),
    "pascal": (R(1), PRESSURE, True),
    "bar": (R(10**5), PRESSURE, True),
    "atmosphere": (R(101325), PRESSURE, True),
    "coulomb": (R(1), CHARGE, True),
    "volt": (R(1), VOLTAGE, True),
    "ohm": (R(1), RESIST, True),
    "siemens": (R(1), ONE / RESIST, True),
    "farad": (R(1), CHARGE / VOLTAGE, True),
    "henry": (R(1), VOLTAGE * T / I, True),
    "tesla": (R(1), VOLTAGE * T / L**2, True),
    "weber": (R(1), VOLTAGE * T, True),
    "liter": (R(1, 1000), L**3, True),
    "electronvolt": (R("1.602176634e-19"), ENERGY, False),  # exact by definition; SymPy stores a Float
    "radian": (R(1), ONE, True),
    "degree": (sympy.pi / 180, ONE, True),
    "percent": (R(1, 100), ONE, True),
    "permille": (R(1, 1000), ONE, True),
    "lux": (R(1), J / L**2, True),
    "katal": (R(1), N / T, True),
    "gray": (R(1), L**2 / T**2, True),
    "dioptre": (R(1), ONE / L, True),
}

PREFIXES: dict[str, Any] = {
    "yotta": 24, "zetta": 21, "exa": 18, "peta": 15, "tera": 12, "giga": 9, "mega": 6, "kilo": 3, "hecto": 2,
    "deca": 1, "deci": -1, "centi": -2, "milli": -3, "micro": -6, "nano": -9, "pico": -12, "femto": -15,
    "atto": -18, "zepto": -21, "yocto": -24,
}


def lib_unit(name: str) -> Any:
    return getattr(U, name)


def factor(name: str) -> Any:
    return TABLE[name][0]


def dim(name: str) -> DimVec:
    return TABLE[name][1]


def exact(name: str) -> bool:
    return TABLE[name][2]


def names_of_dim(d: DimVec) -> list[str]:
    return [n for n, (_, dv, _) in TABLE.items() if dv.same(d)]


def sympy_scale(si_value: Any, d: DimVec) -> Any:
    """SymPy scale_factor corresponding to an SI value (mass stored in grams)."""
    return si_value * R(1000)**d[1]


def prefix_factor(name: str) -> Any:
    return R(10)**PREFIXES[name]


def selfcheck() -> None:
    from sympy.physics.units.systems.si import dimsys_SI
    from .dims import from_lib
    for name, (f, d, _ex) in TABLE.items():
        u = lib_unit(name)
        want = sympy_scale(f, d)
        got = u.scale_factor
        if sympy.Abs(sympy.N(got - want, 30)) > sympy.Abs(sympy.N(want, 30)) * R(1, 10**12):
            raise RuntimeError(f"M-units self-check: {name}: table {want} vs sympy {got}")
        dv = from_lib(u.dimension)
        if not dv.same(d):
            raise RuntimeError(f"M-units self-check: {name}: table dim {d.text()} vs sympy {dv.text()}")
    _ = dimsys_SI
