"""M-dim: dimension vectors over the seven SI base dimensions, with the library's angle-erasure rule.

A DimVec is a 7-tuple of exact SymPy numbers/expressions (exponents of length, mass, time, current,
temperature, amount_of_substance, luminous_intensity). Products, powers and comparisons are done
here, by the model's own arithmetic; the library is consulted only to read the *declared*
dimension of a leaf (`from_lib`), which goes through dimsys_SI.get_dimensional_dependencies on that
single leaf and erases `angle` (and nothing else).
"""
from __future__ import annotations

from fractions import Fraction
from typing import Any, Iterable

import sympy
from sympy.physics import units as U
from sympy.physics.units.definitions.dimension_definitions import angle as ANGLE
from sympy.physics.units.systems.si import dimsys_SI

BASE = ("length", "mass", "time", "current", "temperature", "amount_of_substance", "luminous_intensity")
_LIBBASE = (U.length, U.mass, U.time, U.current, U.temperature, U.amount_of_substance, U.luminous_intensity)
SI_UNITS = (U.meter, U.kilogram, U.second, U.ampere, U.kelvin, U.mole, U.candela)


class NotADimension(Exception):
    """Leaf dimension uses something outside the seven base dimensions + angle (e.g. information)."""


def _num(x: Any) -> Any:
    if isinstance(x, Fraction):
        return sympy.Rational(x.numerator, x.denominator)
    return sympy.sympify(x)


class DimVec(tuple):  # type: ignore[type-arg]
    """Immutable 7-tuple of exact exponents."""

    def __new__(cls, exps: Iterable[Any] = (0,) * 7) -> "DimVec":
        t = tuple(_num(e) for e in exps)
        assert len(t) == 7
        return super().__new__(cls, t)  # type: ignore[arg-type]

    def __mul__(self, o: Any) -> "DimVec":  # type: ignore[override]
        return DimVec(a + b for a, b in zip(self, o))

    def __truediv__(self, o: Any) -> "DimVec":
        return DimVec(a - b for a, b in zip(self, o))

    def __pow__(self, k: Any) -> "DimVec":
        k = _num(k)
        return DimVec(sympy.expand(a * k) for a in self)

    @property
    def is_dimensionless(self) -> bool:
        return all(_is_zero(a) for a in self)

    def same(self, o: "DimVec") -> bool:
        return all(_is_zero(a - b) for a, b in zip(self, o))

    @property
    def n_nonzero(self) -> int:
        return sum(0 if _is_zero(a) else 1 for a in self)

    def is_numeric(self) -> bool:
        return all(a.is_number for a in self)

    def text(self) -> str:
        parts = [f"{n}^{e}" for n, e in zip(BASE, self) if not _is_zero(e)]
        return "*".join(parts) or "1"

    def to_json(self) -> list[str]:
        return [str(e) for e in self]

    def to_lib(self) -> Any:
        """A library Dimension with these exponents (fresh product of base dimensions)."""
        d = sympy.physics.units.Dimension(1)
        for b, e in zip(_LIBBASE, self):
            if not _is_zero(e):
                d = d * b**e
        return d

    def si_unit(self) -> Any:
        """Coherent SI unit expression (kg for mass)."""
        u = sympy.S.One
        for b, e in zip(SI_UNITS, self):
            if not _is_zero(e):
                u = u * b**e
        return u


def _is_zero(x: Any) -> bool:
    x = sympy.sympify(x)
    if x.is_number:
        return bool(x == 0)
    return bool(sympy.simplify(x) == 0)


ONE = DimVec()


def base(name: str, power: Any = 1) -> DimVec:
    i = BASE.index(name)
    return DimVec(power if j == i else 0 for j in range(7))


def make(**kw: Any) -> DimVec:
    return DimVec(kw.get(n, 0) for n in BASE)


def from_json(exps: list[str]) -> DimVec:
    return DimVec(sympy.Rational(e) for e in exps)


def from_lib(dimension: Any) -> DimVec:
    """Vector of a *declared* library Dimension (leaf use only). `angle` is erased."""
    deps = dimsys_SI.get_dimensional_dependencies(dimension, mark_dimensionless=False)
    out = [sympy.S.Zero] * 7
    for d, e in deps.items():
        name = str(d.name)
        if name == "angle":
            continue
        if name not in BASE:
            raise NotADimension(name)
        out[BASE.index(name)] = sympy.sympify(e)
    return DimVec(out)


def angle_dimension() -> Any:
    return ANGLE
