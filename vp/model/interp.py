"""M-interp: random interpretation of scalar expressions (Schwartz-Zippel style value semantics).

Both a SymPy tree (`eval_sympy`) and a parsed rendering (`eval_tree`, plain tuples produced by
vp/parse/*) are evaluated under the same *environment*, which maps atom TOKENS (the printer's own
rendering of an atom: display name, LaTeX name, ...) to numbers:

 * symbols/quantities/opaque wrappers  -> pseudo-random reals derived from sha256(token, salt),
   consistent with the atom's assumptions (positive -> positive, integer -> small positive integer);
 * applied undefined functions F(a..) -> a fixed smooth function determined by F's token;
 * indexed atoms base[i]               -> a fixed smooth function of the index value;
 * Derivative / Integral / Sum / Product -> *linear functionals* sum_j w_j * body[x := x_j]
   (+ fixed multiples of the interpreted limits); nodes and weights depend only on the node kind,
   the bound variable's token and the order.  Two renderings denote the same value iff body,
   variables and limits are value-equal - exactly what a faithful printer guarantees.
Arithmetic: mpmath, 50 digits, complex allowed.
"""
from __future__ import annotations

import hashlib
from typing import Any, Callable

import mpmath

MP = mpmath.mp.clone()
MP.dps = 50
mpf, mpc = MP.mpf, MP.mpc


class Uninterpretable(Exception):
    """No value semantics for this node (harness limit; counted, never a verdict)."""


class IllConditioned(Exception):
    """Division by zero / overflow / domain error at this environment (case is redrawn or discarded)."""


def _h(*parts: Any) -> int:
    m = hashlib.sha256("\x1f".join(str(p) for p in parts).encode()).digest()
    return int.from_bytes(m[:8], "big")


def _unit(*parts: Any) -> Any:
    """Deterministic pseudo-random number in (0, 1) with 3 decimal digits (keeps products tame)."""
    return mpf(1 + _h(*parts) % 997) / mpf(998)


def tame(v: Any) -> Any:
    """Reject astronomically large/small values (they make trigonometric range reduction explode)."""
    if isinstance(v, list):
        return v
    try:
        if v != 0 and not -900 < MP.mag(v) < 900:
            raise IllConditioned("magnitude out of range")
    except (TypeError, ValueError) as exc:
        raise IllConditioned(f"non-finite value: {exc}") from exc
    return v


class Env:
    """Token -> value map. `kinds[token]` in {"positive", "integer", "real", "index"} (default real)."""

    def __init__(self, salt: int, kinds: dict[str, str] | None = None, bound: dict[str, Any] | None = None,
        fixed: dict[str, Any] | None = None) -> None:
        self.salt = salt
        self.kinds = kinds or {}
        self.bound = bound or {}
        self.fixed = fixed or {}

    def bind(self, token: str, value: Any) -> "Env":
        b = dict(self.bound)
        b[token] = value
        return Env(self.salt, self.kinds, b, self.fixed)

    def value(self, token: str) -> Any:
        if token in self.bound:
            return self.bound[token]
        if token in self.fixed:
            return self.fixed[token]
        kind = self.kinds.get(token, "real")
        u = _unit("val", self.salt, token)
        if kind in ("integer", "index"):
            return mpf(1 + _h("int", self.salt, token) % 4)
        mag = mpf("0.5") + 2 * u
        if kind == "positive":
            return mag
        if kind == "negative":
            return -mag
        sign = 1 if _h("sgn", self.salt, token) % 3 else -1
        return sign * mag

    # pseudo-random smooth function attached to a function head token
    def apply_undef(self, head: str, args: list[Any]) -> Any:
        acc = mpf(_h("f0", head) % 89) / 29
        for k, a in enumerate(args):
            if abs(a) > 10**12:
                raise IllConditioned("argument too large for a periodic interpretation at 50 digits")
            acc = acc + (mpf(1 + _h("fk", head, k) % 13) / 7) * tame(a)
        return MP.cos(acc) + mpf(2) + mpf(_h("f1", head) % 5) / 3

    def indexed(self, base: str, idx: list[Any]) -> Any:
        acc = mpf(_h("i0", base, self.salt) % 83) / 31
        for k, a in enumerate(idx):
            if abs(a) > 10**12:
                raise IllConditioned("index too large for a periodic interpretation at 50 digits")
            acc = acc + (mpf(1 + _h("ik", base, k) % 11) / 5) * tame(a)
        return MP.sin(acc) + mpf("1.75")


# ---------------------------------------------------------------------------------------------
# linear functionals


def _nodes(kind: str, var: str, order: int) -> list[tuple[Any, Any]]:
    out = []
    for j in range(3):
        if kind in ("sum", "prod"):
            x = mpf(1 + j)
        else:
            x = mpf("0.6") + mpf(_h("x", kind, var) % 7) / 10 + mpf("0.45") * j
        w = (mpf(1 + _h("w", kind, var, order, j) % 17) / 6) * (1 if j % 2 == 0 else -1)
        out.append((x, w))
    return out


def functional(kind: str, var: str, order: int, body: Callable[[Any], Any], lo: Any = None, hi: Any = None) -> Any:
    """kind in deriv/integral/sum/prod. body(x_j) evaluates the operand with the bound variable set."""
    total = mpf(0)
    for x, w in _nodes(kind, var, order):
        total = total + w * body(x)
    ca = mpf(3 + _h("ca", kind) % 5) / 7
    cb = mpf(2 + _h("cb", kind) % 3) / 11
    if lo is not None:
        total = total + ca * lo
    if hi is not None:
        total = total - cb * hi * (mpf(13) / 10)
    return total


# ---------------------------------------------------------------------------------------------
# named functions (shared by both sides: the *name* is what the rendering claims)

_MPF = {
    "sin": MP.sin, "cos": MP.cos, "tan": MP.tan, "cot": MP.cot, "sec": MP.sec, "csc": MP.csc,
    "asin": MP.asin, "acos": MP.acos, "atan": MP.atan, "acot": MP.acot, "asec": MP.asec, "acsc": MP.acsc,
    "sinh": MP.sinh, "cosh": MP.cosh, "tanh": MP.tanh, "coth": MP.coth, "sech": MP.sech, "csch": MP.csch,
    "asinh": MP.asinh, "acosh": MP.acosh, "atanh": MP.atanh, "acoth": MP.acoth,
    "exp": MP.exp, "Abs": abs, "abs": abs, "sqrt": MP.sqrt, "re": MP.re, "im": MP.im,
    "conjugate": MP.conj, "floor": MP.floor, "ceiling": MP.ceil, "gamma": MP.gamma,
    "factorial": MP.factorial, "erf": MP.erf, "erfc": MP.erfc, "sign": MP.sign, "arg": MP.arg,
}
_ALIASES = {"arcsin": "asin", "arccos": "acos", "arctan": "atan", "arccot": "acot", "arcsec": "asec",
    "arccsc": "acsc", "arsinh": "asinh", "arcosh": "acosh", "artanh": "atanh", "arcoth": "acoth",
    "ln": "log", "ceil": "ceiling"}


def apply_named(name: str, args: list[Any]) -> Any:
    name = _ALIASES.get(name, name)
    args = [tame(a) for a in args]
    if name == "exp" and abs(MP.re(args[0])) > 600:
        raise IllConditioned("exp overflow")
    if name in ("sin", "cos", "tan", "cot", "sec", "csc") and abs(args[0]) > 10**12:
        raise IllConditioned("trigonometric function of a huge argument at 50 digits")
    try:
        if name == "log":
            if len(args) == 1:
                return MP.log(args[0])
            return MP.log(args[0]) / MP.log(args[1])
        if name == "atan2":
            if all(MP.im(a) == 0 for a in args):
                return MP.atan2(MP.re(args[0]), MP.re(args[1]))
        if name == "Min":
            return min(args, key=MP.re)
        if name == "Max":
            return max(args, key=MP.re)
        if name in _MPF and len(args) == 1:
            return _MPF[name](args[0])
        import sympy
        fn = getattr(sympy, name, None)
        if fn is None or not isinstance(fn, type) and not callable(fn):
            raise Uninterpretable(f"unknown function name {name}")
        sargs = [to_sympy(a) for a in args]
        val = fn(*sargs)
        val = sympy.N(val, 50)
        return from_sympy(val)
    except (ZeroDivisionError, OverflowError, ValueError) as exc:
        raise IllConditioned(f"{name}{args}: {exc}") from exc


def to_sympy(a: Any) -> Any:
    import sympy
    if MP.im(a) == 0:
        r = MP.re(a)
        if r == int(r) and abs(r) < 10**6:
            return sympy.Integer(int(r))
        return sympy.Float(MP.nstr(r, 50, strip_zeros=False), 50)
    return sympy.Float(MP.nstr(MP.re(a), 50), 50) + sympy.I * sympy.Float(MP.nstr(MP.im(a), 50), 50)


def from_sympy(v: Any) -> Any:
    import sympy
    if v.is_number:
        re_, im_ = v.as_real_imag()
        try:
            r = mpf(str(sympy.N(re_, 50)))
            i = mpf(str(sympy.N(im_, 50)))
        except (ValueError, TypeError) as exc:
            raise IllConditioned(f"non-finite {v}") from exc
        return r if i == 0 else mpc(r, i)
    raise Uninterpretable(f"did not evaluate to a number: {v}")


def power(b: Any, e: Any) -> Any:
    try:
        if b == 0 and MP.re(e) < 0:
            raise IllConditioned("0**negative")
        if MP.im(e) == 0 and MP.re(e) == int(MP.re(e)) and abs(MP.re(e)) < 64:
            n = int(MP.re(e))
            r = mpf(1)
            base = b if n >= 0 else 1 / b
            for _ in range(abs(n)):
                r = tame(r * base)
            return tame(r)
        b, e = tame(b), tame(e)
        if b != 0 and abs(MP.re(e) * MP.log(abs(b))) > 600:
            raise IllConditioned("power overflow")
        return tame(MP.power(b, e))
    except (ZeroDivisionError, OverflowError, ValueError) as exc:
        raise IllConditioned(f"power({b},{e}): {exc}") from exc


def divide(a: Any, b: Any) -> Any:
    if b == 0:
        raise IllConditioned("division by zero")
    return a / b


def close(a: Any, b: Any, tol: Any = None) -> bool:
    tol = mpf(10)**-25 if tol is None else tol
    if not (MP.isfinite(a) and MP.isfinite(b)):
        raise IllConditioned("non-finite value")
    return bool(abs(a - b) <= tol * (abs(a) + abs(b) + mpf(10)**-30))


def nstr(a: Any, n: int = 15) -> str:
    return str(MP.nstr(a, n))



# ---------------------------------------------------------------------------------------------
# scalar-or-matrix arithmetic (matrices are lists of rows)


def is_mat(a: Any) -> bool:
    return isinstance(a, list)


def g_add(a: Any, b: Any) -> Any:
    if is_mat(a) and is_mat(b):
        if len(a) != len(b) or len(a[0]) != len(b[0]):
            raise Uninterpretable("matrix shapes differ in a sum")
        return [[x + y for x, y in zip(ra, rb)] for ra, rb in zip(a, b)]
    if is_mat(a) or is_mat(b):
        raise Uninterpretable("sum of matrix and scalar")
    return a + b


def g_neg(a: Any) -> Any:
    if is_mat(a):
        return [[-x for x in r] for r in a]
    return -a


def g_mul(a: Any, b: Any) -> Any:
    if is_mat(a) and is_mat(b):
        if len(a[0]) != len(b):
            raise Uninterpretable("matrix shapes do not match in a product")
        out = [[MP.fsum(a[i][k] * b[k][j] for k in range(len(b))) for j in range(len(b[0]))] for i in range(len(a))]
        return out
    if is_mat(a):
        return [[x * b for x in r] for r in a]
    if is_mat(b):
        return [[a * x for x in r] for r in b]
    return a * b


# ---------------------------------------------------------------------------------------------
# SymPy side


class SymEval:
    """Evaluates a SymPy expression; `token_of(atom)` supplies the printer's rendering of an atom."""

    def __init__(self, token_of: Callable[[Any], str]) -> None:
        self.token_of = token_of

    def __call__(self, e: Any, env: Env) -> Any:
        try:
            return self.ev(e, env)
        except (ZeroDivisionError, OverflowError) as exc:
            raise IllConditioned(str(exc)) from exc

    def ev(self, e: Any, env: Env) -> Any:
        # pylint: disable=too-many-return-statements,too-many-branches,too-many-statements
        import sympy
        from sympy.core.function import AppliedUndef
        from sympy.physics.units import Quantity as SymQuantity
        from symplyphysics.core.operations.symbolic import Symbolic
        from symplyphysics.core.operations.sum_indexed import IndexedSum
        from symplyphysics.core.operations.product_indexed import IndexedProduct
        ev = self.ev
        if isinstance(e, (int, float)):
            return mpf(e)
        if isinstance(e, Symbolic):
            return env.value(self.token_of(e))
        if isinstance(e, (sympy.Symbol, SymQuantity)):
            return env.value(self.token_of(e))
        if isinstance(e, sympy.Integer):
            return mpf(int(e))
        if isinstance(e, sympy.Rational):
            return mpf(int(e.p)) / mpf(int(e.q))
        if isinstance(e, sympy.Float):
            # a Float is an atom: its value is the decimal text SymPy shows for it (15 significant digits
            # at double precision); printers' digit formatting is not part of the property
            return mpf(sympy.sstr(e, full_prec=False))
        if e is sympy.I:
            return mpc(0, 1)
        if isinstance(e, sympy.NumberSymbol) or e in (sympy.S.Infinity, sympy.S.NegativeInfinity):
            if e.is_finite is False:
                raise IllConditioned("infinite constant")
            return mpf(str(sympy.N(e, 55)))
        if e is sympy.S.NaN or e is sympy.S.ComplexInfinity:
            raise IllConditioned("nan/zoo constant")
        if isinstance(e, sympy.Idx):
            return env.value(self.token_of(e))
        if isinstance(e, sympy.MatrixBase):
            return [[ev(e[i, j], env) for j in range(e.shape[1])] for i in range(e.shape[0])]
        if isinstance(e, (sympy.Add, sympy.MatAdd)):
            vals = [ev(a, env) for a in e.args]
            if not any(is_mat(v) for v in vals):
                return MP.fsum(vals)
            acc = vals[0]
            for v in vals[1:]:
                acc = g_add(acc, v)
            return acc
        if isinstance(e, (sympy.Mul, sympy.MatMul)):
            r: Any = mpf(1)
            for a in e.args:
                r = g_mul(r, ev(a, env))
            return r
        if isinstance(e, sympy.Transpose):
            m = ev(e.args[0], env)
            return [list(col) for col in zip(*m)]
        if isinstance(e, sympy.core.relational.Relational):
            return ("rel", {"==": "="}.get(e.rel_op, e.rel_op), ev(e.lhs, env), ev(e.rhs, env))
        if isinstance(e, sympy.Pow):
            return power(ev(e.base, env), ev(e.exp, env))
        if isinstance(e, sympy.Indexed):
            return env.indexed(self.token_of(e.base), [ev(i, env) for i in e.indices])
        if isinstance(e, (IndexedSum, IndexedProduct)):
            body, idx = e.args
            tok = self.token_of(idx)
            kind = "sum" if isinstance(e, IndexedSum) else "prod"
            return functional(kind, tok, 1, lambda x: ev(body, env.bind(tok, x)))
        if isinstance(e, sympy.Derivative):
            def chain(expr: Any, vs: list[tuple[Any, int]], en: Env) -> Any:
                if not vs:
                    return ev(expr, en)
                (v, n), rest = vs[0], vs[1:]
                if not isinstance(v, sympy.Symbol):
                    raise Uninterpretable("derivative with respect to a non-symbol")
                tok = self.token_of(v)
                return functional("deriv", tok, int(n), lambda x: chain(expr, rest, en.bind(tok, x)))
            return chain(e.expr, [(v, int(n)) for v, n in e.variable_count], env)
        if isinstance(e, (sympy.Integral, sympy.Sum, sympy.Product)):
            kind = {sympy.Integral: "integral", sympy.Sum: "sum", sympy.Product: "prod"}[type(e)]
            def chain2(expr: Any, lims: list[Any], en: Env) -> Any:
                if not lims:
                    return ev(expr, en)
                lim, rest = lims[0], lims[1:]
                v = lim[0]
                tok = self.token_of(v)
                lo = ev(lim[1], en) if len(lim) == 3 else None
                hi = ev(lim[2], en) if len(lim) == 3 else (ev(lim[1], en) if len(lim) == 2 else None)
                return functional(kind, tok, 1, lambda x: chain2(expr, rest, en.bind(tok, x)), lo, hi)
            return chain2(e.function, list(e.limits)[::-1], env)
        if isinstance(e, AppliedUndef):
            return env.apply_undef(self.token_of(e.func), [ev(a, env) for a in e.args])
        if isinstance(e, sympy.Piecewise):
            raise Uninterpretable("Piecewise")
        if isinstance(e, sympy.Function) or isinstance(e, sympy.functions.elementary.miscellaneous.MinMaxBase):
            name = type(e).__name__
            return apply_named(name, [ev(a, env) for a in e.args])
        if isinstance(e, sympy.Abs):
            return abs(ev(e.args[0], env))
        raise Uninterpretable(f"{type(e).__name__}")


# ---------------------------------------------------------------------------------------------
# parsed side


def eval_tree(t: Any, env: Env) -> Any:
    """Evaluate a tree produced by vp/parse (plain tuples). Matrices -> list of rows; rel -> ("rel", op, l, r)."""
    # pylint: disable=too-many-return-statements,too-many-branches
    try:
        return _et(t, env)
    except (ZeroDivisionError, OverflowError) as exc:
        raise IllConditioned(str(exc)) from exc


def _et(t: Any, env: Env) -> Any:
    # pylint: disable=too-many-return-statements,too-many-branches
    op = t[0]
    if op == "num":
        return mpf(t[1])
    if op == "tok":
        return env.value(t[1])
    if op == "const":
        return {"pi": MP.pi, "E": MP.e, "I": mpc(0, 1)}.get(t[1]) if t[1] != "oo" else _raise_ill("oo")
    if op == "neg":
        return g_neg(_et(t[1], env))
    if op == "add":
        return g_add(_et(t[1], env), _et(t[2], env))
    if op == "sub":
        return g_add(_et(t[1], env), g_neg(_et(t[2], env)))
    if op == "mul":
        return g_mul(_et(t[1], env), _et(t[2], env))
    if op == "transpose":
        return [list(col) for col in zip(*_et(t[1], env))]
    if op == "div":
        return divide(_et(t[1], env), _et(t[2], env))
    if op == "pow":
        return power(_et(t[1], env), _et(t[2], env))
    if op == "call":
        return apply_named(t[1], [_et(a, env) for a in t[2]])
    if op == "apply":
        return env.apply_undef(t[1], [_et(a, env) for a in t[2]])
    if op == "index":
        return env.indexed(t[1], [_et(a, env) for a in t[2]])
    if op == "fact":
        return apply_named("factorial", [_et(t[1], env)])
    if op == "deriv":
        def chain(vs: list[Any], en: Env) -> Any:
            if not vs:
                return _et(t[1], en)
            (tok, n), rest = vs[0], vs[1:]
            return functional("deriv", tok, int(n), lambda x: chain(rest, en.bind(tok, x)))
        return chain(list(t[2]), env)
    if op in ("integral", "sum", "prod"):
        def chain2(lims: list[Any], en: Env) -> Any:
            if not lims:
                return _et(t[1], en)
            (tok, lo, hi), rest = lims[0], lims[1:]
            lo_v = _et(lo, en) if lo is not None else None
            hi_v = _et(hi, en) if hi is not None else None
            return functional(op, tok, 1, lambda x: chain2(rest, en.bind(tok, x)), lo_v, hi_v)
        # limits are written innermost first (SymPy order); the outermost functional is the last one
        return chain2(list(t[2])[::-1], env)
    if op == "matrix":
        return [[_et(x, env) for x in row] for row in t[1]]
    if op == "rel":
        return ("rel", t[1], _et(t[2], env), _et(t[3], env))
    raise Uninterpretable(f"tree node {op}")


def _raise_ill(what: str) -> Any:
    raise IllConditioned(what)


def values_close(a: Any, b: Any, tol: Any = None) -> bool:
    """close() lifted to matrices and relations."""
    if isinstance(a, tuple) and isinstance(b, tuple) and a and a[0] == "rel" and b[0] == "rel":
        return a[1] == b[1] and values_close(a[2], b[2], tol) and values_close(a[3], b[3], tol)
    if is_mat(a) and is_mat(b):
        if len(a) != len(b) or any(len(x) != len(y) for x, y in zip(a, b)):
            return False
        return all(close(x, y, tol) for ra, rb in zip(a, b) for x, y in zip(ra, rb))
    if is_mat(a) or is_mat(b) or isinstance(a, tuple) or isinstance(b, tuple):
        return False
    return close(a, b, tol)


def show(a: Any) -> Any:
    if isinstance(a, tuple) and a and a[0] == "rel":
        return [a[1], show(a[2]), show(a[3])]
    if is_mat(a):
        return [[nstr(x) for x in r] for r in a]
    return nstr(a)
