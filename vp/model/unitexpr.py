"""Unit expressions as plain JSON (shared by C07 and C08): strategies, library builder, model value.

A unit expression is a list of terms `[name, prefix, exp]`:
  name   - key of vp.model.units.TABLE
  prefix - ""            no prefix
           "S:<p>"       symplyphysics `prefixes.<p>` (a Python int, or a Python *float* for the
                         negative powers of ten) multiplied from the left
           "P:<p>"       SymPy `Prefix` object multiplied from the left  (collapses to a number)
           "R:<p>"       SymPy `Prefix` object multiplied from the right (stays a Prefix node in the Mul)
  exp    - rational as a string ("2", "-1", "1/2"), applied to (prefix*unit)
The empty list is the number one (`S.One`), which is how real callers spell "dimensionless".

The model side (`factor`, `dim`) uses only vp.model.units (hand-typed SI factors) and vp.model.dims;
the library side (`build`) uses only SymPy's unit objects and the symplyphysics prefix table.
"""
from __future__ import annotations

from typing import Any

import sympy
from hypothesis import strategies as st

from . import units as MU
from .dims import DimVec

Term = list  # [name, prefix, exp]

SI_BASE = ("meter", "kilogram", "second", "ampere", "kelvin", "mole", "candela")
# pure base-dimension unit families (index = position in dims.BASE)
FAMILY: list[list[str]] = [[] for _ in range(7)]
DIMLESS: list[str] = []
for _n, (_f, _d, _e) in MU.TABLE.items():
    if _d.is_dimensionless:
        DIMLESS.append(_n)
        continue
    if _d.n_nonzero == 1:
        _i = [j for j in range(7) if _d[j] != 0][0]
        if _d[_i] == 1:
            FAMILY[_i].append(_n)
DERIVED = [n for n, (_f, d, _e) in MU.TABLE.items() if not d.is_dimensionless and n not in sum(FAMILY, [])]
INEXACT_NAMES = {n for n in MU.TABLE if not MU.exact(n)}
IRRATIONAL_NAMES = {"degree"}

PREFIX_NAMES = list(MU.PREFIXES)
# prefixes used with weight: the common ones twice
_COMMON = ["kilo", "milli", "micro", "nano", "mega", "centi", "giga", "deci", "hecto", "pico"]


# ------------------------------------------------------------------------------------------------
# model side


def rat(s: Any) -> Any:
    return sympy.Rational(s)


def term_factor(t: Term) -> Any:
    name, prefix, exp = t
    f = MU.factor(name)
    if prefix:
        f = f * MU.prefix_factor(prefix[2:])
    return f**rat(exp)


def factor(terms: list[Term]) -> Any:
    """Exact number of coherent SI units (kg-based) in one `terms`."""
    out = sympy.S.One
    for t in terms:
        out = out * term_factor(t)
    return out


def dim(terms: list[Term]) -> DimVec:
    out = DimVec()
    for name, _p, exp in terms:
        out = out * MU.dim(name)**rat(exp)
    return out


def is_exact(terms: list[Term]) -> bool:
    """True iff the library's scale factor of the expression is an exact SymPy number (no Float)."""
    for name, prefix, _exp in terms:
        if name in INEXACT_NAMES:
            return False
        if prefix.startswith("S:") and MU.PREFIXES[prefix[2:]] < 0:
            return False  # 10**-3 is the Python float 0.001
    return True


def is_rational(terms: list[Term]) -> bool:
    for name, _prefix, exp in terms:
        if name in IRRATIONAL_NAMES:
            return False
        if rat(exp).q != 1:
            return False
    return True


def is_plain(terms: list[Term]) -> bool:
    """Only coherent SI base units without prefixes (the 'trivial' unit expressions)."""
    return all(name in SI_BASE and not prefix for name, prefix, _ in terms)


def text(terms: list[Term]) -> str:
    if not terms:
        return "1"
    parts = []
    for name, prefix, exp in terms:
        s = (prefix + "*" if prefix else "") + name
        if prefix and exp != "1":
            s = "(" + s + ")"
        parts.append(s if exp == "1" else f"{s}**({exp})")
    return " * ".join(parts)


# ------------------------------------------------------------------------------------------------
# library side


def build_term(t: Term) -> Any:
    from sympy.physics.units import prefixes as SP
    name, prefix, exp = t
    u = MU.lib_unit(name)
    if prefix:
        kind, pname = prefix[0], prefix[2:]
        if kind == "S":
            from symplyphysics.core.symbols.prefixes import prefixes as SYM
            u = getattr(SYM, pname) * u
        elif kind == "P":
            u = getattr(SP, pname) * u
        elif kind == "R":
            u = u * getattr(SP, pname)
        else:
            raise ValueError(prefix)
    e = rat(exp)
    return u if e == 1 else u**e


def build(terms: list[Term]) -> Any:
    out = sympy.S.One
    for t in terms:
        out = out * build_term(t)
    return out


# ------------------------------------------------------------------------------------------------
# strategies

_EXPS = ["1", "1", "1", "1", "-1", "-1", "2", "-2", "3", "-3", "1/2"]
_EXPS_INT = ["1", "1", "1", "1", "-1", "-1", "2", "-2", "3", "-3"]


def prefix_st(p_none: float = 0.65) -> st.SearchStrategy[str]:
    names = st.sampled_from(_COMMON + _COMMON + PREFIX_NAMES)
    kinds = st.sampled_from(["S", "S", "P", "R"])
    pre = st.builds(lambda k, n: f"{k}:{n}", kinds, names)
    k = max(1, int(round(p_none / (1 - p_none))))
    return st.one_of(*([st.just("")] * k), pre)


def term_st(names: list[str] | None = None, *, exps: list[str] | None = None,
    exact_only: bool = False) -> st.SearchStrategy[Term]:
    pool = list(names if names is not None else MU.TABLE)
    if exact_only:
        pool = [n for n in pool if n not in INEXACT_NAMES and n not in IRRATIONAL_NAMES]
    pre = prefix_st()
    if exact_only:
        pre = pre.map(lambda p: ("P" + p[1:]) if p.startswith("S:") and MU.PREFIXES[p[2:]] < 0 else p)
    return st.builds(lambda n, p, e: [n, p, e], st.sampled_from(pool), pre, st.sampled_from(exps or _EXPS))


def source_st(*, exact_only: bool = False, max_terms: int = 3) -> st.SearchStrategy[list[Term]]:
    """Unit expression of 1..max_terms arbitrary terms (its dimension is whatever comes out)."""
    exps = _EXPS_INT if exact_only else _EXPS
    return st.lists(term_st(exps=exps, exact_only=exact_only), min_size=1, max_size=max_terms)


@st.composite
def equivalent_st(draw: Any, d: DimVec, *, exact_only: bool = False) -> list[Term]:
    """A unit expression with dimension vector exactly `d`, generated independently of any source."""
    d = DimVec(d)
    same = [n for n in MU.names_of_dim(d)
        if not (exact_only and (n in INEXACT_NAMES or n in IRRATIONAL_NAMES))]
    mode = draw(st.integers(0, 5))
    terms: list[Term] = []
    exps = _EXPS_INT if exact_only else _EXPS
    if mode <= 1 and same and not d.is_dimensionless:
        terms.append(draw(term_st(same, exps=["1"], exact_only=exact_only)))
    elif mode <= 3:
        k = draw(st.integers(1, 2))
        for _ in range(k):
            terms.append(draw(term_st(DERIVED, exps=exps, exact_only=exact_only)))
    # complete with pure base-dimension families
    rest = d / dim(terms)
    for i in range(7):
        e = rest[i]
        if e == 0:
            continue
        fam = [n for n in FAMILY[i] if not (exact_only and n in INEXACT_NAMES)]
        # split an exponent of magnitude >= 2 over two different units now and then (m*km, s*hour)
        if abs(e) >= 2 and e.q == 1 and draw(st.integers(0, 3)) == 0:
            one = sympy.sign(e)
            terms.append(draw(term_st(fam, exps=[str(one)], exact_only=exact_only)))
            e = e - one
        terms.append(draw(term_st(fam, exps=[str(e)], exact_only=exact_only)))
    # angle erasure / dimensionless factors: rad, percent, ... do not change the dimension
    if draw(st.integers(0, 7)) == 0:
        pool = [n for n in DIMLESS if not (exact_only and n in IRRATIONAL_NAMES)]
        terms.append([draw(st.sampled_from(pool)), "", draw(st.sampled_from(["1", "-1"]))])
    if len(terms) > 1:
        terms = list(draw(st.permutations(terms)))
    assert dim(terms).same(d), (terms, d)
    return terms


@st.composite
def inequivalent_st(draw: Any, d: DimVec, *, exact_only: bool = False) -> tuple[str, list[Term]]:
    """(class label, unit expression) whose dimension vector differs from `d`."""
    d = DimVec(d)
    mode = draw(st.integers(0, 3))
    dimensional = [n for n, (_f, dv, _e) in MU.TABLE.items() if not dv.is_dimensionless
        and not (exact_only and n in INEXACT_NAMES)]
    if mode == 0 and not d.is_dimensionless:
        return "one", []
    if mode == 1:
        base = draw(equivalent_st(d, exact_only=exact_only))
        extra = draw(term_st(dimensional, exps=["1", "-1", "2", "-2"], exact_only=exact_only))
        terms = base + [extra]
        if not dim(terms).same(d):
            return "extra-factor", terms
    if mode == 2 and not d.is_dimensionless:
        # same base dimensions, one exponent changed (m/s vs m/s**2)
        idx = [i for i in range(7) if d[i] != 0]
        i = draw(st.sampled_from(idx))
        delta = draw(st.sampled_from([1, -1]))
        d2 = DimVec(e + (delta if j == i else 0) for j, e in enumerate(d))
        return "exponent-off-by-one", draw(equivalent_st(d2, exact_only=exact_only))
    for _ in range(20):
        terms = draw(source_st(exact_only=exact_only, max_terms=2))
        if not dim(terms).same(d):
            return ("dimless-target" if dim(terms).is_dimensionless else "random"), terms
    return "random", [["meter", "", "1"]] if not dim([["meter", "", "1"]]).same(d) else [["second", "", "1"]]
