"""Catalogue walker: module discovery from the file tree, public equations after a normal import,
documented members in *source form* (exactly as the documentation obtains them), decorator specs."""
from __future__ import annotations

import ast
import importlib
import inspect
import os
import pathlib
from typing import Any, Iterator

from .boot import REPO

ROOTS = ("laws", "definitions", "conditions")


def module_names(roots: tuple[str, ...] = ROOTS, with_packages: bool = False) -> list[str]:
    """Dotted names of every catalogue leaf module (sorted), computed from the file tree."""
    out: list[str] = []
    base = pathlib.Path(REPO) / "symplyphysics"
    for root in roots:
        for path, dirs, files in os.walk(base / root):
            dirs[:] = sorted(d for d in dirs if not d.startswith((".", "_")))
            rel = pathlib.Path(path).relative_to(base.parent)
            for f in sorted(files):
                if not f.endswith(".py"):
                    continue
                if f == "__init__.py":
                    if with_packages:
                        out.append(".".join(rel.parts))
                    continue
                if f.endswith(".py.py"):
                    continue
                out.append(".".join(rel.parts + (f[:-3],)))
    return sorted(out)


def module_path(name: str) -> pathlib.Path:
    p = pathlib.Path(REPO) / pathlib.Path(*name.split("."))
    if p.is_dir():
        return p / "__init__.py"
    return p.with_suffix(".py")


def short(name: str) -> str:
    return name[len("symplyphysics."):] if name.startswith("symplyphysics.") else name


def import_module(name: str) -> Any:
    return importlib.import_module(name)


def is_equation(v: Any) -> bool:
    import sympy
    return isinstance(v, sympy.core.relational.Relational)


def public_equations(mod: Any) -> Iterator[tuple[str, Any]]:
    """(attribute path, Relational) for every public module attribute that is an equation or a
    list/tuple of equations, defined in this module (not imported symbols)."""
    for attr, v in vars(mod).items():
        if attr.startswith("_"):
            continue
        if is_equation(v):
            yield attr, v
        elif isinstance(v, (list, tuple)) and v and all(is_equation(x) for x in v):
            for i, x in enumerate(v):
                yield f"{attr}[{i}]", x


def doc_members(name: str) -> list[Any]:
    """Documented members of a module in source form: patch_sympy_evaluate + find_members_and_functions,
    exactly the documentation pipeline. Returns MemberWithDoc objects (value = unevaluated expression)."""
    from symplyphysics.docs.parse import find_members_and_functions
    from symplyphysics.docs.patch import patch_sympy_evaluate
    src = module_path(name).read_text(encoding="utf-8")
    tree = ast.parse(src)
    if ast.get_docstring(tree) is None:
        return []
    tree = patch_sympy_evaluate(tree)
    members, _functions = find_members_and_functions(tree)
    return members


def decorator_specs(fn: Any) -> dict[str, Any]:
    """Walk the functools.wraps chain; returns {"inputs": {param: unit}, "output": unit|None,
    "output_same": param|None, "inner": undecorated function, "decorated": bool}."""
    spec: dict[str, Any] = {"inputs": {}, "output": None, "output_same": None, "decorated": False}
    f = fn
    while hasattr(f, "__wrapped__"):
        spec["decorated"] = True
        free = dict(zip(f.__code__.co_freevars, [c.cell_contents for c in (f.__closure__ or ())]))
        if "decorator_kwargs" in free:
            spec["inputs"].update(free["decorator_kwargs"])
        if "expected_unit" in free:
            spec["output"] = free["expected_unit"]
        if "param_name" in free:
            spec["output_same"] = free["param_name"]
        f = f.__wrapped__
    spec["inner"] = f
    return spec


def public_functions(mod: Any) -> Iterator[tuple[str, Any]]:
    for attr, v in vars(mod).items():
        if attr.startswith("_") or not inspect.isfunction(v):
            continue
        inner = v
        while hasattr(inner, "__wrapped__"):
            inner = inner.__wrapped__
        if getattr(inner, "__module__", None) != mod.__name__:
            continue
        yield attr, v
