#!/bin/bash
# quiet-check of the committed tree, part A: quick at three seeds (C03 at one more seed), then the cheaper thorough commands
cd "$(dirname "$0")/.."
export VERIF_NPROC=${VERIF_NPROC:-8}
tools/multiseed.sh "1 2 3" "C01 C02 C04 C05 C06 C07 C08 C09 C10 C11 C12 C13 C14 C15 C16 C17 C18 C19 C20" quick
tools/multiseed.sh "2" "C03" quick
tools/multiseed.sh "1" "C20 C01 C05 C04 C14 C10 C12 C07 C08 C17 C18 C19 C15 C16" thorough
