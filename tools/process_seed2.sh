#!/bin/bash
# usage: tools/process_seed2.sh <ID> [extra check ids] : collect round-2 seed from /tmp/seed2-<ID>/OUT into seeded/<ID>b, confirm, run checks
id="$1"; shift; d=/verif/seeded/${id}b; mkdir -p $d
cp /tmp/seed2-$id/OUT/patch.diff /tmp/seed2-$id/OUT/demo.py /tmp/seed2-$id/OUT/meta.json $d/ || exit 3
NP=${NP:-10} /verif/tools/confirm_seed.sh ${id}b 2>&1 | grep CONFIRM
/verif/tools/run_seed.sh ${id}b $id "$@" 2>&1 | grep "^SEED"
