#!/bin/bash
# usage: tools/confirm_seed.sh <ID>  - confirms a seeded change in a fresh scratch worktree of /repo HEAD:
# patch applies; demo passes without and fails with the change; full test-suite passes with it.
id="$1"; S=/verif/seeded/$id; W=/dev/shm/confirm-$id
git -C /repo worktree add -q $W HEAD || exit 3
cd $W
PYTHONPATH=$W /venv/bin/python $S/demo.py >/dev/null 2>&1; d0=$?
git apply $S/patch.diff || { echo "$id: patch does not apply"; git -C /repo worktree remove --force $W; exit 3; }
PYTHONPATH=$W /venv/bin/python $S/demo.py >/dev/null 2>&1; d1=$?
t=$(PYTHONPATH=$W /venv/bin/python -m pytest -q -p no:cacheprovider -n ${NP:-8} test 2>&1 | tail -1)
echo "CONFIRM $id demo_without=$d0 demo_with=$d1 tests: $t"
cd /; git -C /repo worktree remove --force $W; rm -rf $W
