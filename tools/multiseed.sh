#!/bin/bash
# usage: tools/multiseed.sh "<seeds>" "<ids>" [tier]  - runs the checks at several seeds, prints one summary line per run
seeds="$1"; ids="$2"; tier="${3:-quick}"
for sd in $seeds; do for id in $ids; do
  out=$(VERIF_SEED=$sd ./run_check.sh $id $tier 2>&1); rc=$?
  echo "seed=$sd $id exit=$rc $(echo "$out" | grep "^\[$id\]" | cut -c1-160)"
  echo "$out" | grep "^VIOLATION\|HARNESS-ERROR\|Error" | cut -c1-400 | head -5
done; done
