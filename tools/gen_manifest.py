#!/venv/bin/python
"""Regenerates MANIFEST.json from the table below (one row per claimed property) and validates it."""
import json, pathlib, sys
V = pathlib.Path(__file__).resolve().parent.parent
CHECKS = {
 "C14": dict(
   technique="property-based testing: Hypothesis-generated vector-expression trees + creation-order permutations vs. harness R^3 component model (reference-model oracle), dual-number derivative oracle, greedy shrinking to replay files",
   text="Generated search (8k trees + 1k derivative cases quick, 300k + 30k thorough, 16 shards) over expression trees, operand repetitions and relative id() orders of the atoms; every auto-evaluated / doit() / diff() result is compared with an independent component model in 60-digit arithmetic. Finds rule-level rewrite errors that only fire for particular identity orders; does not prove absence.",
   note="Trusted: the textbook component formulas in vp/model/r3.py, mpmath arithmetic, SymPy's Add/Mul/Pow semantics. id() order is controlled through sorting fresh atoms; other CPython address effects are not explored.",
   ref="DESIGN.md section 2/C14"),
}
NOT_BUILT = "check not built yet in this round (planned in DESIGN.md section 2); no claim is made"
def main():
    props = [json.loads(l) for l in (V / "properties.jsonl").read_text().splitlines() if l.strip()]
    checks = []
    na = []
    for p in props:
        pid = p["id"]
        c = CHECKS.get(pid)
        if c is None:
            na.append({"property_id": pid, "reason": NA.get(pid, NOT_BUILT)})
            continue
        checks.append({
          "property_id": pid,
          "quick_cmd": f"./run_check.sh {pid} quick",
          "thorough_cmd": f"./run_check.sh {pid} thorough",
          "evidence_file": f"/verif/evidence/{pid}.json",
          "replay_cmd_template": f"./run_check.sh {pid} replay {{path}}",
          "engine": "vp",
          "level_claimed": {"category": c.get("category", "exploration"), "text": c["text"], "design_ref": c["ref"]},
          "level_note": c["note"],
          "technique": c["technique"],
        })
    man = {
      "version": 1,
      "setup_cmd": "./setup.sh",
      "hooks": {
        "guard": "SYMPLYPHYSICS_VERIF",
        "enable": "run_check.sh exports SYMPLYPHYSICS_VERIF=1; no source hook was needed (decorator specs are read by closure introspection, id counters are preloaded through sys.modules), so the variable currently guards nothing in /repo",
        "baseline_off_cmd": "cd /repo && /venv/bin/python -m pytest -ra -q -p no:cacheprovider --timeout=900 --continue-on-collection-errors",
        "source_commits": [],
        "add_only": True,
      },
      "engines": [{"name": "vp", "path": "/verif/vp", "serves_properties": [c["property_id"] for c in checks],
                   "kind_free_text": "Hypothesis 6.168 strategies emitting JSON case descriptions, harness-owned reference models and parsers, 16-way forked task pool, greedy JSON shrinker, replay files"}],
      "checks": checks,
      "not_applicable": na,
      "notes": "All checks: ./run_check.sh <ID> quick|thorough|replay <file>; exit 0 held / 1 VIOLATION / 2 harness error. Known findings: known_findings.json. Genuine defects repaired in /repo by 'fix:' commits are listed there with status=fixed.",
    }
    (V / "MANIFEST.json").write_text(json.dumps(man, indent=1) + "\n")
    try:
        import jsonschema
        jsonschema.validate(man, json.loads(open("/root/.vp/MANIFEST.schema.json").read()))
        print("MANIFEST valid;", len(checks), "checks,", len(na), "not_applicable")
    except ImportError:
        print("jsonschema not available; wrote MANIFEST without validation")
NA = {}
if __name__ == "__main__":
    main()
